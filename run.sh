#!/bin/bash
# usage: ./run.sh <property-id> quick|thorough [--replay <file>]
# Rebuilds the checker and the gopki CLI from /repo's current working tree, then runs the check.
set -u
cd "$(dirname "$0")"
VERIF=$(pwd)
export GOFLAGS=-mod=mod GOPROXY=off GOSUMDB=off GOTOOLCHAIN=local
export GOCACHE="${GOCACHE:-$VERIF/.cache/go-build}"
export VERIF_DIR="$VERIF"
mkdir -p "$VERIF/.bin" "$VERIF/evidence" "$VERIF/replays"
ID="$1"; TIER="${2:-quick}"; shift; shift || true
BIN="$VERIF/.bin/check.$$"
GBIN="$VERIF/.bin/gopki.$$"
trap 'rm -f "$BIN" "$GBIN"' EXIT
REPO="${VERIF_REPO:-/repo}"
export VERIF_REPO="$REPO"
if [ "$REPO" = /repo ]; then
  cp /repo/go.sum "$VERIF/mc/go.sum" 2>/dev/null
  ( cd "$VERIF/mc" && go build -o "$BIN" ./cmd/check ) || { echo "HARNESS-ERROR: building the checker against /repo failed"; exit 2; }
else
  # another copy of the repository (used by tools/seedmatrix.sh): same module, different replace target
  sed "s#=> /repo#=> $REPO#" "$VERIF/mc/go.mod" > "$VERIF/mc/go.alt.$$.mod"; cp "$REPO/go.sum" "$VERIF/mc/go.alt.$$.sum"
  ( cd "$VERIF/mc" && go build -modfile="go.alt.$$.mod" -o "$BIN" ./cmd/check ); rc=$?
  rm -f "$VERIF/mc/go.alt.$$.mod" "$VERIF/mc/go.alt.$$.sum"
  [ $rc = 0 ] || { echo "HARNESS-ERROR: building the checker against $REPO failed"; exit 2; }
fi
( cd "$REPO" && go build -o "$GBIN" . ) || { echo "HARNESS-ERROR: building gopki failed"; exit 2; }
export VERIF_GOPKI_BIN="$GBIN"
if [ "${1:-}" = "--replay" ]; then
  "$BIN" -p "$ID" -tier "$TIER" -replay "$2"; exit $?
fi
"$BIN" -p "$ID" -tier "$TIER"
