#!/bin/bash
# Offline setup: warms the Go build cache for the checker and the gopki binary. Nothing a check depends on is generated here.
set -u
cd "$(dirname "$0")"
VERIF=$(pwd)
export GOFLAGS=-mod=mod GOPROXY=off GOSUMDB=off GOTOOLCHAIN=local
export GOCACHE="${GOCACHE:-$VERIF/.cache/go-build}"
mkdir -p "$VERIF/.bin" "$VERIF/evidence" "$VERIF/replays"
cp /repo/go.sum "$VERIF/mc/go.sum"
( cd "$VERIF/mc" && go build -o /dev/null ./cmd/check ) || exit 1
( cd /repo && go build -o /dev/null . ) || exit 1
echo setup ok
