#!/bin/bash
# like runall.sh but against the repository snapshot of `vp run --with-repo` ($VP_RUN_REPO), or /repo
cd "$(dirname "$0")/.."
TIER=${1:-quick}
for i in $(seq -w 1 20); do
  id=C$i
  s=$(date +%s)
  if [ -n "${VP_RUN_REPO:-}" ]; then out=$(VERIF_REPO="$VP_RUN_REPO" ./run.sh $id $TIER 2>&1); rc=$?; else out=$(./run.sh $id $TIER 2>&1); rc=$?; fi
  e=$(date +%s)
  echo "rc=$rc $(echo "$out" | tail -1) [$((e-s))s total]"
  echo "$out" | grep -E "^(VIOLATION|UNREPRODUCED|HARNESS|  class:)" | head -8
  cp evidence/$id.json evidence-$TIER-$id.json 2>/dev/null
done
