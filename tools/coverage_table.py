#!/usr/bin/env python3
"""Rewrites the block between <!-- COVERAGE-BEGIN --> and <!-- COVERAGE-END --> in DESIGN.md from evidence/*.json
(the last committed run of every check) and evidence-thorough/*.json (snapshot of the last full thorough run)."""
import json,glob,re
def table(pattern):
    rows=[]
    for f in sorted(glob.glob(pattern)):
        e=json.load(open(f)); c=e['coverage']
        rows.append('| %s | %s | %s | %s | %s | %s | %s | %s | %s | %.0f s |'%(e['property_id'],e['tier'],e['level'],f"{c['evaluations']:,}",f"{c['distinct_nontrivial']:,}",
            f"{c.get('states',0):,}" if c.get('states') else '-', f"{c.get('transitions',0):,}" if c.get('transitions') else '-', c.get('traces_validated_against_impl','-') if c.get('traces_validated_against_impl') else '-', 'yes' if c['exhaustive'] else 'NO', e['wall_s']))
    return '| id | tier | level | evaluations | distinct non-trivial | states | transitions | binary runs | bounded space exhausted | wall |\n|---|---|---|---|---|---|---|---|---|---|\n'+'\n'.join(rows)
tab=table('/verif/evidence/C*.json')+'\n\nThorough tier (snapshot `evidence-thorough/`, written by the last full thorough run against the repository):\n\n'+table('/verif/evidence-thorough/evidence-thorough-C*.json')
p='/verif/DESIGN.md'
s=open(p).read()
blk='<!-- COVERAGE-BEGIN -->\n'+tab+'\n<!-- COVERAGE-END -->'
if '<!-- COVERAGE-BEGIN -->' in s:
    s=re.sub(r'<!-- COVERAGE-BEGIN -->.*?<!-- COVERAGE-END -->',lambda m:blk,s,flags=re.S)
else:
    s+='\n## 12. Measured coverage (last committed run of every check)\n\nNumbers are written by the checks themselves into `evidence/<id>.json`; this table is regenerated from those files by `tools/coverage_table.py`.\n\n'+blk+'\n'
open(p,'w').write(s)
print(tab)
