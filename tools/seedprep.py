#!/usr/bin/env python3
"""seedprep.py <root-dir>: creates one scratch worktree of /repo per property under <root-dir> with a TASK.md
that holds only the property text and one-line descriptions of earlier seeded changes (to avoid repeats)."""
import json,glob,os,subprocess,sys
root=sys.argv[1]
props={}
for l in open('/verif/properties.jsonl'):
    p=json.loads(l); props[p['id']]=p
prev={}
for m in sorted(glob.glob('/verif/seeded/*/meta.json')):
    d=json.load(open(m)); prev.setdefault(d['property'],[]).append((d['files_changed'], d['needs_to_manifest']))
T=open('/verif/tools/seed_task_template.txt').read()
os.makedirs(root,exist_ok=True)
for pid,p in props.items():
    d=root+'/'+pid
    subprocess.check_call(['git','-C','/repo','worktree','add','-q','--detach',d,'HEAD'])
    pv='\n'.join(' - changed %s; manifests with: %s'%(', '.join(f),n) for f,n in prev.get(pid,[]))
    open(d+'/TASK.md','w').write(T.format(dir=d,id=pid,title=p['title'],statement=p['statement'],quant=p['quantifier']['text'],prev=pv))
print('prepared',len(props),'worktrees under',root)
