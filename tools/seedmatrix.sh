#!/bin/bash
# Applies every seeded change to a scratch copy of the repository ($VP_RUN_REPO under `vp run --with-repo`,
# else a temporary git worktree), runs every check (quick) against it and prints a detection matrix.
# Never touches /repo's working tree.
cd "$(dirname "$0")/.."
V=$(pwd)
R="${VP_RUN_REPO:-}"
if [ -z "$R" ]; then R=$(mktemp -d /tmp/seedmatrix.XXXX)/repo; git -C /repo worktree add -q --detach "$R" HEAD; OWN=1; fi
CHECKS="${CHECKS:-$(seq -f 'C%02g' 1 20)}"
OUT="$V/seeded/matrix.txt"; : > "$OUT"
for d in "$V"/seeded/C*/; do
  id=$(basename "$d")
  git -C "$R" checkout -q -- . ; git -C "$R" apply "$d/patch.diff" || { echo "$id: patch does not apply" | tee -a "$OUT"; continue; }
  line="$id:"
  for c in $CHECKS; do
    out=$(VERIF_REPO="$R" ./run.sh $c quick 2>&1); rc=$?
    case $rc in 0) ;; 1) line="$line $c";; *) line="$line $c(harness-error)";; esac
  done
  echo "$line" | tee -a "$OUT"
  git -C "$R" checkout -q -- .
done
[ -n "${OWN:-}" ] && git -C /repo worktree remove --force "$R"
