#!/bin/bash
# Applies every seeded change to a scratch copy of the repository ($VP_RUN_REPO under `vp run --with-repo`,
# else a temporary git worktree), runs checks (quick) against it and prints a detection matrix.
# Never touches /repo's working tree.
#   MODE=own (default): each change against the check of the property it targets (regression of the seeded set, ~1 h)
#   MODE=all          : each change against all twenty checks (~10 h)
#   CHECKS="C01 C12"  : explicit list, overrides MODE
cd "$(dirname "$0")/.."
V=$(pwd)
R="${VP_RUN_REPO:-}"
if [ -z "$R" ]; then R=$(mktemp -d /tmp/seedmatrix.XXXX)/repo; git -C /repo worktree add -q --detach "$R" HEAD; OWN_WT=1; fi
MODE="${MODE:-own}"
OUT="$V/seeded/matrix.txt"; : > "$OUT"
echo "# seeded change: checks (quick tier) that report it; mode=$MODE; repository $(git -C "$R" rev-parse --short HEAD)" >> "$OUT"
for d in "$V"/seeded/C*/; do
  id=$(basename "$d")
  if grep -q '"neutralised_by"' "$d/meta.json" 2>/dev/null; then echo "$id: (neutralised by a later fix, see meta.json)" | tee -a "$OUT"; continue; fi
  git -C "$R" checkout -q -- . ; git -C "$R" apply "$d/patch.diff" || { echo "$id: patch does not apply" | tee -a "$OUT"; continue; }
  if [ -n "${CHECKS:-}" ]; then L="$CHECKS"; elif [ "$MODE" = all ]; then L=$(seq -f 'C%02g' 1 20); else L=${id%%-*}; fi
  line="$id:"
  for c in $L; do
    out=$(VERIF_REPO="$R" ./run.sh $c quick 2>&1); rc=$?
    case $rc in 0) [ "$MODE" = own ] && line="$line $c(NOT-REPORTED)";; 1) line="$line $c";; *) line="$line $c(harness-error)";; esac
  done
  echo "$line" | tee -a "$OUT"
  git -C "$R" checkout -q -- .
done
[ -n "${OWN_WT:-}" ] && git -C /repo worktree remove --force "$R"
exit 0
