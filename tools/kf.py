#!/usr/bin/env python3
"""kf.py fixed <prop> <commit> <class> <what>   |   kf.py known <prop> <class> <what>"""
import json,sys
p='/verif/known_findings.json'
d=json.load(open(p))
k=sys.argv[1]
if k=='fixed':
    _,_,prop,commit,cls,what=sys.argv
    d['findings'].append({"property":prop,"status":"fixed","commit":commit,"class":cls,"what":what,
                          "line":"fixed: property=%s %s %s"%(prop,commit,what)})
else:
    _,_,prop,cls,what=sys.argv
    d['findings'].append({"property":prop,"status":"known","class":cls,"what":what})
json.dump(d,open(p,'w'),indent=1)
