#!/usr/bin/env python3
"""Regenerates /verif/MANIFEST.json from the table below (single source of truth)."""
import json, os, sys
V = os.path.dirname(os.path.dirname(os.path.abspath(__file__)))
ALL = ["C%02d" % i for i in range(1, 21)]

# id -> (category, technique, text, note, design_ref)
CHECKS = {
 "C18": ("model_checking",
         "explicit enumeration of all issuer graphs / alias assignments, each executed on the real Open/Plan/BulkUpdate (simfs) and on the CLI binary for a subset, compared with a 3-clause validity model",
         "Every issuer function on <=4 (quick) / <=6 (thorough) entities, every alias-mode vector, layout and suffix variant for <=3 entities is built as a directory and run through gopki; verdict, written paths and foreign files are compared with the model. Exhaustive within those bounds, which cover every rule of the consistency check (dangling, self-loop, cycles of every length, cycles below trees, alias collisions of each kind).",
         "Bounded hierarchy size; same-stem/different-suffix files and empty base names are outside the statement and excluded; trusted: Go crypto for signature verification, encoding/pem.",
         "DESIGN.md §3 C18"),
 "C09": ("model_checking",
         "exhaustive product of all small profiles and subjects on the real config.Validate against a reference predicate; file-pipeline runs for the abort clause",
         "All 9363 profiles (lists <=4 over 4 attributes x optional, x allowOther, and the absent list) x all 3905 subjects (<=5 over 5 attributes) = 3.7e7 Validate calls are compared with the statement's predicate; 189 whole runs check that a rejected certificate at any tier aborts planning with an empty write log. Exhaustive within the bound; the walk has no state beyond two cursors, so lists of length 4/5 exercise every cursor interaction.",
         "Profiles that repeat a required attribute are compared only where both readings of 'missing' agree; attribute names outside the documented table are excluded.",
         "DESIGN.md §3 C09"),
}
NOT_YET = "check not built yet in this round (planned, see DESIGN.md §3)"

def main():
    checks = []
    for pid in ALL:
        if pid not in CHECKS: continue
        cat, tech, text, note, ref = CHECKS[pid]
        checks.append({
            "property_id": pid,
            "quick_cmd": "./run.sh %s quick" % pid,
            "thorough_cmd": "./run.sh %s thorough" % pid,
            "evidence_file": "/verif/evidence/%s.json" % pid,
            "replay_cmd_template": "./run.sh %s quick --replay {path}" % pid,
            "engine": "mc",
            "level_claimed": {"category": cat, "text": text, "design_ref": ref},
            "level_note": note,
            "technique": tech,
        })
    m = {
        "version": 1,
        "setup_cmd": "./setup.sh",
        "hooks": {
            "guard": "verif",
            "enable": "no source hooks are needed: the checks drive gopki through its exported API (filesystem.Filesystem, db.Database, config/cert functions) and the built binary; go build -tags verif is therefore identical to the plain build",
            "baseline_off_cmd": "cd /repo && go test -vet=off -count=1 -timeout 25m ./...",
            "source_commits": [],
            "add_only": True,
        },
        "engines": [{"name": "mc", "path": "/verif/mc", "serves_properties": sorted(CHECKS), "kind_free_text": "hand-written bounded-exhaustive explorer in Go: deterministic sharded enumeration over 16 worker processes, simulated file system with logical clock / write log / fault plan, independent DER/X.509 decoder and configuration semantics as reference model, CLI replay binding"}],
        "checks": checks,
        "not_applicable": [{"property_id": p, "reason": NOT_YET} for p in ALL if p not in CHECKS],
        "notes": "All checks: ./run.sh <id> <tier>; exit 0 = held (KNOWN-FINDING lines possible), 1 = VIOLATION, 2 = harness error. known_findings.json lists recorded findings and fixed defects.",
    }
    json.dump(m, open(os.path.join(V, "MANIFEST.json"), "w"), indent=1)
    print("MANIFEST.json: %d checks, %d not_applicable" % (len(checks), len(m["not_applicable"])))

main()
