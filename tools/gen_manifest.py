#!/usr/bin/env python3
"""Regenerates /verif/MANIFEST.json from the table below (single source of truth)."""
import json, os, sys
V = os.path.dirname(os.path.dirname(os.path.abspath(__file__)))
ALL = ["C%02d" % i for i in range(1, 21)]

# id -> (category, technique, text, note, design_ref)
CHECKS = {
 "C18": ("model_checking",
         "explicit enumeration of all issuer graphs / alias assignments, each executed on the real Open/Plan/BulkUpdate (simfs) and on the CLI binary for a subset, compared with a 3-clause validity model",
         "Every issuer function on <=4 (quick) / <=6 (thorough) entities, every alias-mode vector, layout and suffix variant for <=3 entities is built as a directory and run through gopki; verdict, written paths and foreign files are compared with the model. Exhaustive within those bounds, which cover every rule of the consistency check (dangling, self-loop, cycles of every length, cycles below trees, alias collisions of each kind).",
         "Bounded hierarchy size; same-stem/different-suffix files and empty base names are outside the statement and excluded; trusted: Go crypto for signature verification, encoding/pem.",
         "DESIGN.md §3 C18"),
 "C09": ("model_checking",
         "exhaustive product of all small profiles and subjects on the real config.Validate against a reference predicate; file-pipeline runs for the abort clause",
         "All 9363 profiles (lists <=4 over 4 attributes x optional, x allowOther, and the absent list) x all 3905 subjects (<=5 over 5 attributes) = 3.7e7 Validate calls are compared with the statement's predicate; 189 whole runs check that a rejected certificate at any tier aborts planning with an empty write log. Exhaustive within the bound; the walk has no state beyond two cursors, so lists of length 4/5 exercise every cursor interaction.",
         "Profiles that repeat a required attribute are compared only where both readings of 'missing' agree; attribute names outside the documented table are excluded.",
         "DESIGN.md §3 C09"),
 "C08": ("model_checking",
         "exhaustive product of small profile/certificate extension lists on the real config.Merge against a reference merge transcribed from the statement; whole-pipeline runs with real extension kinds",
         "Quick: profile lists <=2 x certificate lists <=3 (1.6e5 merges) and 13k pipeline runs; thorough: <=3 x <=4 (2.2e7 merges) and 2.6e5 pipeline runs. Every case compares the merged list element-for-element with the reference and checks that the inputs are unchanged; in the pipeline a surviving content-less entry must fail the run and leave no file. Exhaustive within the bound; the merge keeps only two index lists as state, so repeated OIDs at list length 4 reach every bookkeeping interaction.",
         "'differs' is modelled as configuration-entry difference. Random longer lists from the quantifier text are not used (sampling is outside this technique).",
         "DESIGN.md §3 C08"),
 "C17": ("exploration",
         "bounded exhaustive enumeration of boundary scalars, block orders and malformed encodings against the real PKCS#8/PEM functions, an independent DER decoder and crypto/x509",
         "10 curves x 20 boundary scalars and 10 RSA keys are written, re-read, and exchanged with the standard library and a reference decoder in both directions; every block order of an artifact file is read back; every strict prefix of a valid key and each clear-cut malformed encoding must be rejected. The scalar domain is unbounded, so only its boundaries (1, n-1, leading-zero widths) are decided.",
         "Only clear-cut invalid inputs are in the rejection alphabet; scalar 0, outer PKCS#8 version and trailing bytes are not (standard library behaves alike).",
         "DESIGN.md §3 C17"),
 "C05": ("exploration",
         "exhaustive enumeration of the key-algorithm x signature-algorithm x issuer-key-type grid through whole gopki runs, outputs decoded by an independent PKCS#8/X.509 decoder",
         "All 15 x 9 combinations for roots and under each of the 14 issuer key types (2025 runs): the generated private key, the SubjectPublicKeyInfo and the signature algorithm identifiers are decoded independently and compared with the configuration. The grid is the whole quantifier; only RSA-4096/8192 generation is thinned (fixture keys imported instead) to keep quick within budget.",
         "RSA-8192 generation by gopki itself only in the thorough tier; misfitting combinations are left to C01.",
         "DESIGN.md §3 C05"),
 "C01": ("exploration",
         "exhaustive enumeration of small forests, algorithm triples and issuer origins through whole gopki runs; independent signature verification (incl. brainpool) and byte comparison of names and key ids",
         "Every rooted forest on <=3/4 entities in 3 layouts with and without key-id profile, the 14 x 14 x 9 algorithm grid (6 subject representatives in quick), self-signed roots, three-tier chains and 7 issuer origins; every written certificate is verified under its issuer's current certificate file with the algorithm it names, issuer DN bytes and hash key ids are compared, and misfitting algorithms must fail without a certificate.",
         "Signature primitives of Go's crypto and the brainpool curve parameters are trusted. Known finding: issuer DN re-encoding under foreign issuers (see known_findings.json).",
         "DESIGN.md §3 C01"),
 "C02": ("exploration",
         "deviation-bounded exhaustive enumeration of configurations through whole runs; every emitted certificate goes through a from-scratch strict DER linter, decode/re-encode, PEM re-encode, reference-model comparison and crypto/x509 as second acceptor",
         "Baseline +- up to 2 deviations (3 over the small dimensions in thorough) across subject lengths at every header-length transition, the UTCTime/GeneralizedTime switch, serial boundaries and 200 random draws, unique ids, all 56 fitting key/signature pairs, issuer types and 25 extension sets. The linter rejects every non-canonical length, INTEGER, BOOLEAN, BIT STRING, OID, time, SET OF order, encoded DEFAULT and non-minimal named-bit list.",
         "The random serial is observed over 200+ draws per run (bound also follows from the source constant); structured-content extension values are linted recursively, raw ones are opaque.",
         "DESIGN.md §3 C02"),
 "C03": ("exploration",
         "exhaustive enumeration of subject strings at parser level and through whole runs with/without a subject-constraining profile, decoded independently",
         "All 4.6e5 subject strings of length 1..3 over 11 keys x 7 values go through ParseRDNSequence against the documented grammar; all strings of length 1..2 and windows up to 8 attributes are generated as certificates without profile, with a constraining profile and with allowOther; serial and unique-id settings are a full 8x6x6 product.",
         "Value alphabet is 7 representative texts (the value domain is unbounded); fresh-serial distinctness assumes no 2^-150 collision.",
         "DESIGN.md §3 C03"),
 "C04": ("exploration",
         "exhaustive enumeration of calendar dates, duration grid, block combinations and local zones through whole runs, compared with own proleptic-Gregorian arithmetic",
         "Every day of 8 boundary years (quick) / of all years 1950-2200 in two zones (thorough) as from and as until in 8 zones incl. +14, -11, 30-minute DST and DST-at-midnight; 335 durations from 13 start dates; all 72 presence combinations in certificate and profile.",
         "Zone offsets come from Go's embedded tzdata; run-relative notBefore is bracketed by the measured run interval.",
         "DESIGN.md §3 C04"),
 "C06": ("exploration",
         "exhaustive enumeration of extension kinds x criticality x body forms, short lists, rotations and every raw payload length, through builders and whole runs, decoded independently",
         "Every kind x critical x 13 body forms, all 1089 two-element lists, 12 rotations of a 12-entry list, every !binary length up to 4096 (quick) / 65536 (thorough) at builder level and up to 1100 / 4096 through certificates, plus unique ids and the byte-valued manipulation fields at the boundary lengths. Extension list, order, OIDs, critical flag (and its DER absence) and raw bodies are compared byte for byte.",
         "Payload contents are one pattern per length; lists longer than 2 are covered by rotation only.",
         "DESIGN.md §3 C06"),
 "C07": ("exploration",
         "exhaustive enumeration of structured extension contents through whole runs; emitted bodies compared with reference DER encoders written from RFC 5280/6960",
         "All 128 key-usage subsets x 3, 259 SAN lists, 780 (ca, pathLen) pairs, 27 policy shapes (+pairs), AIA/EKU lists, hashed and explicit key ids. Because DER is canonical, byte equality with the reference encoding is equivalent to an independent decoder reading back exactly the configured value.",
         "Known finding: pathLen 0 (see known_findings.json). Notice without any member and ip octets >255 are outside the domain.",
         "DESIGN.md §3 C07"),
 "C16": ("exploration",
         "exhaustive product of optional admission members and placement of unit variants in 1..3 x 1..3 trees through whole runs; value compared with a reference CommonPKI AdmissionSyntax encoder",
         "6750 (quick) / 48000 (thorough) single-unit trees over every optional member and GeneralName kind, plus 21 variants at every position of every 1..3 x 1..3 shape.",
         "Empty naming authority / empty item or OID lists have no agreed encoding and are excluded.",
         "DESIGN.md §3 C16"),
 "C19": ("exploration",
         "exhaustive enumeration of manipulation-key subsets and value products on deterministic (RSA, fixed serial and dates) certificates; field-by-field reference comparison plus byte-level differential against the same configuration without the block",
         "All 64 key subsets, every key with every value, value products for pairs (quick) / all subsets of size <=3 (thorough), for roots and subordinates and 3 extension sets: the named fields hold exactly the given values, every other TBS field is byte-identical to the unmanipulated certificate, outer-only manipulations leave TBS and signature untouched, hashed key ids follow manipulated bits, and the signature verifies over the actual bytes with the real issuer key.",
         "Value alphabets are small (5 versions, 4 OIDs, 4 byte strings); 'arbitrary' values are represented by their boundary shapes.",
         "DESIGN.md §3 C19"),
 "C11": ("model_checking",
         "full product of abstract entity states x strategies on the real planner over a synthetic db.Database, against a decision table transcribed from the statement; the same states realised as files on FsDb+simfs with BulkUpdate order/chain checks; CLI flag product",
         "Pair product: every per-entity state (artifact kind x hash state x expiry x config age) for issuer and subject x 3 time relations x 32 strategies (8.8e5 plans in thorough; 16 issuer representatives in quick); every forest on <=3/4 entities with a 3..6-letter alphabet x all artifact-time orders x 32 strategies x return-order permutations; 225 x up to 384 file-level worlds with write-order and chain checks; 6 worlds x 32 flag sets on the binary.",
         "Don't-care cells: timestamp comparisons for entities without any artifact file. Expiry uses dates decades from now, not a moving clock.",
         "DESIGN.md §3 C11"),
}
NOT_YET = "check not built yet in this round (planned, see DESIGN.md §3)"

def main():
    checks = []
    for pid in ALL:
        if pid not in CHECKS: continue
        cat, tech, text, note, ref = CHECKS[pid]
        checks.append({
            "property_id": pid,
            "quick_cmd": "./run.sh %s quick" % pid,
            "thorough_cmd": "./run.sh %s thorough" % pid,
            "evidence_file": "/verif/evidence/%s.json" % pid,
            "replay_cmd_template": "./run.sh %s quick --replay {path}" % pid,
            "engine": "mc",
            "level_claimed": {"category": cat, "text": text, "design_ref": ref},
            "level_note": note,
            "technique": tech,
        })
    m = {
        "version": 1,
        "setup_cmd": "./setup.sh",
        "hooks": {
            "guard": "verif",
            "enable": "no source hooks are needed: the checks drive gopki through its exported API (filesystem.Filesystem, db.Database, config/cert functions) and the built binary; go build -tags verif is therefore identical to the plain build",
            "baseline_off_cmd": "cd /repo && go test -vet=off -count=1 -timeout 25m ./...",
            "source_commits": [],
            "add_only": True,
        },
        "engines": [{"name": "mc", "path": "/verif/mc", "serves_properties": sorted(CHECKS), "kind_free_text": "hand-written bounded-exhaustive explorer in Go: deterministic sharded enumeration over 16 worker processes, simulated file system with logical clock / write log / fault plan, independent DER/X.509 decoder and configuration semantics as reference model, CLI replay binding"}],
        "checks": checks,
        "not_applicable": [{"property_id": p, "reason": NOT_YET} for p in ALL if p not in CHECKS],
        "notes": "All checks: ./run.sh <id> <tier>; exit 0 = held (KNOWN-FINDING lines possible), 1 = VIOLATION, 2 = harness error. known_findings.json lists recorded findings and fixed defects.",
    }
    json.dump(m, open(os.path.join(V, "MANIFEST.json"), "w"), indent=1)
    print("MANIFEST.json: %d checks, %d not_applicable" % (len(checks), len(m["not_applicable"])))

main()
