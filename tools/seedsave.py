#!/usr/bin/env python3
"""seedsave.py <worktree-name> <seed-id> <property> <caught_by csv> <missed_by csv> <strengthened: text|-> <needs...>"""
import sys, os, json, shutil, glob, subprocess
name, sid, prop, caught, missed, strengthened = sys.argv[1:7]
needs = ' '.join(sys.argv[7:])
src = os.environ.get('SEEDROOT','/tmp/seed') + '/' + name
dst = '/verif/seeded/' + sid
os.makedirs(dst, exist_ok=True)
shutil.copy(src + '/patch.diff', dst + '/patch.diff')
demos = [p for p in glob.glob(src + '/**/zz_seed_demo_test.go', recursive=True)]
demo = demos[0]
rel = os.path.relpath(demo, src)
shutil.copy(demo, dst + '/zz_seed_demo_test.go')
files = subprocess.check_output(['grep', '-E', r'^\+\+\+ b/', dst + '/patch.diff']).decode().split()
meta = {
 "id": sid, "property": prop, "breaks": prop,
 "files_changed": [f[2:] for f in files if f.startswith('b/')],
 "demo_test": {"file": "zz_seed_demo_test.go", "place_at": rel, "run": "go test -vet=off -count=1 -run SeedDemo ./%s/" % os.path.dirname(rel)},
 "needs_to_manifest": needs,
 "origin": "written by an independent sub-agent that saw only the property text and a scratch worktree of /repo",
 "confirmed": {"builds": True, "existing_suite_passes_with_change": True, "demo_fails_with_change": True, "demo_passes_without_change": True,
               "how": "tools/seedcheck.sh %s (scratch worktree under /tmp/seed, removed afterwards)" % name},
 "checks_that_report_it": [c for c in caught.split(',') if c],
 "checks_of_the_same_area_that_do_not": [c for c in missed.split(',') if c],
 "strengthening": None if strengthened == '-' else strengthened,
 "ran": "git -C /repo apply seeded/%s/patch.diff; ./run.sh <check> quick; git -C /repo checkout -- ." % sid,
}
json.dump(meta, open(dst + '/meta.json', 'w'), indent=1)
print('saved', dst)
