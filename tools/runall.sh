#!/bin/bash
# runs every check at the given tier, prints one summary line each
cd /verif
TIER=${1:-quick}
for i in $(seq -w 1 20); do
  id=C$i
  s=$(date +%s)
  out=$(./run.sh $id $TIER 2>&1); rc=$?
  e=$(date +%s)
  echo "rc=$rc $(echo "$out" | tail -1) [$((e-s))s total]"
  echo "$out" | grep -E "^(VIOLATION|UNREPRODUCED|HARNESS)" | head -5
done
