#!/usr/bin/env python3
import json, glob, sys, jsonschema
ok = True
m = json.load(open('/verif/MANIFEST.json'))
jsonschema.validate(m, json.load(open('/root/.vp/MANIFEST.schema.json')))
es = json.load(open('/root/.vp/EVIDENCE.schema.json'))
for c in m['checks']:
    try:
        jsonschema.validate(json.load(open(c['evidence_file'])), es)
    except Exception as e:
        ok = False; print('EVIDENCE INVALID', c['property_id'], str(e)[:300])
print('validated', len(m['checks']), 'checks', 'ok' if ok else 'WITH ERRORS')
sys.exit(0 if ok else 1)
