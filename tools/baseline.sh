#!/bin/bash
# Runs the repository's own test suite (guard off = plain build) and compares with BASELINE.json's stable_pass list.
export GOFLAGS=-mod=mod GOPROXY=off GOSUMDB=off GOTOOLCHAIN=local
cd /repo && go test -json -vet=off -count=1 -timeout 25m ./... > /tmp/baseline.$$.json 2>/tmp/baseline.$$.err
python3 - /tmp/baseline.$$.json <<'PY'
import json,sys
want=set(json.load(open('/root/.vp/BASELINE.json'))['stable_pass'])
got=set(); fail=set()
for l in open(sys.argv[1]):
    try: e=json.loads(l)
    except: continue
    if e.get('Test') and e.get('Action') in('pass','fail'):
        k=e['Package']+'::'+e['Test']
        (got if e['Action']=='pass' else fail).add(k)
miss=want-got
print('baseline: want %d pass, got %d pass, missing %d, failing %d'%(len(want),len(got&want),len(miss),len(fail)))
for m in sorted(miss)[:20]: print('  MISSING',m)
for m in sorted(fail)[:20]: print('  FAIL',m)
sys.exit(1 if miss or fail else 0)
PY
rc=$?
rm -f /tmp/baseline.$$.json /tmp/baseline.$$.err
exit $rc
