#!/bin/bash
# usage: seedcheck.sh <seed-dir-name e.g. C08> <property checks to run e.g. "C08 C12">
# 1) confirms the seeded change in its scratch worktree (/tmp/seed/<name>): builds, existing suite passes, demo fails with / passes without
# 2) applies it to /repo, runs the named checks (quick), reverts /repo
export GOFLAGS=-mod=mod GOPROXY=off GOSUMDB=off GOTOOLCHAIN=local
NAME=$1; CHECKS=${2:-$1}; TIER=${3:-quick}
SEEDROOT=${SEEDROOT:-/tmp/seed}
D=$SEEDROOT/$NAME
[ -f $D/patch.diff ] || { echo "no patch.diff in $D"; exit 2; }
cd $D
DEMO=$(git status --porcelain | grep zz_seed_demo_test.go | awk '{print $2}' | head -1)
[ -n "$DEMO" ] || DEMO=$(find . -name zz_seed_demo_test.go | head -1)
PKG=./$(dirname $DEMO)/
echo "== $NAME demo=$DEMO pkg=$PKG"
# make sure the worktree is: original + patch
git checkout -q -- . 2>/dev/null
git apply patch.diff || { echo "PATCH DOES NOT APPLY"; exit 2; }
go build ./... || { echo "BUILD FAILS"; exit 2; }
mv $DEMO $SEEDROOT/$NAME.demo.aside
if go test -vet=off -count=1 ./... > $SEEDROOT/$NAME.suite.log 2>&1; then echo "suite-with-change: PASS"; else echo "suite-with-change: FAIL"; grep -E "^(FAIL|---)" $SEEDROOT/$NAME.suite.log | head; fi
mv $SEEDROOT/$NAME.demo.aside $DEMO
if go test -vet=off -count=1 -run SeedDemo $PKG > $SEEDROOT/$NAME.demo1.log 2>&1; then echo "demo-with-change: PASS (unexpected)"; else echo "demo-with-change: FAIL (expected)"; fi
git apply -R patch.diff
if go test -vet=off -count=1 -run SeedDemo $PKG > $SEEDROOT/$NAME.demo0.log 2>&1; then echo "demo-without-change: PASS (expected)"; else echo "demo-without-change: FAIL (unexpected)"; tail -5 $SEEDROOT/$NAME.demo0.log; fi
git apply patch.diff
# against the scratch worktree itself (SEED_INPLACE=1: /repo is not touched, several seeds can be checked at once)
if [ -n "${SEED_INPLACE:-}" ]; then
  for c in $CHECKS; do
    out=$(cd /verif && VERIF_REPO=$D ./run.sh $c $TIER 2>&1); rc=$?
    echo "check $c rc=$rc: $(echo "$out" | tail -1 | cut -c1-200)"
    echo "$out" | grep -E "^  class:" | head -6
  done
  exit 0
fi
# against /repo
cd /repo && git diff --quiet || { echo "/repo is dirty, refusing"; exit 2; }
git -C /repo apply $D/patch.diff || { echo "patch does not apply to /repo"; exit 2; }
for c in $CHECKS; do
  out=$(cd /verif && ./run.sh $c $TIER 2>&1); rc=$?
  echo "check $c rc=$rc: $(echo "$out" | tail -1 | cut -c1-200)"
  echo "$out" | grep -E "^  class:" | head -6
done
git -C /repo checkout -- .
git -C /repo status --short | head -3
