package main

import (
	"fmt"
	_ "time/tzdata"

	"github.com/keybase/go-crypto/brainpool"
	"github.com/wokdav/gopki/generator/db"
	"github.com/wokdav/gopki/generator/db/filesystem"
)

func main() {
	fsdb := filesystem.NewFilesystemDatabase(filesystem.NewMapFs(nil))
	fmt.Println(fsdb.Open(), db.UpdateAll, brainpool.P256r1().Params().Name)
}
