// Command mkfixtures (re)generates /verif/fixtures/keys: test keys of all 14
// key algorithms, encoded with the standard library (RSA, NIST) or refder
// (brainpool). Run once; the files are committed.
package main

import (
	"crypto/ecdsa"
	"crypto/rand"
	"crypto/rsa"
	"crypto/x509"
	"encoding/pem"
	"fmt"
	"os"
	"path/filepath"

	"verif/mc/refx509"
)

func write(name string, der []byte) {
	p := filepath.Join(os.Args[1], name+".pem")
	if _, err := os.Stat(p); err == nil {
		fmt.Println("keep", p)
		return
	}
	os.WriteFile(p, pem.EncodeToMemory(&pem.Block{Type: "PRIVATE KEY", Bytes: der}), 0o644)
	fmt.Println("wrote", p)
}

func main() {
	for _, bits := range []int{1024, 1536, 2048, 3072, 4096, 8192} {
		for n := 0; n < 2; n++ {
			if false {
				continue
			}
			name := fmt.Sprintf("RSA-%d-%d", bits, n)
			if _, err := os.Stat(filepath.Join(os.Args[1], name+".pem")); err == nil {
				continue
			}
			k, err := rsa.GenerateKey(rand.Reader, bits)
			if err != nil {
				panic(err)
			}
			der, _ := x509.MarshalPKCS8PrivateKey(k)
			write(name, der)
		}
	}
	for _, ci := range refx509.Curves {
		for n := 0; n < 2; n++ {
			k, err := ecdsa.GenerateKey(ci.Curve, rand.Reader)
			if err != nil {
				panic(err)
			}
			write(fmt.Sprintf("%s-%d", ci.Name, n), refx509.BuildECPKCS8(&ci, k.D, refx509.ECEncoding{OuterOID: true, Public: true}))
		}
	}
}
