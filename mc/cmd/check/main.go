// Command check runs one property check: check -p C07 -tier quick|thorough
package main

import (
	"flag"
	"fmt"
	"os"
	"strconv"
	_ "time/tzdata"

	"verif/mc/checks"
	"verif/mc/engine"
)

func main() {
	p := flag.String("p", "", "property id")
	tier := flag.String("tier", "quick", "quick|thorough")
	worker := flag.String("worker", "", "i/n (internal)")
	replay := flag.String("replay", "", "replay file")
	seedF := flag.Int64("seed", -1, "seed (only rotates samples)")
	flag.Parse()
	seed := *seedF
	if seed < 0 {
		seed = 0
		if s := os.Getenv("VERIF_SEED"); s != "" {
			if v, err := strconv.ParseInt(s, 10, 64); err == nil {
				seed = v
			}
		}
	}
	if t := os.Getenv("VERIF_TIER"); t != "" && !isFlagSet("tier") {
		*tier = t
	}
	ck := checks.Get(*p)
	if ck == nil {
		fmt.Fprintf(os.Stderr, "unknown property %q\n", *p)
		os.Exit(2)
	}
	os.Exit(engine.Main(ck, *tier, seed, *worker, *replay))
}

func isFlagSet(name string) bool {
	set := false
	flag.Visit(func(f *flag.Flag) {
		if f.Name == name {
			set = true
		}
	})
	return set
}
