// Package engine: deterministic sharded enumeration over worker processes,
// evidence / replay / known-finding plumbing. Nothing here samples: a check
// enumerates its whole bounded case list; worker i of n executes the cases
// whose enumeration index is congruent to i.
package engine

import (
	"bufio"
	"bytes"
	"crypto/sha256"
	"encoding/hex"
	"encoding/json"
	"fmt"
	"hash/fnv"
	"io"
	"os"
	"os/exec"
	"path/filepath"
	"runtime"
	"runtime/debug"
	"sort"
	"strconv"
	"strings"
	"sync"
	"syscall"
	"time"
)

// Check describes one property check.
type Check struct {
	ID          string
	Level       string // evidence level: exploration | model_checking | fault_enumeration
	Rule        string // how cases are enumerated and what counts as non-trivial
	Bound       map[string]string
	Assumptions []string
	// Budget is the internal deadline per tier; when hit the run ends with
	// exhaustive:false and exit 0.
	Budget map[string]time.Duration
	// CaseTimeout: a single case running longer than this is reported as a hang.
	CaseTimeout time.Duration
	// TraceCases makes the worker announce each case before executing it, so
	// that a fatal (unrecoverable) crash can be attributed to its case.
	TraceCases bool
	// Enumerate yields every case of the tier in a deterministic order.
	Enumerate func(tier string, yield func(c any))
	// NewCase returns a pointer to a zero case for JSON decoding (replay).
	NewCase func() any
	// Exec executes one case and reports through x.
	Exec func(x *Ctx, c any)
	// Setup runs once per worker before any case.
	Setup func(x *Ctx)
	// Finish runs once in the parent after all workers are done (optional
	// extra evidence keys).
	Finish func(ev map[string]any)
}

// Ctx is the per-worker reporting context.
type Ctx struct {
	Tier     string
	Seed     int64
	Worker   int
	NWorkers int
	Replay   bool
	VerifDir string

	deadline time.Time
	expired  bool

	cur      any
	curIdx   int64
	out      *bufio.Writer
	mu       sync.Mutex
	evals    int64
	ntCount  int64
	ntSet    map[uint64]struct{}
	states   map[uint64]struct{}
	trans    int64
	traces   int64
	outcomes map[string]int64
	viols    int
	violSeen map[string]int
	samples  []any
	info     map[string]int64
	caps     map[string]bool
}

type msg struct {
	T        string           `json:"t"`
	Class    string           `json:"class,omitempty"`
	Detail   string           `json:"detail,omitempty"`
	Case     json.RawMessage  `json:"case,omitempty"`
	Idx      int64            `json:"idx,omitempty"`
	Evals    int64            `json:"evals,omitempty"`
	NtCount  int64            `json:"ntc,omitempty"`
	NtSet    []uint64         `json:"nts,omitempty"`
	States   []uint64         `json:"states,omitempty"`
	Trans    int64            `json:"trans,omitempty"`
	Traces   int64            `json:"traces,omitempty"`
	Outcomes map[string]int64 `json:"outcomes,omitempty"`
	Samples  []any            `json:"samples,omitempty"`
	Info     map[string]int64 `json:"info,omitempty"`
	Caps     []string         `json:"caps,omitempty"`
	Expired  bool             `json:"expired,omitempty"`
	Count    int              `json:"count,omitempty"`
}

func h64(s string) uint64 {
	h := fnv.New64a()
	h.Write([]byte(s))
	return h.Sum64()
}

// Expired reports whether the tier budget is used up.
func (x *Ctx) Expired() bool {
	if x.expired {
		return true
	}
	if !x.deadline.IsZero() && time.Now().After(x.deadline) {
		x.expired = true
	}
	return x.expired
}

// Cap records that a named cap was hit (reported in evidence, exhaustive=false).
func (x *Ctx) Cap(name string) { x.caps[name] = true }

// Eval counts one evaluation (the engine counts one per case automatically;
// checks that execute several sub-evaluations per case add more).
func (x *Ctx) Eval(n int64) { x.evals += n }

// Nontrivial records a distinct non-trivial case by canonical key.
func (x *Ctx) Nontrivial(key string) { x.ntSet[h64(key)] = struct{}{} }

// NontrivialN counts n cases that are distinct by construction of the enumeration.
func (x *Ctx) NontrivialN(n int64) { x.ntCount += n }

// State records a visited canonical state; returns true if new for this worker.
func (x *Ctx) State(key string) bool {
	h := h64(key)
	if _, ok := x.states[h]; ok {
		return false
	}
	x.states[h] = struct{}{}
	return true
}

func (x *Ctx) Transition(n int64)     { x.trans += n }
func (x *Ctx) TraceValidated(n int64) { x.traces += n }
func (x *Ctx) Outcome(s string)       { x.outcomes[s]++ }
func (x *Ctx) Info(k string, n int64) { x.info[k] += n }

// Sample records a written-out case for the evidence file (bounded).
func (x *Ctx) Sample(c any) {
	if len(x.samples) < 3 {
		x.samples = append(x.samples, shrink(c))
	}
}

func shrink(c any) any {
	b, err := json.Marshal(c)
	if err != nil {
		return fmt.Sprint(c)
	}
	if len(b) > 3000 {
		return string(b[:3000]) + "...(truncated)"
	}
	var v any
	json.Unmarshal(b, &v)
	return v
}

// Violation reports a violation of the property on the current case.
func (x *Ctx) Violation(class, detail string) { x.ViolationCase(class, detail, x.cur) }

// ViolationCase reports a violation with an explicit self-contained replay case.
func (x *Ctx) ViolationCase(class, detail string, c any) {
	x.viols++
	x.violSeen[class]++
	if x.violSeen[class] > 1 {
		return // one witness per class and worker is enough
	}
	b, _ := json.Marshal(c)
	x.emit(msg{T: "viol", Class: class, Detail: detail, Case: b, Idx: x.curIdx})
}

func (x *Ctx) emit(m msg) {
	x.mu.Lock()
	defer x.mu.Unlock()
	b, _ := json.Marshal(m)
	x.out.Write(b)
	x.out.WriteByte('\n')
	x.out.Flush()
}

func newCtx(tier string, seed int64, w, n int, out io.Writer) *Ctx {
	return &Ctx{Tier: tier, Seed: seed, Worker: w, NWorkers: n,
		out:   bufio.NewWriterSize(out, 1<<16),
		ntSet: map[uint64]struct{}{}, states: map[uint64]struct{}{},
		outcomes: map[string]int64{}, violSeen: map[string]int{},
		info: map[string]int64{}, caps: map[string]bool{},
		VerifDir: VerifDir()}
}

// VerifDir locates /verif (overridable for snapshots).
func VerifDir() string {
	if d := os.Getenv("VERIF_DIR"); d != "" {
		return d
	}
	return "/verif"
}

func setKeys(m map[uint64]struct{}) []uint64 {
	out := make([]uint64, 0, len(m))
	for k := range m {
		out = append(out, k)
	}
	return out
}

func limitMemory() {
	lim := uint64(6 << 30)
	if s := os.Getenv("VERIF_WORKER_AS"); s != "" {
		if v, err := strconv.ParseUint(s, 10, 64); err == nil {
			lim = v
		}
	}
	syscall.Setrlimit(syscall.RLIMIT_AS, &syscall.Rlimit{Cur: lim, Max: lim})
	debug.SetMemoryLimit(int64(lim) * 3 / 4)
}

// runWorker executes the worker's share of the enumeration.
func runWorker(ck *Check, tier string, seed int64, w, n int) {
	limitMemory()
	x := newCtx(tier, seed, w, n, os.Stdout)
	if b, ok := ck.Budget[tier]; ok {
		x.deadline = time.Now().Add(b)
	}
	if s := os.Getenv("VERIF_BUDGET_S"); s != "" {
		if v, err := strconv.Atoi(s); err == nil {
			x.deadline = time.Now().Add(time.Duration(v) * time.Second)
		}
	}
	if ck.Setup != nil {
		ck.Setup(x)
	}
	caseTimeout := ck.CaseTimeout
	if caseTimeout == 0 {
		caseTimeout = 15 * time.Minute
		if tier == "quick" {
			caseTimeout = 4 * time.Minute
		}
	}
	var started time.Time
	var startedMu sync.Mutex
	running := false
	go func() { // watchdog
		for {
			time.Sleep(2 * time.Second)
			startedMu.Lock()
			late := running && time.Since(started) > caseTimeout
			startedMu.Unlock()
			if late {
				b, _ := json.Marshal(x.cur)
				x.emit(msg{T: "viol", Class: ck.ID + "/hang", Detail: "case exceeded " + caseTimeout.String(), Case: b, Idx: x.curIdx})
				os.Exit(3)
			}
		}
	}()
	var idx int64 = -1
	sampleAt := int64(0)
	if seed != 0 {
		sampleAt = seed % 97
	}
	ck.Enumerate(tier, func(c any) {
		idx++
		if int(idx%int64(n)) != w {
			return
		}
		if x.Expired() {
			return
		}
		x.cur, x.curIdx = c, idx
		if ck.TraceCases {
			b, _ := json.Marshal(c)
			x.emit(msg{T: "cur", Case: b, Idx: idx})
		}
		if idx/int64(n) == sampleAt/int64(n) || (len(x.samples) == 0) {
			x.Sample(c)
		}
		startedMu.Lock()
		started, running = time.Now(), true
		startedMu.Unlock()
		x.evals++
		safeExec(ck, x, c)
		startedMu.Lock()
		running = false
		startedMu.Unlock()
	})
	caps := []string{}
	for k := range x.caps {
		caps = append(caps, k)
	}
	x.emit(msg{T: "done", Evals: x.evals, NtCount: x.ntCount, NtSet: setKeys(x.ntSet), States: setKeys(x.states),
		Trans: x.trans, Traces: x.traces, Outcomes: x.outcomes, Samples: x.samples, Info: x.info,
		Caps: caps, Expired: x.expired, Count: x.viols})
}

// safeExec runs one case. A panic inside the check's own code while it digests what gopki produced
// (a key without coordinates, a nil where the API promises a value, ...) must not take the worker
// down and lose the case: it is reported as a violation of the property with the panic site as class.
// On the unchanged tree no check panics, so this cannot raise an alarm there.
func safeExec(ck *Check, x *Ctx, c any) {
	defer func() {
		if r := recover(); r != nil {
			st := string(debug.Stack())
			site := "unknown"
			lines := strings.Split(st, "\n")
			for i, l := range lines {
				if strings.HasPrefix(l, "verif/mc/checks.") && i+1 < len(lines) {
					site = strings.TrimPrefix(l, "verif/mc/checks.")
					if j := strings.LastIndex(site, "("); j > 0 {
						site = site[:j]
					}
					break
				}
			}
			if len(st) > 2500 {
				st = st[:2500]
			}
			x.Violation(ck.ID+"/check-crashed-on-gopki-output/"+site, fmt.Sprintf("the check itself panicked while evaluating what gopki returned: %v\n%s", r, st))
		}
	}()
	ck.Exec(x, c)
}

// runReplay re-executes one stored case and prints the classes it violates.
func runReplay(ck *Check, tier string, file string) int {
	limitMemory()
	raw, err := os.ReadFile(file)
	if err != nil {
		fmt.Fprintln(os.Stderr, "replay:", err)
		return 2
	}
	var rf ReplayFile
	if err := json.Unmarshal(raw, &rf); err != nil {
		fmt.Fprintln(os.Stderr, "replay:", err)
		return 2
	}
	c := ck.NewCase()
	if err := json.Unmarshal(rf.Case, c); err != nil {
		fmt.Fprintln(os.Stderr, "replay: case:", err)
		return 2
	}
	if rf.Tier != "" {
		tier = rf.Tier
	}
	var buf bytes.Buffer
	x := newCtx(tier, 0, 0, 1, &buf)
	if h := rf.History; h != nil && h.Workers > 0 {
		x = newCtx(tier, 0, int(h.UpTo%int64(h.Workers)), h.Workers, &buf)
		if ck.Setup != nil {
			ck.Setup(x)
		}
		var idx int64 = -1
		ck.Enumerate(tier, func(c any) {
			idx++
			if idx > h.UpTo || int(idx%int64(h.Workers)) != x.Worker {
				return
			}
			x.cur, x.curIdx = c, idx
			safeExec(ck, x, c)
		})
	} else {
		x.Replay = true
		if ck.Setup != nil {
			ck.Setup(x)
		}
		x.cur = c
		safeExec(ck, x, c)
	}
	x.out.Flush()
	classes := []string{}
	sc := bufio.NewScanner(&buf)
	sc.Buffer(make([]byte, 1<<20), 1<<28)
	for sc.Scan() {
		var m msg
		if json.Unmarshal(sc.Bytes(), &m) == nil && m.T == "viol" {
			classes = append(classes, m.Class)
			fmt.Printf("REPLAY class=%s\n  %s\n", m.Class, m.Detail)
		}
	}
	sort.Strings(classes)
	fmt.Printf("REPLAY-CLASSES %s\n", strings.Join(classes, "|"))
	for _, c := range classes {
		if c == rf.Class {
			return 1
		}
	}
	return 0
}

// ReplayFile is what is stored under replays/<id>/.
type ReplayFile struct {
	Property string          `json:"property"`
	Tier     string          `json:"tier"`
	Class    string          `json:"class"`
	Detail   string          `json:"detail"`
	Case     json.RawMessage `json:"case"`
	Repo     string          `json:"repo_head,omitempty"`
	// History, when set, replays not the single case but everything the reporting worker executed
	// up to and including it (worker = UpTo mod Workers), in the same process: for violations that
	// depend on process-global state left by earlier cases (a package-level cache, a shared slice).
	History *ReplayHistory `json:"history,omitempty"`
}

type ReplayHistory struct {
	Workers int   `json:"workers"`
	UpTo    int64 `json:"up_to"`
}

// Finding is one entry of known_findings.json.
type Finding struct {
	Property string `json:"property"`
	Class    string `json:"class"`
	Status   string `json:"status"` // known | fixed
	Commit   string `json:"commit,omitempty"`
	What     string `json:"what"`
	Line     string `json:"line,omitempty"`
}

func loadFindings() []Finding {
	var f struct {
		Findings []Finding `json:"findings"`
	}
	b, err := os.ReadFile(filepath.Join(VerifDir(), "known_findings.json"))
	if err != nil {
		return nil
	}
	if err := json.Unmarshal(b, &f); err != nil {
		fmt.Fprintln(os.Stderr, "known_findings.json:", err)
		os.Exit(2)
	}
	return f.Findings
}

func classMatch(pattern, class string) bool {
	if !strings.Contains(pattern, "*") {
		return pattern == class
	}
	ok, _ := filepath.Match(strings.ReplaceAll(pattern, "/", "\x01"), strings.ReplaceAll(class, "/", "\x01"))
	return ok
}

type workerResult struct {
	done   *msg
	viols  []msg
	last   *msg
	stderr string
	err    error
}

// Main is the entry point shared by all checks.
func Main(ck *Check, tier string, seed int64, worker string, replay string) int {
	if replay != "" {
		return runReplay(ck, tier, replay)
	}
	if worker != "" {
		var w, n int
		fmt.Sscanf(worker, "%d/%d", &w, &n)
		runWorker(ck, tier, seed, w, n)
		return 0
	}
	start := time.Now()
	n := runtime.NumCPU()
	if n > 16 {
		n = 16
	}
	if s := os.Getenv("VERIF_WORKERS"); s != "" {
		if v, err := strconv.Atoi(s); err == nil && v > 0 {
			n = v
		}
	}
	results := make([]workerResult, n)
	var wg sync.WaitGroup
	for i := 0; i < n; i++ {
		wg.Add(1)
		go func(i int) {
			defer wg.Done()
			cmd := exec.Command(os.Args[0], "-p", ck.ID, "-tier", tier, "-seed", fmt.Sprint(seed), "-worker", fmt.Sprintf("%d/%d", i, n))
			cmd.Env = append(os.Environ(), "GOMAXPROCS=2")
			var errb bytes.Buffer
			cmd.Stderr = &errb
			po, _ := cmd.StdoutPipe()
			if err := cmd.Start(); err != nil {
				results[i].err = err
				return
			}
			rd := bufio.NewReaderSize(po, 1<<20)
			for {
				line, err := rd.ReadBytes('\n')
				if len(line) > 0 {
					var m msg
					if json.Unmarshal(line, &m) == nil {
						switch m.T {
						case "viol":
							results[i].viols = append(results[i].viols, m)
						case "cur":
							mm := m
							results[i].last = &mm
						case "done":
							mm := m
							results[i].done = &mm
						}
					}
				}
				if err != nil {
					break
				}
			}
			results[i].err = cmd.Wait()
			s := errb.String()
			if len(s) > 6000 {
				s = s[:3000] + "\n...\n" + s[len(s)-3000:]
			}
			results[i].stderr = s
		}(i)
	}
	wg.Wait()

	// aggregate
	var evals, ntc, trans, traces int64
	nts := map[uint64]struct{}{}
	states := map[uint64]struct{}{}
	outcomes := map[string]int64{}
	info := map[string]int64{}
	caps := map[string]bool{}
	var samples []any
	expired := false
	harnessErr := false
	var viols []msg
	for i, r := range results {
		viols = append(viols, r.viols...)
		if r.done == nil {
			// worker died
			hang := false
			for _, v := range r.viols {
				if strings.HasSuffix(v.Class, "/hang") {
					hang = true
				}
			}
			if hang {
				continue
			}
			if ck.TraceCases && r.last != nil {
				first := crashLine(r.stderr)
				viols = append(viols, msg{T: "viol", Class: ck.ID + "/fatal/" + first, Detail: r.stderr, Case: r.last.Case, Idx: r.last.Idx})
				continue
			}
			harnessErr = true
			fmt.Printf("HARNESS-ERROR worker %d/%d died: %v\n%s\n", i, n, r.err, r.stderr)
			continue
		}
		d := r.done
		evals += d.Evals
		ntc += d.NtCount
		trans += d.Trans
		traces += d.Traces
		for _, h := range d.NtSet {
			nts[h] = struct{}{}
		}
		for _, h := range d.States {
			states[h] = struct{}{}
		}
		for k, v := range d.Outcomes {
			outcomes[k] += v
		}
		for k, v := range d.Info {
			info[k] += v
		}
		for _, c := range d.Caps {
			caps[c] = true
		}
		if len(samples) < 5 {
			samples = append(samples, d.Samples...)
		}
		if d.Expired {
			expired = true
		}
	}
	if len(samples) > 5 {
		samples = samples[:5]
	}

	// classify violations
	findings := loadFindings()
	byClass := map[string]msg{}
	classCount := map[string]int{}
	for _, v := range viols {
		classCount[v.Class]++
		if old, ok := byClass[v.Class]; !ok || v.Idx < old.Idx {
			byClass[v.Class] = v
		}
	}
	classes := make([]string, 0, len(byClass))
	for c := range byClass {
		classes = append(classes, c)
	}
	sort.Strings(classes)
	knownHit := []string{}
	newViol := 0
	reported := 0
	os.MkdirAll(filepath.Join(VerifDir(), "replays", ck.ID), 0o755)
	for _, c := range classes {
		v := byClass[c]
		var kf *Finding
		for i := range findings {
			f := &findings[i]
			if f.Property == ck.ID && f.Status == "known" && classMatch(f.Class, c) {
				kf = f
				break
			}
		}
		if kf != nil {
			fmt.Printf("KNOWN-FINDING: property=%s %s [class %s]\n", ck.ID, kf.What, c)
			knownHit = append(knownHit, c)
			continue
		}
		newViol++
		if newViol > 12 {
			continue
		}
		sum := sha256.Sum256([]byte(c))
		path := filepath.Join(VerifDir(), "replays", ck.ID, hex.EncodeToString(sum[:6])+".json")
		rf := ReplayFile{Property: ck.ID, Tier: tier, Class: c, Detail: v.Detail, Case: v.Case, Repo: repoHead()}
		b, _ := json.MarshalIndent(rf, "", " ")
		os.WriteFile(path, b, 0o644)
		repro := 0
		if strings.Contains(c, "/fatal/") || strings.HasSuffix(c, "/hang") {
			repro = -1 // not re-executed in-process: would kill the replayer as well
		} else {
			for k := 0; k < 5; k++ {
				cmd := exec.Command(os.Args[0], "-p", ck.ID, "-tier", tier, "-replay", path)
				out, _ := cmd.CombinedOutput()
				if cmd.ProcessState != nil && cmd.ProcessState.ExitCode() == 1 {
					repro++
				} else if k == 0 && os.Getenv("VERIF_DEBUG") != "" {
					fmt.Printf("replay output: %s\n", out)
				}
			}
		}
		fmt.Printf("  class: %s\n  detail: %s\n  reproduced: %d/5 (witnesses in this run: %d)\n", c, firstLines(v.Detail, 12), repro, classCount[c])
		if repro == 0 {
			// not a function of the case alone: replay the reporting worker's history in one process, twice
			hpath := strings.TrimSuffix(path, ".json") + "-history.json"
			rf.History = &ReplayHistory{Workers: n, UpTo: v.Idx}
			hb, _ := json.MarshalIndent(rf, "", " ")
			os.WriteFile(hpath, hb, 0o644)
			hrepro := 0
			for k := 0; k < 2; k++ {
				cmd := exec.Command(os.Args[0], "-p", ck.ID, "-tier", tier, "-replay", hpath)
				cmd.Run()
				if cmd.ProcessState != nil && cmd.ProcessState.ExitCode() == 1 {
					hrepro++
				}
			}
			if hrepro == 2 {
				fmt.Printf("  the case alone does not show it; the reporting worker's case history up to it does, 2/2 (state kept between cases inside gopki)\n")
				fmt.Printf("VIOLATION property=%s replay=%s\n", ck.ID, hpath)
				reported++
				continue
			}
			os.Remove(hpath)
		}
		if repro == 0 {
			fmt.Printf("UNREPRODUCED property=%s class=%s replay=%s\n", ck.ID, c, path)
			harnessErr = true
			continue
		}
		fmt.Printf("VIOLATION property=%s replay=%s\n", ck.ID, path)
		reported++
	}

	distinctNT := int64(len(nts)) + ntc
	exhaustive := !expired && len(caps) == 0 && !harnessErr
	capList := []string{}
	for c := range caps {
		capList = append(capList, c)
	}
	if expired {
		capList = append(capList, "tier time budget reached; enumeration cut short")
	}
	sort.Strings(capList)
	cov := map[string]any{
		"evaluations":         evals,
		"distinct_nontrivial": distinctNT,
		"rule":                ck.Rule,
		"samples":             samples,
		"exhaustive":          exhaustive,
		"distinct_outcomes":   len(outcomes),
		"outcomes":            topOutcomes(outcomes, 40),
		"known_findings_hit":  knownHit,
		"caps_hit":            capList,
		"workers":             n,
		"bound":               ck.Bound,
		"go_version":          runtime.Version(),
		"counts":              info,
	}
	if len(states) > 0 && trans > 0 {
		cov["states"] = len(states)
		cov["transitions"] = trans
		cov["traces_validated_against_impl"] = traces
	} else if traces > 0 {
		cov["traces_validated_against_impl"] = traces
	}
	if ck.Finish != nil {
		ck.Finish(cov)
	}
	ev := map[string]any{
		"property_id": ck.ID,
		"tier":        tier,
		"seed":        seed,
		"level":       ck.Level,
		"coverage":    cov,
		"assumptions": ck.Assumptions,
		"wall_s":      time.Since(start).Seconds(),
		"violations":  newViol,
	}
	// evidence/ holds what the checks found on /repo itself; a run against another copy of the repository
	// (seeded changes, tools/seedcheck.sh and tools/seedmatrix.sh set VERIF_REPO) writes next to it instead
	evDir := "evidence"
	if r := os.Getenv("VERIF_REPO"); r != "" && r != "/repo" {
		evDir = filepath.Join(".cache", "evidence-other-repository")
	}
	os.MkdirAll(filepath.Join(VerifDir(), evDir), 0o755)
	b, _ := json.MarshalIndent(ev, "", " ")
	os.WriteFile(filepath.Join(VerifDir(), evDir, ck.ID+".json"), b, 0o644)
	fmt.Printf("%s %s: evaluations=%d distinct_nontrivial=%d states=%d transitions=%d outcomes=%d known=%d new_violation_classes=%d exhaustive=%v wall=%.1fs\n",
		ck.ID, tier, evals, distinctNT, len(states), trans, len(outcomes), len(knownHit), newViol, exhaustive, time.Since(start).Seconds())
	if reported > 0 {
		return 1
	}
	if harnessErr {
		return 2
	}
	return 0
}

func crashLine(stderr string) string {
	for _, l := range strings.Split(stderr, "\n") {
		if strings.HasPrefix(l, "fatal error:") || strings.HasPrefix(l, "panic:") || strings.HasPrefix(l, "runtime:") {
			if len(l) > 80 {
				l = l[:80]
			}
			return l
		}
	}
	return "worker died"
}

func firstLines(s string, n int) string {
	ls := strings.Split(s, "\n")
	if len(ls) > n {
		ls = append(ls[:n], "...")
	}
	return strings.Join(ls, "\n          ")
}

func topOutcomes(m map[string]int64, n int) map[string]int64 {
	type kv struct {
		k string
		v int64
	}
	var l []kv
	for k, v := range m {
		l = append(l, kv{k, v})
	}
	sort.Slice(l, func(i, j int) bool {
		if l[i].v != l[j].v {
			return l[i].v > l[j].v
		}
		return l[i].k < l[j].k
	})
	if len(l) > n {
		l = l[:n]
	}
	out := map[string]int64{}
	for _, e := range l {
		out[e.k] = e.v
	}
	return out
}

func repoHead() string {
	out, err := exec.Command("git", "-C", "/repo", "rev-parse", "--short", "HEAD").Output()
	if err != nil {
		return ""
	}
	s := strings.TrimSpace(string(out))
	st, _ := exec.Command("git", "-C", "/repo", "status", "--porcelain").Output()
	if len(bytes.TrimSpace(st)) > 0 {
		s += "-dirty"
	}
	return s
}
