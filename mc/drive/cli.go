package drive

import (
	"bytes"
	"os"
	"os/exec"
	"path/filepath"
	"sort"
	"strings"
	"time"

	"github.com/wokdav/gopki/generator/db"

	"verif/mc/simfs"
)

// GopkiBin is the freshly built CLI binary (built by run.sh from /repo).
func GopkiBin() string {
	if b := os.Getenv("VERIF_GOPKI_BIN"); b != "" {
		return b
	}
	return "/verif/.bin/gopki"
}

type CLIResult struct {
	Exit   int
	Stdout string
	Stderr string
}

// RunCLI materialises the world in a temporary native directory, runs the
// binary's sign command with the strategy's flags and the given stdin, and
// reads the directory back into w (changed files get new ticks in mtime order).
func RunCLI(w *simfs.World, strat db.UpdateStrategy, stdin string, extraArgs ...string) (CLIResult, error) {
	return RunCLIArgs(w, append(Flags(strat), extraArgs...), stdin)
}

// RunCLIArgs is RunCLI with the sign command's flags spelled out by the caller
// (so that defaults of unmentioned flags are exercised).
func RunCLIArgs(w *simfs.World, flagArgs []string, stdin string) (CLIResult, error) {
	dir, err := os.MkdirTemp("", "vcli")
	if err != nil {
		return CLIResult{}, err
	}
	defer os.RemoveAll(dir)
	root := filepath.Join(dir, "pki")
	os.MkdirAll(root, 0o755)
	type st struct {
		mt   time.Time
		data []byte
	}
	before := map[string]st{}
	for p, f := range w.Files {
		full := filepath.Join(root, filepath.FromSlash(p))
		os.MkdirAll(filepath.Dir(full), 0o755)
		if err := os.WriteFile(full, f.Data, 0o644); err != nil {
			return CLIResult{}, err
		}
		mt := simfs.Base.Add(time.Duration(f.Tick) * simfs.TickUnit)
		os.Chtimes(full, mt, mt)
		before[p] = st{mt, f.Data}
	}
	for link, target := range w.Symlinks {
		full := filepath.Join(root, filepath.FromSlash(link))
		os.MkdirAll(filepath.Dir(full), 0o755)
		rel, err := filepath.Rel(filepath.Dir(full), filepath.Join(root, filepath.FromSlash(target)))
		if err != nil {
			return CLIResult{}, err
		}
		if err := os.Symlink(rel, full); err != nil {
			return CLIResult{}, err
		}
		// the link itself is old (made when the directory was set up); what it points to carries the file's time
		exec.Command("touch", "-h", "-d", simfs.Base.Format(time.RFC3339), full).Run()
	}
	args := append([]string{"sign"}, flagArgs...)
	dirArg, cwd := root, ""
	switch w.DirForm {
	case 1:
		dirArg, cwd = "pki", dir
	case 2:
		dirArg, cwd = "./pki/", dir
	case 3:
		dirArg, cwd = ".", root
	case 4:
		if err := os.Symlink("pki", filepath.Join(dir, "link-to-pki")); err != nil {
			return CLIResult{}, err
		}
		dirArg = filepath.Join(dir, "link-to-pki")
	}
	args = append(args, dirArg)
	cmd := exec.Command(GopkiBin(), args...)
	cmd.Dir = cwd
	cmd.Stdin = bytes.NewBufferString(stdin)
	var so, se bytes.Buffer
	cmd.Stdout, cmd.Stderr = &so, &se
	runErr := cmd.Run()
	res := CLIResult{Stdout: so.String(), Stderr: se.String()}
	if cmd.ProcessState != nil {
		res.Exit = cmd.ProcessState.ExitCode()
	} else if runErr != nil {
		return res, runErr
	}
	// read back
	type ch struct {
		p  string
		mt time.Time
		d  []byte
	}
	var changed []ch
	seen := map[string]bool{}
	filepath.Walk(root, func(path string, info os.FileInfo, err error) error {
		if err != nil || info.IsDir() {
			return nil
		}
		rel, _ := filepath.Rel(root, path)
		rel = filepath.ToSlash(rel)
		if _, isLink := w.Symlinks[rel]; isLink && info.Mode()&os.ModeSymlink != 0 {
			return nil // still the link we made
		}
		seen[rel] = true
		data, _ := os.ReadFile(path)
		b, ok := before[rel]
		if ok && bytes.Equal(b.data, data) && info.ModTime().Equal(b.mt) {
			return nil
		}
		changed = append(changed, ch{rel, info.ModTime(), data})
		return nil
	})
	for p := range before {
		if !seen[p] {
			w.Remove(p)
		}
	}
	sort.Slice(changed, func(i, j int) bool {
		if !changed[i].mt.Equal(changed[j].mt) {
			return changed[i].mt.Before(changed[j].mt)
		}
		return changed[i].p < changed[j].p
	})
	w.Clock++
	runTick := w.Clock
	for i, c := range changed {
		tick := runTick
		if w.ClockMode == simfs.TickPerWrite {
			// files that carry the same native time stamp (the kernel's clock for file times is coarse) keep
			// that tie: giving them distinct ticks in path order would invent an order the directory does not have
			if i == 0 || !c.mt.Equal(changed[i-1].mt) {
				w.Clock++
			}
			tick = w.Clock
		}
		w.PutAt(c.p, c.d, tick)
	}
	return res, nil
}

// RunCLILinkedArtifacts is RunCLI on a directory where every existing *.pem file is kept in a
// separate store directory and only linked into its place (the links are older than every file).
// gopki reads, stats and writes through the links, so the outcome must be the same as on plain
// files; the world is handed back in the plain layout.
func RunCLILinkedArtifacts(w *simfs.World, strat db.UpdateStrategy, stdin string) (CLIResult, error) {
	const store = "linkstore/"
	if w.Symlinks != nil {
		return RunCLI(w, strat, stdin)
	}
	w.Symlinks = map[string]string{}
	paths := func() []string {
		var l []string
		for p := range w.Files {
			l = append(l, p)
		}
		sort.Strings(l)
		return l
	}
	for _, p := range paths() {
		if f := w.Files[p]; strings.HasSuffix(p, ".pem") {
			w.Symlinks[p] = store + p
			w.PutAt(store+p, f.Data, f.Tick)
			w.Remove(p)
		}
	}
	res, err := RunCLI(w, strat, stdin)
	for _, p := range paths() {
		if f := w.Files[p]; strings.HasPrefix(p, store) {
			orig := strings.TrimPrefix(p, store)
			if _, replaced := w.Files[orig]; !replaced { // a regular file put in place of the link wins
				w.PutAt(orig, f.Data, f.Tick)
			}
			w.Remove(p)
		}
	}
	w.Symlinks = nil
	return res, err
}
