// Package drive runs gopki's sign flow (Open -> PlanBulkUpdate -> BulkUpdate ->
// Close) on a simfs world, exactly as cli/root.go does on a native directory,
// with panic capture.
package drive

import (
	"fmt"
	"io"
	"runtime/debug"
	"strings"

	"github.com/wokdav/gopki/generator/db"
	"github.com/wokdav/gopki/generator/db/filesystem"
	"github.com/wokdav/gopki/logging"

	"verif/mc/simfs"
)

func init() { Quiet() }

// Quiet silences gopki's logging.
func Quiet() { logging.Initialize(logging.LevelNone, io.Discard, io.Discard) }

type PlanEntry struct {
	Alias   string
	Replace bool
}

type Result struct {
	OpenErr   error
	PlanErr   error
	UpdateErr error
	Panic     string // recovered panic value + trimmed stack ("" if none)
	PanicSite string // first gopki frame
	Died      bool   // simulated process death at a write
	Plan      []PlanEntry
	Generated int
	Phase     string // last phase entered: open | plan | update | done
}

func (r Result) Err() error {
	switch {
	case r.OpenErr != nil:
		return r.OpenErr
	case r.PlanErr != nil:
		return r.PlanErr
	case r.UpdateErr != nil:
		return r.UpdateErr
	}
	return nil
}

// OK: the run completed without error, panic or death.
func (r Result) OK() bool { return r.Err() == nil && r.Panic == "" && !r.Died }

func (r Result) Planned(alias string) bool {
	for _, p := range r.Plan {
		if p.Alias == alias {
			return true
		}
	}
	return false
}

func (r Result) PlanAliases() []string {
	out := make([]string, len(r.Plan))
	for i, p := range r.Plan {
		out[i] = p.Alias
	}
	return out
}

// Summary is a short deterministic description (for outcome tallies).
func (r Result) Summary() string {
	switch {
	case r.Panic != "":
		return "panic@" + r.Phase
	case r.Died:
		return "died"
	case r.OpenErr != nil:
		return "open-error"
	case r.PlanErr != nil:
		return "plan-error"
	case r.UpdateErr != nil:
		return "update-error"
	}
	return fmt.Sprintf("ok gen=%d", r.Generated)
}

// PanicFrame extracts the first stack frame inside gopki from a stack trace.
func PanicFrame(stack string) string {
	lines := strings.Split(stack, "\n")
	for i, l := range lines {
		if strings.HasPrefix(l, "github.com/wokdav/gopki/") && i+1 < len(lines) {
			fn := l
			if j := strings.LastIndex(fn, "("); j > 0 {
				fn = fn[:j]
			}
			fn = strings.TrimPrefix(fn, "github.com/wokdav/gopki/")
			return fn
		}
	}
	return "unknown"
}

// Run performs one sign run with the given strategy.
func Run(w *simfs.World, strat db.UpdateStrategy, faults []simfs.Fault) (res Result) {
	return RunOn(filesystem.NewFilesystemDatabase(w), w, strat, faults)
}

// RunOn is Run on a database object the caller keeps (the same object may be opened again for the next run).
func RunOn(fsdb db.Database, w *simfs.World, strat db.UpdateStrategy, faults []simfs.Fault) (res Result) {
	w.BeginRun(faults)
	defer func() {
		if r := recover(); r != nil {
			if _, ok := r.(simfs.Died); ok {
				res.Died = true
				return
			}
			st := string(debug.Stack())
			res.Panic = fmt.Sprint(r)
			res.PanicSite = PanicFrame(st)
		}
	}()
	res.Phase = "open"
	if err := fsdb.Open(); err != nil {
		res.OpenErr = err
		return
	}
	defer fsdb.Close()
	if strat == db.UpdateNone {
		res.Phase = "done"
		return // cli: "all generate-flags set to false. nothing to do."
	}
	res.Phase = "plan"
	changes, err := db.PlanBulkUpdate(fsdb, strat)
	if err != nil {
		res.PlanErr = err
		return
	}
	for _, c := range changes {
		res.Plan = append(res.Plan, PlanEntry{Alias: c.Alias, Replace: c.Change == db.ChangeReplace})
	}
	res.Phase = "update"
	n, err := db.BulkUpdate(fsdb, changes)
	res.Generated = n
	if err != nil {
		res.UpdateErr = err
		return
	}
	res.Phase = "done"
	return
}

// Strategy flags as on the command line.
const (
	Missing = db.UpdateMissing
	Expired = db.UpdateExpired
	Newer   = db.UpdateNewerConfig
	Changed = db.UpdateChanged
	All     = db.UpdateAll
	Default = db.UpdateMissing | db.UpdateChanged
)

// Flags renders a strategy as CLI flags (explicit for all five).
func Flags(s db.UpdateStrategy) []string {
	b := func(f string, on bool) string { return fmt.Sprintf("--%s=%v", f, on) }
	return []string{
		b("generate-missing", s&db.UpdateMissing != 0),
		b("generate-all", s&db.UpdateAll != 0),
		b("generate-expired", s&db.UpdateExpired != 0),
		b("generate-outdated", s&db.UpdateNewerConfig != 0),
		b("generate-changed", s&db.UpdateChanged != 0),
	}
}
