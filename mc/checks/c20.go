package checks

import (
	"bytes"
	"encoding/json"
	"fmt"
	"math/big"
	"os"
	"path/filepath"
	"regexp"
	"runtime/debug"
	"sort"
	"strings"
	"time"

	"github.com/ghodss/yaml"
	"github.com/wokdav/gopki/generator/cert"
	"github.com/wokdav/gopki/generator/config"

	"verif/mc/drive"
	"verif/mc/engine"
	"verif/mc/refx509"
	"verif/mc/simfs"
)

// C20 — no file content or artifact state crashes gopki; problems surface as errors.

type c20Case struct {
	Kind  string `json:"kind"` // corpus | slot | pair | cfgbytes | pembytes | der | artstate | hashline | one
	Doc   int    `json:"doc,omitempty"`
	Slot  int    `json:"slot,omitempty"`
	Slot2 int    `json:"slot2,omitempty"`
	From  int    `json:"from,omitempty"`
	To    int    `json:"to,omitempty"`
	A     int    `json:"a,omitempty"`
	B     int    `json:"b,omitempty"`
	// one: a single explicit world (replay)
	Files  map[string][]byte `json:"files,omitempty"`
	Strats []int             `json:"strats,omitempty"`
	What   string            `json:"what,omitempty"`
}

type c20Doc struct {
	Name    string
	Profile bool
	Tree    any
	Text    []byte
}

var c20Docs []c20Doc

func c20Load() []c20Doc {
	if c20Docs != nil {
		return c20Docs
	}
	repo := "/repo"
	if r := os.Getenv("VERIF_REPO"); r != "" {
		repo = r
	}
	var out []c20Doc
	addText := func(name string, text []byte) {
		js, err := yaml.YAMLToJSON(text)
		if err != nil {
			return
		}
		var tree any
		dec := json.NewDecoder(bytes.NewReader(js))
		dec.UseNumber()
		if dec.Decode(&tree) != nil {
			return
		}
		m, ok := tree.(map[string]any)
		_, isProf := m["name"]
		_, hasSubj := m["subject"]
		out = append(out, c20Doc{Name: name, Profile: ok && isProf && !hasSubj, Tree: tree, Text: text})
	}
	for _, f := range []string{"generator/config/v1/certificate-example.yaml", "generator/config/v1/profile-example.yaml"} {
		if b, err := os.ReadFile(filepath.Join(repo, f)); err == nil {
			addText(filepath.Base(f), b)
		}
	}
	filepath.Walk(filepath.Join(repo, "examples"), func(p string, info os.FileInfo, err error) error {
		if err == nil && !info.IsDir() && strings.HasSuffix(p, ".yaml") {
			if b, err := os.ReadFile(p); err == nil {
				rel, _ := filepath.Rel(repo, p)
				addText(rel, b)
			}
		}
		return nil
	})
	type tc struct {
		Name string          `json:"name"`
		Test json.RawMessage `json:"test"`
	}
	if b, err := os.ReadFile(filepath.Join(repo, "generator/config/v1/certificate_test.json")); err == nil {
		var l []tc
		if json.Unmarshal(b, &l) == nil {
			for _, t := range l {
				addText("certificate_test/"+t.Name, t.Test)
			}
		}
	}
	if b, err := os.ReadFile(filepath.Join(repo, "generator/config/v1/extension_test.json")); err == nil {
		var l []tc
		if json.Unmarshal(b, &l) == nil {
			for _, t := range l {
				addText("extension_test/"+t.Name, []byte(`{"version":1,"subject":"CN=Ext Test","keyAlgorithm":"P-224","extensions":[`+string(t.Test)+`]}`))
			}
		}
	}
	if b, err := os.ReadFile(filepath.Join(repo, "generator/config/v1/profile_test.json")); err == nil {
		var l []tc
		if json.Unmarshal(b, &l) == nil {
			for _, t := range l {
				addText("profile_test/"+t.Name, t.Test)
			}
		}
	}
	// shapes of documented keys that none of the repository's documents uses
	addText("shape/validity-from-duration", []byte(`{"version":1,"subject":"CN=Shape, C=DE","keyAlgorithm":"P-224","validity":{"from":"2020-01-01","duration":"5y"}}`))
	addText("shape/validity-from-until", []byte(`{"version":1,"subject":"CN=Shape, C=DE","keyAlgorithm":"P-224","validity":{"from":"2020-01-01","until":"2040-01-01"}}`))
	addText("shape/validity-until-only", []byte(`{"version":1,"subject":"CN=Shape, C=DE","keyAlgorithm":"P-224","validity":{"until":"2040-01-01"}}`))
	addText("shape/validity-from-only", []byte(`{"version":1,"subject":"CN=Shape, C=DE","keyAlgorithm":"P-224","validity":{"from":"2020-01-01"}}`))
	addText("shape/profile-validity-from-only", []byte(`{"version":1,"name":"shape-profile","validity":{"from":"2020-01-01"}}`))
	addText("shape/admission-ip-authorities", []byte(`{"version":1,"subject":"CN=Shape, C=DE","keyAlgorithm":"P-224","extensions":[{"admission":{"content":{"admissionAuthority":{"type":"ip","name":"10.0.0.1"},"admissions":[{"admissionAuthority":{"type":"ip","name":"10.0.0.2"},"namingAuthority":{"oid":"1.2.3.4","url":"http://n.example","text":"n"},"professionInfos":[{"namingAuthority":{"text":"p"},"professionItems":["Arzt"],"professionOids":["1.2.276.0.76.4.31","1.2.276.0.76.4.30"],"registrationNumber":"1-2","addProfessionInfo":"!binary:AQID"}]}]}}},{"subjectAlternativeName":{"content":[{"type":"ip","name":"10.0.0.3"},{"type":"mail","name":"a@b.example"},{"type":"dns","name":"c.example"}]}}]}`))
	addText("shape/profile-validity-from-duration", []byte(`{"version":1,"name":"shape-profile","validity":{"from":"2020-01-01","duration":"5y"}}`))
	addText("shape/profile-validity-from-until", []byte(`{"version":1,"name":"shape-profile","validity":{"from":"2020-01-01","until":"2040-01-01"}}`))
	c20Docs = out
	return out
}

// ---------------------------------------------------------------- slots

type c20Path []any // string keys and int indexes

func c20Slots(tree any) []c20Path {
	var out []c20Path
	var rec func(n any, p c20Path)
	rec = func(n any, p c20Path) {
		out = append(out, append(c20Path{}, p...))
		switch t := n.(type) {
		case map[string]any:
			keys := make([]string, 0, len(t))
			for k := range t {
				keys = append(keys, k)
			}
			sort.Strings(keys)
			for _, k := range keys {
				rec(t[k], append(p, k))
			}
		case []any:
			for i, e := range t {
				rec(e, append(p, i))
			}
		}
	}
	rec(tree, nil)
	return out[1:] // without the document root
}

func c20Clone(n any) any {
	switch t := n.(type) {
	case map[string]any:
		m := map[string]any{}
		for k, v := range t {
			m[k] = c20Clone(v)
		}
		return m
	case []any:
		l := make([]any, len(t))
		for i, v := range t {
			l[i] = c20Clone(v)
		}
		return l
	}
	return n
}

func c20Set(tree any, p c20Path, v any) any {
	if len(p) == 0 {
		return v
	}
	switch t := tree.(type) {
	case map[string]any:
		k := p[0].(string)
		t[k] = c20Set(t[k], p[1:], v)
	case []any:
		i := p[0].(int)
		t[i] = c20Set(t[i], p[1:], v)
	}
	return tree
}

// c20Delete removes the slot at p (map key or list element).
func c20Delete(tree any, p c20Path) (any, bool) {
	if len(p) == 0 {
		return tree, false
	}
	if len(p) == 1 {
		switch t := tree.(type) {
		case map[string]any:
			k := p[0].(string)
			if _, ok := t[k]; !ok {
				return tree, false
			}
			delete(t, k)
			return t, true
		case []any:
			i := p[0].(int)
			if i >= len(t) {
				return tree, false
			}
			return append(append([]any{}, t[:i]...), t[i+1:]...), true
		}
		return tree, false
	}
	switch t := tree.(type) {
	case map[string]any:
		k := p[0].(string)
		sub, ok := c20Delete(t[k], p[1:])
		t[k] = sub
		return t, ok
	case []any:
		i := p[0].(int)
		sub, ok := c20Delete(t[i], p[1:])
		t[i] = sub
		return t, ok
	}
	return tree, false
}

func c20PathStr(p c20Path) string {
	var s []string
	for _, e := range p {
		switch t := e.(type) {
		case string:
			s = append(s, t)
		case int:
			s = append(s, "[]")
		}
	}
	return strings.Join(s, ".")
}

// hostile values as raw JSON tokens
var c20Hostile = []string{
	`""`, `" "`, `0`, `-1`, `2147483648`, `9223372036854775808`, `1000000000000000000000000000000`, `1e400`, `1.5`,
	`"1.2.99999999999999999999"`, `"4.1"`, `"1"`, `"9999999999999999999999999999999999999999"`, `"1.2.840.113549.1.1.11"`,
	`"2024-13-45"`, `"2023-02-30"`, `"0000-00-00"`, `"9999-12-31"`, `"99999999999999999999y"`, `"99999999y99999999m99999999d"`,
	`"!binary:"`, `"!binary:A"`, `"!binary:===="`, `"!binary:AAAA"`, `"!bogus"`, `"!null"`, `"!empty"`, `"hash"`,
	`"` + strings.Repeat("A", 100000) + `"`, `"\u0000"`, `"😂"`, `"CN=x,CN="`, `"256.1.1.300"`, `"1.2.3"`,
	`null`, `[]`, `{}`, `true`, `{"a":{"b":[1]}}`, `[[]]`, `["x"]`, `"9223372036854772807y"`, `"10.0.0.256"`, `"10.0.0.-1"`, `"18446744073709551616d"`, `"9223372036854775807m"`,
	// addresses that a general-purpose address parser accepts and a dotted quad is not
	`"::1"`, `"2001:db8::1"`, `"::ffff:10.0.0.1"`, `"10.0.0.1/24"`,
	// subject strings around the '#hex' value form and malformed pairs
	`"10.0.0.1.7"`, `"1.2.3.4.5.6.7.8.9.10.11.12.13.14.15.16.17"`, `"..."`, `"1..2.3"`,
	`"CN=#"`, `"CN=#0"`, `"CN=#13"`, `"O=#1303616263, CN=#"`, `"=x"`, `"CN=a=b"`, `"CN=#zz"`,
	// OID arcs just beyond what a signed / an unsigned 64-bit number holds
	`"1.2.9223372036854775808"`, `"1.2.18446744073709551615"`, `"1.2.18446744073709551616.3"`, `"2.9223372036854775808"`,
	// well-formed raw values of unusual size
	`"!binary:` + strings.Repeat("QUJD", 500) + `"`, `"!binary:` + strings.Repeat("QUJD", 30000) + `"`, `"!binary:` + strings.Repeat("QUJD", 341) + `QQ=="`,
}

// OID texts that pass the schema but have an arc no implementation number holds: an error, never a silent drop
var c20BadOID = map[string]bool{`"1.2.99999999999999999999"`: true, `"9999999999999999999999999999999999999999"`: true,
	`"1.2.9223372036854775808"`: true, `"1.2.18446744073709551615"`: true, `"1.2.18446744073709551616.3"`: true, `"2.9223372036854775808"`: true}

var c20OIDSlot = regexp.MustCompile(`(^|\.)(oid|professionOids\.\[\]|\.signatureAlgorithm|\.tbs\.signature|algorithm)$|manipulations\.(\.signatureAlgorithm|\.tbs\.signature|\.tbs\.subjectPublicKey\.algorithm)$|extendedKeyUsage\.content\.\[\]$`)

type rawTok string

func (r rawTok) MarshalJSON() ([]byte, error) { return []byte(r), nil }

func c20Render(tree any) []byte {
	b, err := json.Marshal(tree)
	if err != nil {
		return []byte("{}")
	}
	return b
}

// ---------------------------------------------------------------- running a world

func c20PanicClass(site, msg string) string {
	kind := "other"
	switch {
	case strings.Contains(msg, "nil pointer"):
		kind = "nil-dereference"
	case strings.Contains(msg, "slice bounds"), strings.Contains(msg, "index out of range"):
		kind = "bounds"
	case strings.Contains(msg, "this is a bug"), strings.Contains(msg, "Bug"):
		kind = "explicit-panic"
	case strings.Contains(msg, "can't marshal"):
		kind = "explicit-panic"
	}
	return "C20/panic/" + site + "/" + kind
}

// c20RunWorld runs the strategies in sequence on one world.
func c20RunWorld(x *engine.Ctx, files map[string][]byte, strats []int, what string) (last drive.Result, w *simfs.World) {
	w = simfs.New(simfs.TickPerWrite)
	var names []string
	for p := range files {
		names = append(names, p)
	}
	sort.Strings(names)
	for _, p := range names {
		w.Put(p, files[p])
	}
	for _, st := range strats {
		res := drive.Run(w, dbStrat(st), nil)
		x.Transition(1)
		if res.Panic != "" {
			small := map[string][]byte{}
			for p, b := range files {
				small[p] = b
			}
			x.ViolationCase(c20PanicClass(res.PanicSite, res.Panic), fmt.Sprintf("%s, strategy %05b: panic %s", what, st, short(res.Panic, 300)), &c20Case{Kind: "one", Files: small, Strats: strats, What: what})
			return res, w
		}
		x.Outcome(res.Summary())
		last = res
	}
	return last, w
}

// c20RunEdited: the hierarchy is first generated from the unmodified document, then the document
// is replaced by the modified text and the strategies run on the settled directory (existing
// certificates, keys and hash lines meet the new text).
func c20RunEdited(x *engine.Ctx, d c20Doc, text []byte, strats []int, what string) {
	files := c20World(d, d.Text)
	w := simfs.New(simfs.TickPerWrite)
	var names []string
	for p := range files {
		names = append(names, p)
	}
	sort.Strings(names)
	for _, p := range names {
		w.Put(p, files[p])
	}
	res := drive.Run(w, drive.Default, nil)
	x.Transition(1)
	if res.Panic != "" || !res.OK() {
		return // the unmodified document alone is the corpus case's business
	}
	settled := map[string][]byte{}
	for p, f := range w.Files {
		settled[p] = f.Data
	}
	target := "mut.yaml"
	if d.Profile {
		target = "prof.yaml"
	}
	settled[target] = text
	w.Put(target, text)
	for _, st := range strats {
		res := drive.Run(w, dbStrat(st), nil)
		x.Transition(1)
		if res.Panic != "" {
			x.ViolationCase(c20PanicClass(res.PanicSite, res.Panic), fmt.Sprintf("%s, edited into a directory generated from the unmodified document, strategy %05b: panic %s", what, st, short(res.Panic, 300)), &c20Case{Kind: "one", Files: settled, Strats: strats, What: what + " (edited into a settled directory)"})
			return
		}
		x.Outcome("edited: " + res.Summary())
	}
}

func c20Protect(x *engine.Ctx, class, what string, f func()) {
	defer func() {
		if r := recover(); r != nil {
			st := string(debug.Stack())
			x.Violation(c20PanicClass(drive.PanicFrame(st), fmt.Sprint(r))+class, fmt.Sprintf("%s: panic %v", what, r))
		}
	}()
	f()
}

// c20World places a (possibly mutated) document in a small hierarchy.
func c20World(doc c20Doc, text []byte) map[string][]byte {
	files := map[string][]byte{}
	docs := c20Load()
	if doc.Profile {
		files["prof.yaml"] = text
		name := "example-profile"
		if m, ok := doc.Tree.(map[string]any); ok {
			if s, ok := m["name"].(string); ok {
				name = s
			}
		}
		files["ent.yaml"] = []byte(fmt.Sprintf("version: 1\nsubject: \"CN=MyCert, C=DE\"\nkeyAlgorithm: P-224\nprofile: %q\nextensions:\n  - subjectAlternativeName:\n      content:\n        - type: dns\n          name: a.example\n", name))
		files["ent2.yaml"] = []byte(fmt.Sprintf("version: 1\nsubject: \"CN=Other\"\nkeyAlgorithm: P-224\nissuer: ent\nprofile: %q\n", name))
		return files
	}
	files["mut.yaml"] = text
	alias := "mut"
	if m, ok := doc.Tree.(map[string]any); ok {
		if s, ok := m["alias"].(string); ok && s != "" {
			alias = s
		}
		if s, ok := m["profile"].(string); ok && s != "" {
			for _, d := range docs {
				if d.Profile {
					if pm, ok := d.Tree.(map[string]any); ok && pm["name"] == s {
						files["theprofile.yaml"] = d.Text
					}
				}
			}
		}
		if s, ok := m["keyAlgorithm"].(string); ok && (s == "RSA-2048" || s == "RSA-4096" || s == "RSA-8192") {
			// slow key generation is C05's business: give the entity an existing key of that type
			files["mut.pem"] = FixtureKeyPEM(FixtureForAlg(s, 0))
		}
		if s, ok := m["issuer"].(string); ok && s != "" {
			files[s+".yaml"] = []byte("version: 1\nsubject: CN=The Issuer\nkeyAlgorithm: P-521\n")
		}
	}
	files["child.yaml"] = []byte(fmt.Sprintf("version: 1\nsubject: CN=Child\nkeyAlgorithm: P-224\nissuer: %q\n", alias))
	return files
}

// ---------------------------------------------------------------- enumeration

func c20Enumerate(tier string, yield func(any)) {
	for v := 0; v < len(c20BrokenEntries)*3; v++ {
		yield(&c20Case{Kind: "broken-entry", A: v % len(c20BrokenEntries), B: v / len(c20BrokenEntries)})
	}
	docs := c20Load()
	for i := range docs {
		yield(&c20Case{Kind: "corpus", Doc: i})
	}
	for i, d := range docs {
		slots := c20Slots(d.Tree)
		for s := range slots {
			yield(&c20Case{Kind: "slot", Doc: i, Slot: s})
		}
	}
	if tier == "thorough" {
		// two deviations: all pairs among OID-, date- and raw-valued slots of the two example documents
		for i, d := range docs[:2] {
			slots := c20Slots(d.Tree)
			var sel []int
			for s, p := range slots {
				ps := c20PathStr(p)
				if c20OIDSlot.MatchString(ps) || strings.Contains(ps, "validity") || strings.HasSuffix(ps, "raw") || strings.HasSuffix(ps, "UniqueId") || strings.HasSuffix(ps, "addProfessionInfo") || strings.Contains(ps, "manipulations") {
					sel = append(sel, s)
				}
			}
			for a := 0; a < len(sel); a++ {
				for b := a + 1; b < len(sel); b++ {
					yield(&c20Case{Kind: "pair", Doc: i, Slot: sel[a], Slot2: sel[b]})
				}
			}
		}
	}
	// byte level on configuration text
	for i, d := range docs {
		n := len(d.Text)
		if n > 3000 && tier != "thorough" {
			continue // quick: the large example documents byte-by-byte only in thorough
		}
		chunk := 200
		for from := 0; from < n; from += chunk {
			to := from + chunk
			if to > n {
				to = n
			}
			yield(&c20Case{Kind: "cfgbytes", Doc: i, From: from, To: to})
		}
	}
	// PEM text and DER inside the blocks
	for which := 0; which < 2; which++ { // 0 = root artifact, 1 = sub artifact
		for from := 0; from < 1400; from += 100 {
			yield(&c20Case{Kind: "pembytes", A: which, From: from, To: from + 100})
		}
		for blk := 0; blk < 2; blk++ {
			for from := 0; from < 600; from += 50 {
				yield(&c20Case{Kind: "der", A: which, B: blk, From: from, To: from + 50})
			}
		}
	}
	for a := 0; a < 10; a++ {
		for b := 0; b < 10; b++ {
			yield(&c20Case{Kind: "artstate", A: a, B: b})
		}
		yield(&c20Case{Kind: "artstate3", A: a})
	}
	for v := 0; v < len(c20HashVariants()); v++ {
		yield(&c20Case{Kind: "hashline", A: v})

	}
	// key files of other tools: EC scalars written shorter or longer (zero-padded) than the curve size
	for i := range refx509.Curves {
		yield(&c20Case{Kind: "keyshapes", A: i})
	}
	// the read of one file of a settled directory breaks off with an I/O error after N bytes
	for doc := 0; doc < 2; doc++ {
		for from := 0; from < 12000; from += 400 {
			yield(&c20Case{Kind: "readfault", Doc: doc, From: from, To: from + 400})
		}
	}
}

// ---------------------------------------------------------------- execution

// directory entries that are listed but cannot be read as a file (native directory, binary)
var c20BrokenEntries = []string{"link to a file that does not exist", "link to itself", "link to a directory", "link to a file in a directory that does not exist"}

// c20BrokenEntry: a valid two-entity directory plus one entry with a configuration suffix (B: .yaml, .json, .pem next to
// a configuration) that cannot be opened as a file. The binary ends with a message and an exit status, never with a crash.
func c20BrokenEntry(x *engine.Ctx, c *c20Case) {
	w := simfs.New(simfs.TickPerWrite)
	w.Put("root.yaml", []byte("version: 1\nsubject: CN=root\nkeyAlgorithm: P-224\n"))
	w.Put("sub.yaml", []byte("version: 1\nsubject: CN=sub\nissuer: root\nkeyAlgorithm: P-224\n"))
	w.Put("root.pem", FixtureKeyPEM("P-224-0"))
	link := []string{"broken.yaml", "nested/broken.json", "sub.pem"}[c.B]
	target := []string{"gone/nowhere.txt", link, "adir", "no-such-dir/x.yaml"}[c.A]
	if c.A == 2 {
		w.Put("adir/readme.txt", []byte("a directory\n"))
	}
	w.Symlinks = map[string]string{link: target}
	x.Nontrivial(fmt.Sprintf("broken-entry %d %d", c.A, c.B))
	for run := 1; run <= 2; run++ {
		res, err := drive.RunCLI(w, drive.Default, "y\n")
		if err != nil {
			x.Cap("cli: " + err.Error())
			return
		}
		x.TraceValidated(1)
		x.Transition(1)
		out := res.Stdout + res.Stderr
		if strings.Contains(out, "panic:") || strings.Contains(out, "goroutine 1 [") || strings.Contains(out, "runtime error") || res.Exit == 2 || res.Exit < 0 {
			x.Violation("C20/panic/cli entry="+c20BrokenEntries[c.A], fmt.Sprintf("%s is a %s: run %d of the binary crashed (exit %d): %s", link, c20BrokenEntries[c.A], run, res.Exit, short(out, 600)))
			return
		}
	}
	x.Outcome("broken directory entry: exit status, no crash")
}

func c20Exec(x *engine.Ctx, cc any) {
	c := cc.(*c20Case)
	docs := c20Load()
	switch c.Kind {
	case "broken-entry":
		c20BrokenEntry(x, c)
	case "one":
		res, w := c20RunWorld(x, c.Files, c.Strats, c.What)
		if strings.HasSuffix(c.What, "[expect error]") && res.Panic == "" && res.OK() {
			for _, target := range []string{"mut.pem", "ent.pem"} {
				if f, ok := w.Files[target]; ok && refx509.SplitPem(f.Data).NumCerts > 0 {
					cls := "oid"
					for _, k := range []string{"manipulation-oid", "custom-extension-oid", "policy-oid", "eku-oid", "admission-oid"} {
						if strings.Contains(c.What, strings.Split(k, "-")[0]) {
							cls = k
							break
						}
					}
					_ = cls
					x.Violation("C20/out-of-range-accepted slot="+c20SlotClassFromWhat(c.What), c.What)
					break
				}
			}
		}
	case "corpus":
		d := docs[c.Doc]
		x.Nontrivial("corpus " + d.Name)
		c20Protect(x, "", "ParseConfig("+d.Name+")", func() { config.ParseConfig(bytes.NewReader(d.Text)) })
		c20RunWorld(x, c20World(d, d.Text), []int{9, 9, 25, 4, 8}, "corpus document "+d.Name)
	case "slot":
		d := docs[c.Doc]
		slots := c20Slots(d.Tree)
		if c.Slot >= len(slots) {
			return
		}
		p := slots[c.Slot]
		ps := c20PathStr(p)
		var n int64
		for hi, h := range c20Hostile {
			tree := c20Set(c20Clone(d.Tree), p, rawTok(h))
			text := c20Render(tree)
			what := fmt.Sprintf("document %s, slot %s := %s", d.Name, ps, short(h, 60))
			x.Nontrivial(fmt.Sprintf("slot %d %d %d", c.Doc, c.Slot, hi))
			var perr error
			c20Protect(x, "", "ParseConfig: "+what, func() { _, perr = config.ParseConfig(bytes.NewReader(text)) })
			if perr != nil {
				// refused by the parser: in a directory the file is skipped with a warning; run once for the
				// hierarchy around it, no need for three runs
				c20RunWorld(x, c20World(d, text), []int{9}, what)
				c20RunEdited(x, d, text, []int{9}, what)
				n++
				continue
			}
			if c20OIDSlot.MatchString(ps) && c20BadOID[h] {
				// an over-long OID arc that passes the schema must surface as an error (or a skipped
				// file) - not as a successful run in which the value was silently dropped
				world := c20World(d, text)
				res, w := c20RunWorld(x, world, []int{9}, what)
				target := "mut.pem"
				if d.Profile {
					target = "ent.pem"
				}
				// is the slot read as an OID at all? (a valid marker OID must show up in the certificate)
				consumed := false
				{
					mtree := c20Set(c20Clone(d.Tree), p, rawTok(`"1.2.3.4.5.6.7.8.9"`))
					_, mw := c20RunWorld(x, c20World(d, c20Render(mtree)), []int{9}, what+" (marker)")
					if f, ok := mw.Files[target]; ok {
						if pf := refx509.SplitPem(f.Data); pf.CertDER != nil && bytes.Contains(pf.CertDER, []byte{0x2a, 3, 4, 5, 6, 7, 8, 9}) {
							consumed = true
						}
					}
				}
				if !consumed {
					x.Outcome("oid-like slot that the configuration format does not read: " + c20SlotClass(ps))
				}
				if consumed && res.Panic == "" && res.OK() {
					if f, ok := w.Files[target]; ok && refx509.SplitPem(f.Data).NumCerts > 0 {
						x.ViolationCase("C20/out-of-range-accepted slot="+c20SlotClass(ps), fmt.Sprintf("%s: the run succeeded and issued a certificate; the OID arc that does not fit was silently dropped", what), &c20Case{Kind: "one", Files: world, Strats: []int{9}, What: what + " [expect error]"})
					}
				}
			}
			if strings.HasSuffix(ps, "validity.duration") && c20BadDuration[h] {
				// a duration that overflows passes the schema ([0-9]+): it must surface as an error (or a
				// skipped file), not as a certificate whose end was computed from a wrapped-around number
				world := c20World(d, text)
				res, w := c20RunWorld(x, world, []int{9}, what)
				target := "mut.pem"
				if d.Profile {
					target = "ent.pem"
				}
				if res.Panic == "" && res.OK() {
					if f, ok := w.Files[target]; ok && refx509.SplitPem(f.Data).NumCerts > 0 {
						x.ViolationCase("C20/out-of-range-accepted slot=validity-duration", fmt.Sprintf("%s: the run succeeded and issued a certificate; the number wrapped around", what), &c20Case{Kind: "one", Files: world, Strats: []int{9}, What: what + " [expect error]"})
					}
				}
			}
			if c20IPSlot(d.Tree, p) && c20BadIP[h] {
				// an address octet outside 0..255 passes the schema: it must surface as an error (or a
				// skipped file), not as a certificate carrying the octet modulo 256
				world := c20World(d, text)
				res, w := c20RunWorld(x, world, []int{9}, what)
				target := "mut.pem"
				if d.Profile {
					target = "ent.pem"
				}
				if res.Panic == "" && res.OK() {
					if f, ok := w.Files[target]; ok && refx509.SplitPem(f.Data).NumCerts > 0 {
						x.ViolationCase("C20/out-of-range-accepted slot=san-ip-octet", fmt.Sprintf("%s: the run succeeded and issued a certificate; the octet was reduced modulo 256", what), &c20Case{Kind: "one", Files: world, Strats: []int{9}, What: what + " [expect error]"})
					}
				}
			}
			c20RunWorld(x, c20World(d, text), []int{9, 9, 25}, what)
			c20RunEdited(x, d, text, []int{9, 14}, what)
			n++
		}
		// one more deviation: the slot is removed altogether (a key left out, a list entry dropped)
		if tree, ok := c20Delete(c20Clone(d.Tree), p); ok {
			text := c20Render(tree)
			what := fmt.Sprintf("document %s, slot %s removed", d.Name, ps)
			x.Nontrivial(fmt.Sprintf("slot %d %d del", c.Doc, c.Slot))
			c20Protect(x, "", "ParseConfig: "+what, func() { config.ParseConfig(bytes.NewReader(text)) })
			c20RunWorld(x, c20World(d, text), []int{9, 9, 25}, what)
			c20RunEdited(x, d, text, []int{9, 14}, what)
			n++
		}
		x.Eval(n - 1)
	case "pair":
		d := docs[c.Doc]
		slots := c20Slots(d.Tree)
		sub := []int{9, 12, 14, 15, 18, 20, 21, 22, 24, 28, 34, 36}
		var n int64
		for _, h1 := range sub {
			for _, h2 := range sub {
				tree := c20Set(c20Clone(d.Tree), slots[c.Slot], rawTok(c20Hostile[h1]))
				// the second path may have vanished if it lies below the first
				func() {
					defer func() { recover() }()
					tree = c20Set(tree, slots[c.Slot2], rawTok(c20Hostile[h2]))
				}()
				text := c20Render(tree)
				what := fmt.Sprintf("document %s, slots %s := %s and %s := %s", d.Name, c20PathStr(slots[c.Slot]), short(c20Hostile[h1], 40), c20PathStr(slots[c.Slot2]), short(c20Hostile[h2], 40))
				c20Protect(x, "", "ParseConfig: "+what, func() { config.ParseConfig(bytes.NewReader(text)) })
				c20RunWorld(x, c20World(d, text), []int{9, 25}, what)
				n++
			}
		}
		x.Eval(n - 1)
		x.NontrivialN(n)
	case "cfgbytes":
		d := docs[c.Doc]
		var n int64
		for off := c.From; off < c.To; off++ {
			what := fmt.Sprintf("document %s prefix of %d bytes", d.Name, off)
			c20Protect(x, "", what, func() { config.ParseConfig(bytes.NewReader(d.Text[:off])) })
			n++
			for _, b := range []byte{0x00, 0x09, 0x0a, '#', ':', '-', '{', 0xff} {
				mut := append([]byte{}, d.Text...)
				mut[off] = b
				what := fmt.Sprintf("document %s byte %d := %#x", d.Name, off, b)
				var perr error
				c20Protect(x, "", what, func() { _, perr = config.ParseConfig(bytes.NewReader(mut)) })
				if perr == nil && off%16 == 0 {
					c20RunWorld(x, c20World(d, mut), []int{9}, what)
				}
				n++
			}
		}
		x.Eval(n - 1)
		x.NontrivialN(n)
	case "pembytes", "der":
		c20Artifacts(x, c)
	case "artstate", "artstate3":
		c20ArtState(x, c)
	case "hashline":
		c20HashLine(x, c)
	case "readfault":
		c20ReadFault(x, c)
	case "keyshapes":
		c20KeyShapes(x, c)
	}
}

// c20KeyShapes: a key-only artifact whose EC scalar octet string has every length from 1 to curve size + 8
// (shorter: leading zeros stripped; longer: zero-padded), with and without the embedded public key.
func c20KeyShapes(x *engine.Ctx, c *c20Case) {
	ci := &refx509.Curves[c.A]
	l := (ci.Curve.Params().N.BitLen() + 7) / 8
	var n int64
	for sl := 1; sl <= l+8; sl++ {
		d := big.NewInt(0x1234)
		if sl < 2 {
			d = big.NewInt(0x12)
		}
		for _, pub := range []bool{false, true} {
			der := refx509.BuildECPKCS8(ci, d, refx509.ECEncoding{OuterOID: true, Public: pub, ScalarLen: sl})
			files := map[string][]byte{
				"root.yaml":  []byte(fmt.Sprintf("version: 1\nsubject: CN=Key Shapes\nkeyAlgorithm: %s\n", ci.Name)),
				"child.yaml": []byte("version: 1\nsubject: CN=Child\nissuer: root\nkeyAlgorithm: P-224\n"),
				"root.pem":   refx509.EncodePem("PRIVATE KEY", der),
			}
			c20RunWorld(x, files, []int{9, 16}, fmt.Sprintf("key-only root.pem, curve %s, scalar written in %d octets (curve size %d), embedded public key %v", ci.Name, sl, l, pub))
			n++
		}
	}
	x.Eval(n - 1)
	x.NontrivialN(n)
}

// c20ReadFault: the directory of a corpus document, generated once; then every file in turn cannot be
// read beyond offset N (N in steps of 5 through [From,To)): open, plan and sign must not panic.
func c20ReadFault(x *engine.Ctx, c *c20Case) {
	docs := c20Load()
	if c.Doc >= len(docs) {
		return
	}
	d := docs[c.Doc]
	files := c20World(d, d.Text)
	w := simfs.New(simfs.TickPerWrite)
	var names []string
	for p := range files {
		names = append(names, p)
	}
	sort.Strings(names)
	for _, p := range names {
		w.Put(p, files[p])
	}
	if r := drive.Run(w, drive.Default, nil); r.Panic != "" {
		return // the corpus case reports that
	}
	var n int64
	for _, p := range w.Paths() {
		size := len(w.Files[p].Data)
		for off := c.From; off < c.To && off <= size; off += 5 {
			w2 := w.Clone()
			w2.ReadFaults = map[string]int{p: off}
			for _, st := range []int{9, 16} {
				res := drive.Run(w2, dbStrat(st), nil)
				x.Transition(1)
				n++
				if res.Panic != "" {
					x.ViolationCase(c20PanicClass(res.PanicSite, res.Panic), fmt.Sprintf("document %s: reading %s breaks off after %d of %d bytes, strategy %05b: panic %s", d.Name, p, off, size, st, short(res.Panic, 300)), &c20Case{Kind: "readfault", Doc: c.Doc, From: off, To: off + 1})
					return
				}
			}
		}
	}
	x.Eval(n)
	x.NontrivialN(n)
	x.Outcome("read faults survived")
}

// c20IPSlot: the slot is the name of a subjectAlternativeName entry of type ip.
func c20IPSlot(tree any, p c20Path) bool {
	if len(p) < 2 {
		return false
	}
	if k, ok := p[len(p)-1].(string); !ok || k != "name" {
		return false
	}
	n := tree
	for _, step := range p[:len(p)-1] {
		switch st := step.(type) {
		case string:
			m, ok := n.(map[string]any)
			if !ok {
				return false
			}
			n = m[st]
		case int:
			l, ok := n.([]any)
			if !ok || st >= len(l) {
				return false
			}
			n = l[st]
		}
	}
	m, ok := n.(map[string]any)
	return ok && m["type"] == "ip" && strings.Contains(c20PathStr(p), "subjectAlternativeName")
}

// durations whose numbers do not fit an int or whose end no time value can hold
var c20BadDuration = map[string]bool{`"99999999999999999999y"`: true, `"9223372036854772807y"`: true, `"18446744073709551616d"`: true, `"9223372036854775807m"`: true, `"99999999y99999999m99999999d"`: true}

var c20BadIP = map[string]bool{`"256.1.1.300"`: true, `"10.0.0.256"`: true, `"10.0.0.-1"`: true}

func c20SlotClassFromWhat(what string) string {
	i := strings.Index(what, "slot ")
	j := strings.Index(what, " := ")
	if i < 0 || j < i {
		return "oid"
	}
	return c20SlotClass(what[i+5 : j])
}

func c20SlotClass(ps string) string {
	switch {
	case strings.Contains(ps, "subjectAlternativeName"):
		return "san-ip-octet"
	case strings.HasSuffix(ps, "validity.duration"):
		return "validity-duration"
	case strings.Contains(ps, "manipulations"):
		return "manipulation-oid"
	case strings.Contains(ps, "custom"):
		return "custom-extension-oid"
	case strings.Contains(ps, "certificatePolicies"):
		return "policy-oid"
	case strings.Contains(ps, "extendedKeyUsage"):
		return "eku-oid"
	case strings.Contains(ps, "admission"):
		return "admission-oid"
	}
	return "oid"
}

// ---------------------------------------------------------------- artifacts

var c20BaseCache map[string][]byte

func c20Base() (map[string][]byte, error) {
	if c20BaseCache != nil {
		return c20BaseCache, nil
	}
	files := map[string][]byte{
		"root.yaml": []byte("version: 1\nsubject: CN=Root\nkeyAlgorithm: P-224\nextensions:\n  - subjectKeyIdentifier:\n      content: hash\n"),
		"sub.yaml":  []byte("version: 1\nsubject: CN=Sub\nkeyAlgorithm: P-224\nissuer: root\nextensions:\n  - authorityKeyIdentifier:\n      content:\n        id: hash\n"),
	}
	w := simfs.New(simfs.TickPerWrite)
	for _, p := range []string{"root.yaml", "sub.yaml"} {
		w.Put(p, files[p])
	}
	if r := drive.Run(w, drive.Default, nil); !r.OK() {
		return nil, fmt.Errorf("base run failed: %v %s", r.Err(), r.Panic)
	}
	out := map[string][]byte{}
	for p, f := range w.Files {
		out[p] = f.Data
	}
	c20BaseCache = out
	return out, nil
}

var c20AllStrats = func() []int {
	var s []int
	for i := 0; i < 32; i++ {
		s = append(s, i)
	}
	return s
}()

func c20Artifacts(x *engine.Ctx, c *c20Case) {
	base, err := c20Base()
	if err != nil {
		x.Cap(err.Error())
		return
	}
	target := []string{"root.pem", "sub.pem"}[c.A]
	orig := base[target]
	with := func(mut []byte) map[string][]byte {
		m := map[string][]byte{}
		for p, b := range base {
			m[p] = b
		}
		m[target] = mut
		return m
	}
	strats := []int{9, 25, 8, 4, 2, 1}
	var n int64
	if c.Kind == "pembytes" {
		for off := c.From; off < c.To && off < len(orig); off++ {
			what := fmt.Sprintf("%s cut to %d bytes", target, off)
			c20Protect(x, "", "ReadPem: "+what, func() { cert.ReadPem(orig[:off]) })
			c20RunWorld(x, with(orig[:off]), []int{9, 8, 25}, what)
			n++
			for _, b := range []byte{0x00, 0x0a, '#', ':', '-', 0xff, 'A'} {
				mut := append([]byte{}, orig...)
				if mut[off] == b {
					continue
				}
				mut[off] = b
				what := fmt.Sprintf("%s byte %d := %#x", target, off, b)
				c20Protect(x, "", "ReadPem: "+what, func() { cert.ReadPem(mut) })
				if off%4 == 0 || off < 80 {
					c20RunWorld(x, with(mut), []int{9, 8, 25}, what)
				}
				n++
			}
		}
	} else {
		pf := refx509.SplitPem(orig)
		if c.B >= len(pf.Blocks) {
			return
		}
		blk := pf.Blocks[c.B]
		for off := c.From; off < c.To && off < len(blk.Bytes); off++ {
			for _, b := range []byte{0x00, 0x7f, 0x80, 0xff, blk.Bytes[off] + 1, blk.Bytes[off] - 1} {
				if b == blk.Bytes[off] {
					continue
				}
				der := append([]byte{}, blk.Bytes...)
				der[off] = b
				var file []byte
				if pf.HashLine != nil {
					file = append(file, []byte("#HASH:"+*pf.HashLine+"\n")...)
				}
				for i, ob := range pf.Blocks {
					if i == c.B {
						file = append(file, refx509.EncodePem(ob.Type, der)...)
					} else {
						file = append(file, refx509.EncodePem(ob.Type, ob.Bytes)...)
					}
				}
				what := fmt.Sprintf("%s %s DER byte %d := %#x", target, blk.Type, off, b)
				c20Protect(x, "", "ReadPem: "+what, func() { cert.ReadPem(file) })
				c20RunWorld(x, with(file), strats, what)
				n++
			}
		}
	}
	if n > 0 {
		x.Eval(n - 1)
		x.NontrivialN(n)
	}
}

// c20ArtVariant: 0 no file, 1 empty file, 2 hash only, 3 cert only, 4 key only, 5 CSR only,
// 6 cert+key, 7 cert+CSR, 8 key+CSR, 9 garbage
func c20ArtVariant(full []byte, v int) ([]byte, bool) {
	pf := refx509.SplitPem(full)
	hash := []byte("#HASH:" + *pf.HashLine + "\n")
	certB := refx509.EncodePem("CERTIFICATE", pf.CertDER)
	keyB := refx509.EncodePem("PRIVATE KEY", pf.KeyDER)
	k, _ := refx509.ParsePKCS8(pf.KeyDER)
	csrB := refx509.EncodePem("CERTIFICATE REQUEST", refx509.BuildCSR(k, "req", nil))
	cat := func(parts ...[]byte) []byte {
		var o []byte
		for _, p := range parts {
			o = append(o, p...)
		}
		return o
	}
	switch v {
	case 0:
		return nil, false
	case 1:
		return []byte{}, true
	case 2:
		return hash, true
	case 3:
		return cat(hash, certB), true
	case 4:
		return keyB, true
	case 5:
		return csrB, true
	case 6:
		return cat(hash, certB, keyB), true
	case 7:
		return cat(hash, certB, csrB), true
	case 8:
		return cat(keyB, csrB), true
	}
	return []byte("-----BEGIN CERTIFICATE-----\nnot base64 at all!!\n-----END CERTIFICATE-----\n\x00\xff garbage"), true
}

var c20ArtNames = []string{"no-file", "empty-file", "hash-only", "cert-only", "key-only", "csr-only", "cert+key", "cert+csr", "key+csr", "garbage"}

func c20ArtState(x *engine.Ctx, c *c20Case) {
	base, err := c20Base()
	if err != nil {
		x.Cap(err.Error())
		return
	}
	if c.Kind == "artstate3" {
		// three tiers: the middle entity in each of the 10 states, leaf complete
		files := map[string][]byte{"root.yaml": base["root.yaml"], "root.pem": base["root.pem"], "sub.yaml": base["sub.yaml"],
			"leaf.yaml": []byte("version: 1\nsubject: CN=Leaf\nkeyAlgorithm: P-224\nissuer: sub\n")}
		w := simfs.New(simfs.TickPerWrite)
		for _, p := range []string{"root.yaml", "root.pem", "sub.yaml", "leaf.yaml"} {
			w.Put(p, files[p])
		}
		w.Put("sub.pem", base["sub.pem"])
		if r := drive.Run(w, drive.Default, nil); !r.OK() {
			x.Cap("three-tier base failed")
			return
		}
		leafPem := w.Files["leaf.pem"].Data
		for st := 0; st < 32; st++ {
			f := map[string][]byte{"root.yaml": files["root.yaml"], "root.pem": files["root.pem"], "sub.yaml": files["sub.yaml"], "leaf.yaml": files["leaf.yaml"], "leaf.pem": leafPem}
			if b, ok := c20ArtVariant(base["sub.pem"], c.A); ok {
				f["sub.pem"] = b
			}
			c20RunWorld(x, f, []int{st, 9}, fmt.Sprintf("three tiers, middle entity artifact=%s, strategy %05b then default", c20ArtNames[c.A], st))
		}
		x.Eval(31)
		x.NontrivialN(32)
		return
	}
	for st := 0; st < 32; st++ {
		f := map[string][]byte{"root.yaml": base["root.yaml"], "sub.yaml": base["sub.yaml"]}
		if b, ok := c20ArtVariant(base["root.pem"], c.A); ok {
			f["root.pem"] = b
		}
		if b, ok := c20ArtVariant(base["sub.pem"], c.B); ok {
			f["sub.pem"] = b
		}
		c20RunWorld(x, f, []int{st, 9}, fmt.Sprintf("root artifact=%s, sub artifact=%s, strategy %05b then default", c20ArtNames[c.A], c20ArtNames[c.B], st))
	}
	x.Eval(31)
	x.NontrivialN(32)
}

func c20HashVariants() []string {
	return []string{"offset0", "after-comment-line", "between-blocks", "at-end", "twice", "without-newline", "invalid-base64", "empty", "no-newline-at-end-of-file", "only-prefix", "after-blank-line", "inside-block"}
}

func c20HashLine(x *engine.Ctx, c *c20Case) {
	base, err := c20Base()
	if err != nil {
		x.Cap(err.Error())
		return
	}
	name := c20HashVariants()[c.A]
	for which, target := range []string{"root.pem", "sub.pem"} {
		pf := refx509.SplitPem(base[target])
		h := "#HASH:" + *pf.HashLine
		certB := string(refx509.EncodePem("CERTIFICATE", pf.CertDER))
		keyB := string(refx509.EncodePem("PRIVATE KEY", pf.KeyDER))
		var file string
		switch name {
		case "offset0":
			file = h + "\n" + certB + keyB
		case "after-comment-line":
			file = "# generated by hand\n" + h + "\n" + certB + keyB
		case "between-blocks":
			file = certB + h + "\n" + keyB
		case "at-end":
			file = certB + keyB + h + "\n"
		case "twice":
			file = h + "\n" + h + "\n" + certB + keyB
		case "without-newline":
			file = h + certB + keyB
		case "invalid-base64":
			file = "#HASH:!!!not base64!!!\n" + certB + keyB
		case "empty":
			file = "#HASH:\n" + certB + keyB
		case "no-newline-at-end-of-file":
			file = certB + keyB + h
		case "only-prefix":
			file = "#HASH:"
		case "after-blank-line":
			file = "\n\n" + h + "\n" + certB + keyB
		case "inside-block":
			file = certB[:100] + h + "\n" + certB[100:] + keyB
		}
		f := map[string][]byte{}
		for p, b := range base {
			f[p] = b
		}
		f[target] = []byte(file)
		for st := 0; st < 32; st++ {
			c20RunWorld(x, f, []int{st}, fmt.Sprintf("#HASH line %s in %s, strategy %05b", name, target, st))
		}
		_ = which
	}
	x.Eval(63)
	x.NontrivialN(64)
}

func init() {
	register(&engine.Check{
		ID:          "C20",
		Level:       "exploration",
		Rule:        "deviation-bounded enumeration from a valid corpus (the two *-example.yaml documents, examples/, the certificate/extension/profile schema test corpora read from /repo, and artifacts gopki produces): (1) every scalar and container slot of every corpus document replaced by each of 41 hostile values (empty, blank, 0, -1, 2^31, 2^63, 10^30, 1e400, 1.5, OIDs with over-long arcs / wrong first arcs / single arc, impossible dates, huge durations, malformed base64, wrong types, 100 kB string, NUL, emoji, null, [], {}, nested containers) and by removal of the slot, the document placed as root with a child (or as profile of two entities) and run default; default; -a on a fresh directory, and edited into the directory already generated from the unmodified document and run default; -e -o -c (existing certificates, keys and hash lines meet the hostile text); seven added documents give the validity shapes from+duration, from+until, from-only, until-only (certificate and profile) that the repository's documents lack; thorough adds two deviations for all pairs among OID-, date- and raw-valued slots of the example documents; (1c) key-only artifacts whose EC scalar is written in 1 .. curve size + 8 octets on all ten curves; (1b) a settled directory in which the read of each file in turn breaks off with an I/O error after every 5th offset; (2) byte level: every prefix and every offset x 8 bytes of the configuration texts through ParseConfig (quick: documents <=3 kB), every cut and offset x 7 bytes of generated PEM files, every offset x 6 byte values of the DER inside each PEM block re-armoured, through ReadPem and whole runs; 12 placements of the #HASH line x 32 strategies; (3) root and sub artifact each in 10 states (no file, empty, hash only, cert only, key only, CSR only, cert+key, cert+CSR, key+CSR, garbage) x 32 strategies followed by a default run, and the three-tier extension. Oracle: no panic / fatal error; an over-long OID arc in an OID-valued slot must make ParseConfig return an error. non-trivial = distinct mutated inputs executed; the binary on a native directory that holds, next to two valid entities, an entry with a configuration or artifact name that cannot be opened as a file (a link to nothing, to itself, to a directory, into a directory that does not exist) x 3 names, two runs each: a message and an exit status, never a crash",
		Bound:       map[string]string{"deviations from the corpus": "1 (thorough: 2 for OID/date/raw slots)"},
		Assumptions: []string{"'all byte strings' is unbounded; coverage-guided mutation is sampling and outside this technique: decided is exactly the deviation-bounded space", "fatal (unrecoverable) errors are attributed to the announced case"},
		Budget:      budgets(quickBudget, thoroughBudget),
		TraceCases:  true,
		Enumerate:   c20Enumerate,
		NewCase:     func() any { return &c20Case{} },
		Exec: func(x *engine.Ctx, c any) {
			t0 := time.Now()
			c20Exec(x, c)
			ms := time.Since(t0).Milliseconds()
			x.Info("ms_"+c.(*c20Case).Kind, ms)
			if ms > 3000 {
				cc := c.(*c20Case)
				x.Info(fmt.Sprintf("slow_%s_doc%d_slot%d_from%d_a%d_b%d_ms", cc.Kind, cc.Doc, cc.Slot, cc.From, cc.A, cc.B), ms)
			}
		},
	})
}
