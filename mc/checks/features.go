package checks

import (
	"encoding/json"
	"fmt"
	"sort"
	"strings"

	"verif/mc/drive"
	"verif/mc/engine"
	"verif/mc/refcfg"
	"verif/mc/refx509"
	"verif/mc/simfs"
)

// Feature-interaction sweep, shared by the checks whose oracle is the reference translation
// config -> certificate (C01-C07, C16, C19). One entity "ent" is given every subset of size <= 2
// (thorough: <= 3) of the features below; the directory is generated with the default flags and
// then regenerated with generate-all, and after each run the certificate is compared with the
// reference. Every check reports only the differences its property owns. The per-property
// enumerations vary one dimension at a time in otherwise plain worlds; this sweep is where two
// features that each work alone meet (a request-only entity with configured serial, a version
// manipulation with an extension list, an explicit alias with an imported key, ...).

type featCase struct {
	FeatSet []int `json:"feat_set"` // indexes into featNames, ascending
}

var featNames = []string{
	"profile", "issued", "request-only", "alias+directories", "version-0", "manipulated-signature+key-algorithm",
	"imported-key", "serial+unique-ids", "absolute-validity-2049/2050", "relative-validity", "extension-list",
	"foreign-issuer", "signature-algorithm", "non-ascii-subject", "brainpool-key", "admission",
	"manipulated-inner-signature-oid", "manipulated-outer-signature-oid", "manipulated-key-bits",
}

func featHas(set []int, name string) bool {
	for _, i := range set {
		if featNames[i] == name {
			return true
		}
	}
	return false
}

// featCompatible: combinations that cannot form one configuration.
func featCompatible(set []int) bool {
	h := func(n string) bool { return featHas(set, n) }
	switch {
	case h("issued") && h("foreign-issuer"): // two different issuers
		return false
	case h("request-only") && h("imported-key"): // the artifact holds either a request or a key
		return false
	case h("request-only") && h("brainpool-key"): // the request fixes the key
		return false
	case h("imported-key") && h("brainpool-key"):
		return false
	case h("absolute-validity-2049/2050") && h("relative-validity"):
		return false
	}
	return true
}

func featEnumerate(tier string, yield func(any)) {
	n := len(featNames)
	max := 2
	if tier == "thorough" {
		max = 3
	}
	var rec func(start int, cur []int)
	rec = func(start int, cur []int) {
		if featCompatible(cur) {
			yield(&featCase{FeatSet: append([]int{}, cur...)})
		}
		if len(cur) == max {
			return
		}
		for i := start; i < n; i++ {
			rec(i+1, append(cur, i))
		}
	}
	rec(0, nil)
}

func featWorld(set []int) (d *Dir, ent *refcfg.CertCfg, pre map[string][]byte, wantKey string, err error) {
	h := func(n string) bool { return featHas(set, n) }
	d = &Dir{}
	pre = map[string][]byte{}
	ent = &refcfg.CertCfg{Path: "ent.yaml", Subject: "CN=Feature Entity, O=Org", KeyAlg: "P-256"}
	wantKey = "P-256"
	if h("non-ascii-subject") {
		ent.Subject = "CN=Zoë Ünï, OU=Unit & Co, O=Örg, C=DE"
	}
	if h("alias+directories") {
		ent.Path, ent.Alias = "pki.d/ee/entity-config.yml", "ent"
	}
	if h("brainpool-key") {
		ent.KeyAlg, wantKey = "brainpoolP256r1", "brainpoolP256r1"
	}
	issuerKeyFix := ""
	if h("issued") || (h("request-only") && !h("foreign-issuer")) {
		ca := &refcfg.CertCfg{Path: "fca.yaml", Subject: "CN=Feature CA, O=Org", KeyAlg: "P-384"}
		d.Certs = append(d.Certs, ca)
		ent.Issuer = "fca"
		issuerKeyFix = "P-384-1"
		pre["fca.pem"] = FixtureKeyPEM(issuerKeyFix)
	}
	if h("foreign-issuer") {
		p, subj, e := foreignIssuerPEM("utf8-for-printable-value", "P-256-1", false)
		if e != nil {
			return nil, nil, nil, "", e
		}
		d.Certs = append(d.Certs, &refcfg.CertCfg{Path: "fca.yaml", Subject: subj, KeyAlg: "P-256"})
		ent.Issuer = "fca"
		pre["fca.pem"] = p
	}
	if h("profile") {
		attrs := []refcfg.SubjAttr{}
		for _, a := range []string{"CN", "OU", "O", "C"} { // written order of the subject strings above
			attrs = append(attrs, refcfg.SubjAttr{Attribute: a, Optional: refcfg.B(true)})
		}
		d.Profiles = append(d.Profiles, &refcfg.ProfileCfg{Path: "profiles/fp.yaml", Name: "fp", Validity: &refcfg.Validity{Duration: "3y"},
			SubjAttrs: &refcfg.SubjectAttributes{Attributes: attrs},
			Exts:      []refcfg.Ext{{Kind: refcfg.KSKI, SKI: refcfg.S("hash")}, {Kind: refcfg.KKU, Critical: refcfg.B(true), KU: refcfg.Strs("digitalSignature", "keyEncipherment")}, {Kind: refcfg.KAKI, AKIHash: true}}})
		ent.Profile = "fp"
	}
	if h("request-only") {
		k, e := refx509.ParsePKCS8(FixtureKeyDER("P-256-0"))
		if e != nil {
			return nil, nil, nil, "", e
		}
		pre[ArtifactPath(ent.Path)] = refx509.EncodePem("CERTIFICATE REQUEST", refx509.BuildCSR(k, "feature request", nil))
		wantKey = ""
	}
	if h("imported-key") {
		pre[ArtifactPath(ent.Path)] = FixtureKeyPEM("P-384-0")
		wantKey = ""
	}
	m := &refcfg.Manip{}
	if h("version-0") {
		m.Version = refcfg.I64(0)
	}
	if h("manipulated-signature+key-algorithm") {
		m.SigValue = refcfg.Bin([]byte{1, 2, 3})
		m.TbsPubKeyAlg = refcfg.S("1.2.3.4")
	}
	if h("manipulated-inner-signature-oid") {
		m.TbsSig = refcfg.S("1.2.3.4.5")
	}
	if h("manipulated-outer-signature-oid") {
		m.OuterSigAlg = refcfg.S("1.2.3.4.6")
	}
	if h("manipulated-key-bits") {
		m.TbsPubKey = refcfg.Bin([]byte{0xde, 0xad, 0xbe, 0xef})
	}
	if !m.Empty() {
		ent.Manip = m
	}
	if h("serial+unique-ids") {
		ent.Serial = refcfg.I64(4711)
		ent.IssuerUID, ent.SubjectUID = refcfg.Bin([]byte{1, 2, 3}), refcfg.Bin([]byte{4, 5})
	}
	if h("absolute-validity-2049/2050") {
		ent.Validity = &refcfg.Validity{From: "2049-12-31", Until: "2050-01-01"}
	}
	if h("relative-validity") {
		ent.Validity = &refcfg.Validity{Duration: "1y2m3d"}
	}
	if h("extension-list") {
		t := true
		ent.Exts = append(ent.Exts,
			refcfg.Ext{Kind: refcfg.KSAN, SAN: &[]refcfg.GeneralName{{Type: "dns", Name: "Feature.Example.ORG"}, {Type: "mail", Name: "Some.One@Example.ORG"}, {Type: "ip", Name: "10.1.2.3"}}},
			refcfg.Ext{Kind: refcfg.KAIA, AIA: refcfg.Strs("HTTP://OCSP.Example.ORG/Status#", "http://o.example")},
			refcfg.Ext{Kind: refcfg.KBC, Critical: &t, BC: &refcfg.BasicConstraints{Ca: &t, PathLen: refcfg.I(1)}},
			refcfg.Ext{Kind: refcfg.KCustom, CustomOID: "1.2.3.4.5.6", Raw: refcfg.Bin([]byte{0x04, 0x02, 0xca, 0xfe})},
			refcfg.Ext{Kind: refcfg.KEKU, EKU: refcfg.Strs("clientAuth", "1.2.3.4.5")})
	}
	if h("admission") {
		ent.Exts = append(ent.Exts, refcfg.Ext{Kind: refcfg.KADM, ADM: &refcfg.Admission{
			AdmissionAuthority: &refcfg.GeneralName{Type: "dns", Name: "authority.example"},
			Admissions: []refcfg.Admissions{{NamingAuthority: &refcfg.NamingAuthority{Oid: refcfg.S("1.2.276.0.76.4"), Text: refcfg.S("Kammer")},
				ProfessionInfos: []refcfg.ProfessionInfo{{NamingAuthority: &refcfg.NamingAuthority{Text: refcfg.S("Amt")}, ProfessionItems: []string{"Arzt"}, ProfessionOids: refcfg.Strs("1.2.276.0.76.4.30"), RegistrationNumber: refcfg.S("1-2-3")}}}}}})
	}
	if h("signature-algorithm") {
		ent.SigAlg = "ECDSAwithSHA512"
	}
	d.Certs = append(d.Certs, ent)
	return d, ent, pre, wantKey, nil
}

func featExec(x *engine.Ctx, owner string, c *featCase) {
	var names []string
	for _, i := range c.FeatSet {
		if i < 0 || i >= len(featNames) {
			return
		}
		names = append(names, featNames[i])
	}
	label := strings.Join(names, "+")
	if label == "" {
		label = "plain"
	}
	d, ent, pre, wantKey, err := featWorld(c.FeatSet)
	if err != nil {
		x.Cap("feature world: " + err.Error())
		return
	}
	x.Nontrivial("features " + label)
	g := Generate(d, func(w *simfs.World) {
		var ps []string
		for p := range pre {
			ps = append(ps, p)
		}
		sort.Strings(ps)
		for _, p := range ps {
			w.Put(p, pre[p])
		}
	}, drive.Default)
	skipCA := featHas(c.FeatSet, "foreign-issuer")
	for run := 0; run < 2; run++ {
		phase := "first run"
		if run == 1 {
			phase = "regenerated with generate-all"
			if skipCA {
				break // generate-all would replace the imported issuer as well; C01's origin cases own that
			}
			g2 := &GenResult{W: g.W, Before: g.W.Clone(), RunStart: g.RunStart}
			g2.Res = drive.Run(g.W, drive.All, nil)
			g2.RunEnd = g.RunEnd + 5
			g = g2
		}
		if g.Res.Panic != "" {
			x.Violation(owner+"/features/panic/"+g.Res.PanicSite, fmt.Sprintf("[%s] %s: %s", label, phase, g.Res.Panic))
			return
		}
		if !g.Res.OK() {
			// every feature set is a valid configuration: a refusal hides the certificate from every property
			x.Violation(owner+"/features/run-failed", fmt.Sprintf("[%s] %s: %v", label, phase, g.Res.Err()))
			return
		}
		diffs, _, err := g.CompareEntity(d, AliasOf(ent), wantKey)
		if err != nil {
			x.Violation(owner+"/features/no-certificate", fmt.Sprintf("[%s] %s: %v", label, phase, err))
			return
		}
		for _, df := range diffs {
			if df.Owner == owner {
				x.Violation(df.Class+" [feature interaction]", fmt.Sprintf("[%s] %s: %s", label, phase, df.Detail))
			} else {
				x.Info("diffs_owned_by_"+df.Owner, 1)
			}
		}
	}
	x.Outcome("features compared")
}

// featWrap lets a check carry the shared feature cases next to its own case type.
type featWrap struct {
	inner   any
	newCase func() any
}

func (w *featWrap) UnmarshalJSON(b []byte) error {
	var probe map[string]json.RawMessage
	if err := json.Unmarshal(b, &probe); err != nil {
		return err
	}
	if _, ok := probe["feat_set"]; ok {
		fc := &featCase{}
		w.inner = fc
		return json.Unmarshal(b, fc)
	}
	if _, ok := probe["feat_edit"]; ok {
		fc := &featEditCase{}
		w.inner = fc
		return json.Unmarshal(b, fc)
	}
	w.inner = w.newCase()
	return json.Unmarshal(b, w.inner)
}

func (w *featWrap) MarshalJSON() ([]byte, error) { return json.Marshal(w.inner) }

// withFeatures adds the feature-interaction sweep to a registered check.
func withFeatures(id string) {
	ck := registry[id]
	enum, exec, newCase := ck.Enumerate, ck.Exec, ck.NewCase
	ck.Enumerate = func(tier string, yield func(any)) {
		enum(tier, yield)
		featEnumerate(tier, yield)
	}
	ck.NewCase = func() any { return &featWrap{newCase: newCase} }
	ck.Exec = func(x *engine.Ctx, c any) {
		if w, ok := c.(*featWrap); ok {
			c = w.inner
		}
		if fc, ok := c.(*featCase); ok {
			featExec(x, id, fc)
			return
		}
		exec(x, c)
	}
	ck.Rule += " PLUS the feature-interaction sweep shared by C01-C07, C16 and C19: one entity with every compatible subset of size <=2 (thorough <=3) of " + fmt.Sprint(len(featNames)) + " features (" + strings.Join(featNames, ", ") + "), generated with the default flags and regenerated with generate-all, the certificate compared with the reference translation after each run; this check reports the differences its property owns"
}

// ---------------------------------------------------------------- feature edits (C12)

// featEditCase: a directory generated with feature set {F} (F = -1: plain) is edited so that the
// entity also has feature G, run, run again, edited back, run. Shared machinery of C12: after each
// default-flag run the certificate reflects the configuration of that moment, and a run without an
// edit in between changes nothing.
type featEditCase struct {
	FeatEdit [2]int `json:"feat_edit"` // F, G
}

// features that are a matter of the configuration text alone (can be edited in and out)
var featEditable = []string{"profile", "version-0", "manipulated-signature+key-algorithm", "serial+unique-ids", "absolute-validity-2049/2050",
	"relative-validity", "extension-list", "signature-algorithm", "non-ascii-subject", "admission",
	"manipulated-inner-signature-oid", "manipulated-outer-signature-oid", "manipulated-key-bits"}

func featIndex(name string) int {
	for i, n := range featNames {
		if n == name {
			return i
		}
	}
	return -1
}

func featEditEnumerate(tier string, yield func(any)) {
	for f := -1; f < len(featNames); f++ {
		for _, gn := range featEditable {
			g := featIndex(gn)
			if g == f {
				continue
			}
			set := []int{g}
			if f >= 0 {
				set = []int{f, g}
				if f > g {
					set = []int{g, f}
				}
			}
			if !featCompatible(set) {
				continue
			}
			yield(&featEditCase{FeatEdit: [2]int{f, g}})
		}
	}
}

func featEditExec(x *engine.Ctx, owner string, c *featEditCase) {
	f, g := c.FeatEdit[0], c.FeatEdit[1]
	if g < 0 || g >= len(featNames) || f >= len(featNames) {
		return
	}
	var set0 []int
	label := "plain"
	if f >= 0 {
		set0 = []int{f}
		label = featNames[f]
	}
	set1 := append(append([]int{}, set0...), g)
	sort.Ints(set1)
	label += " <-> +" + featNames[g]
	d0, ent0, pre, wantKey, err := featWorld(set0)
	if err != nil {
		x.Cap("feature world: " + err.Error())
		return
	}
	d1, ent1, pre1, _, err := featWorld(set1)
	if err != nil {
		x.Cap("feature world: " + err.Error())
		return
	}
	x.Nontrivial("feature edit " + label)
	gen := Generate(d0, func(w *simfs.World) {
		var ps []string
		for p := range pre {
			ps = append(ps, p)
		}
		sort.Strings(ps)
		for _, p := range ps {
			w.Put(p, pre[p])
		}
	}, drive.Default)
	x.Transition(1)
	if !gen.Res.OK() {
		x.Violation(owner+"/feature-edit/first-run-failed", fmt.Sprintf("[%s] %v %s", label, gen.Res.Err(), gen.Res.Panic))
		return
	}
	w := gen.W
	// write the configuration files of dir into w where their text differs; artifacts stay
	apply := func(dir *Dir, pre map[string][]byte) {
		tmp := simfs.New(simfs.TickPerWrite)
		dir.Render(tmp)
		for _, p := range tmp.Paths() {
			if cur, ok := w.Files[p]; !ok || string(cur.Data) != string(tmp.Files[p].Data) {
				w.Put(p, tmp.Files[p].Data)
			}
		}
		for p, b := range pre {
			if _, ok := w.Files[p]; !ok {
				w.Put(p, b)
			}
		}
	}
	step := func(phase string, dir *Dir, ent *refcfg.CertCfg, mustRegenerate bool) bool {
		g2 := &GenResult{W: w, Before: w.Clone(), RunStart: gen.RunStart}
		g2.Res = drive.Run(w, drive.Default, nil)
		g2.RunEnd = gen.RunEnd + 5
		x.Transition(1)
		if g2.Res.Panic != "" {
			x.Violation(owner+"/feature-edit/panic/"+g2.Res.PanicSite, fmt.Sprintf("[%s] %s: %s", label, phase, g2.Res.Panic))
			return false
		}
		if !g2.Res.OK() {
			x.Violation(owner+"/feature-edit/run-failed", fmt.Sprintf("[%s] %s: %v", label, phase, g2.Res.Err()))
			return false
		}
		if mustRegenerate && !g2.Res.Planned(AliasOf(ent)) {
			x.Violation(owner+"/feature-edit/edit-not-seen", fmt.Sprintf("[%s] %s: the configuration changed but the entity is not regenerated (plan %v)", label, phase, g2.Res.PlanAliases()))
			return false
		}
		if !mustRegenerate {
			if len(g2.Res.Plan) != 0 || len(simfs.Diff(g2.Before, w)) != 0 {
				x.Violation(owner+"/feature-edit/run-without-edit-not-a-noop", fmt.Sprintf("[%s] %s: plan %v, changed %v", label, phase, g2.Res.PlanAliases(), simfs.Diff(g2.Before, w)))
				return false
			}
			return true
		}
		diffs, _, err := g2.CompareEntity(dir, AliasOf(ent), wantKey)
		if err != nil {
			x.Violation(owner+"/feature-edit/no-certificate", fmt.Sprintf("[%s] %s: %v", label, phase, err))
			return false
		}
		for _, df := range diffs {
			x.Violation(owner+"/feature-edit/does-not-reflect-config/"+strings.TrimPrefix(df.Class, df.Owner+"/"), fmt.Sprintf("[%s] %s: %s", label, phase, df.Detail))
		}
		return true
	}
	apply(d1, pre1)
	if !step("after editing the feature in", d1, ent1, true) {
		return
	}
	if !step("second run, nothing edited", d1, ent1, false) {
		return
	}
	apply(d0, nil)
	if !step("after editing the feature out again", d0, ent0, true) {
		return
	}
	step("final run, nothing edited", d0, ent0, false)
	x.Outcome("feature edit compared")
}

// withFeatureEdits adds the feature-edit histories to a registered check.
func withFeatureEdits(id string) {
	ck := registry[id]
	enum, exec, newCase := ck.Enumerate, ck.Exec, ck.NewCase
	ck.Enumerate = func(tier string, yield func(any)) {
		enum(tier, yield)
		featEditEnumerate(tier, yield)
	}
	ck.NewCase = func() any { return &featWrap{newCase: newCase} }
	ck.Exec = func(x *engine.Ctx, c any) {
		if w, ok := c.(*featWrap); ok {
			c = w.inner
		}
		if fc, ok := c.(*featEditCase); ok {
			featEditExec(x, id, fc)
			return
		}
		exec(x, c)
	}
	ck.Rule += " PLUS feature-edit histories: a directory generated with one of " + fmt.Sprint(len(featNames)+1) + " feature sets (none or one of the sweep's features) is edited so that the entity also has one of " + fmt.Sprint(len(featEditable)) + " configuration-level features, run, run again, edited back, run, run again - after each editing run the certificate equals the reference translation of the files of that moment, and each run without an edit is a no-op"
}

func init() {
	for _, id := range []string{"C01", "C02", "C03", "C04", "C05", "C06", "C07", "C16", "C19"} {
		withFeatures(id)
	}
	withFeatureEdits("C12")
}
