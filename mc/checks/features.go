package checks

import (
	"encoding/json"
	"fmt"
	"sort"
	"strings"

	"verif/mc/drive"
	"verif/mc/engine"
	"verif/mc/refcfg"
	"verif/mc/refx509"
	"verif/mc/simfs"
)

// Feature-interaction sweep, shared by the checks whose oracle is the reference translation
// config -> certificate (C01-C07, C16, C19). One entity "ent" is given every subset of size <= 2
// (thorough: <= 3) of the features below; the directory is generated with the default flags and
// then regenerated with generate-all, and after each run the certificate is compared with the
// reference. Every check reports only the differences its property owns. The per-property
// enumerations vary one dimension at a time in otherwise plain worlds; this sweep is where two
// features that each work alone meet (a request-only entity with configured serial, a version
// manipulation with an extension list, an explicit alias with an imported key, ...).

type featCase struct {
	FeatSet []int `json:"feat_set"` // indexes into featNames, ascending
}

var featNames = []string{
	"profile", "issued", "request-only", "alias+directories", "version-0", "manipulated-signature+key-algorithm",
	"imported-key", "serial+unique-ids", "absolute-validity-2049/2050", "relative-validity", "extension-list",
	"foreign-issuer", "signature-algorithm", "non-ascii-subject", "brainpool-key", "admission",
	"manipulated-inner-signature-oid", "manipulated-outer-signature-oid", "manipulated-key-bits",
}

func featHas(set []int, name string) bool {
	for _, i := range set {
		if featNames[i] == name {
			return true
		}
	}
	return false
}

// featCompatible: combinations that cannot form one configuration.
func featCompatible(set []int) bool {
	h := func(n string) bool { return featHas(set, n) }
	switch {
	case h("issued") && h("foreign-issuer"): // two different issuers
		return false
	case h("request-only") && h("imported-key"): // the artifact holds either a request or a key
		return false
	case h("request-only") && h("brainpool-key"): // the request fixes the key
		return false
	case h("imported-key") && h("brainpool-key"):
		return false
	case h("absolute-validity-2049/2050") && h("relative-validity"):
		return false
	}
	return true
}

func featEnumerate(tier string, yield func(any)) {
	n := len(featNames)
	max := 2
	if tier == "thorough" {
		max = 3
	}
	var rec func(start int, cur []int)
	rec = func(start int, cur []int) {
		if featCompatible(cur) {
			yield(&featCase{FeatSet: append([]int{}, cur...)})
		}
		if len(cur) == max {
			return
		}
		for i := start; i < n; i++ {
			rec(i+1, append(cur, i))
		}
	}
	rec(0, nil)
}

func featWorld(set []int) (d *Dir, ent *refcfg.CertCfg, pre map[string][]byte, wantKey string, err error) {
	h := func(n string) bool { return featHas(set, n) }
	d = &Dir{}
	pre = map[string][]byte{}
	ent = &refcfg.CertCfg{Path: "ent.yaml", Subject: "CN=Feature Entity, O=Org", KeyAlg: "P-256"}
	wantKey = "P-256"
	if h("non-ascii-subject") {
		ent.Subject = "CN=Zoë Ünï, OU=Unit & Co, O=Örg, C=DE"
	}
	if h("alias+directories") {
		ent.Path, ent.Alias = "pki.d/ee/entity-config.yml", "ent"
	}
	if h("brainpool-key") {
		ent.KeyAlg, wantKey = "brainpoolP256r1", "brainpoolP256r1"
	}
	issuerKeyFix := ""
	if h("issued") || (h("request-only") && !h("foreign-issuer")) {
		ca := &refcfg.CertCfg{Path: "fca.yaml", Subject: "CN=Feature CA, O=Org", KeyAlg: "P-384"}
		d.Certs = append(d.Certs, ca)
		ent.Issuer = "fca"
		issuerKeyFix = "P-384-1"
		pre["fca.pem"] = FixtureKeyPEM(issuerKeyFix)
	}
	if h("foreign-issuer") {
		p, subj, e := foreignIssuerPEM("utf8-for-printable-value", "P-256-1", false)
		if e != nil {
			return nil, nil, nil, "", e
		}
		d.Certs = append(d.Certs, &refcfg.CertCfg{Path: "fca.yaml", Subject: subj, KeyAlg: "P-256"})
		ent.Issuer = "fca"
		pre["fca.pem"] = p
	}
	if h("profile") {
		attrs := []refcfg.SubjAttr{}
		for _, a := range []string{"CN", "OU", "O", "C"} { // written order of the subject strings above
			attrs = append(attrs, refcfg.SubjAttr{Attribute: a, Optional: refcfg.B(true)})
		}
		d.Profiles = append(d.Profiles, &refcfg.ProfileCfg{Path: "profiles/fp.yaml", Name: "fp", Validity: &refcfg.Validity{Duration: "3y"},
			SubjAttrs: &refcfg.SubjectAttributes{Attributes: attrs},
			Exts:      []refcfg.Ext{{Kind: refcfg.KSKI, SKI: refcfg.S("hash")}, {Kind: refcfg.KKU, Critical: refcfg.B(true), KU: refcfg.Strs("digitalSignature", "keyEncipherment")}, {Kind: refcfg.KAKI, AKIHash: true}}})
		ent.Profile = "fp"
	}
	if h("request-only") {
		k, e := refx509.ParsePKCS8(FixtureKeyDER("P-256-0"))
		if e != nil {
			return nil, nil, nil, "", e
		}
		pre[ArtifactPath(ent.Path)] = refx509.EncodePem("CERTIFICATE REQUEST", refx509.BuildCSR(k, "feature request", nil))
		wantKey = ""
	}
	if h("imported-key") {
		pre[ArtifactPath(ent.Path)] = FixtureKeyPEM("P-384-0")
		wantKey = ""
	}
	m := &refcfg.Manip{}
	if h("version-0") {
		m.Version = refcfg.I64(0)
	}
	if h("manipulated-signature+key-algorithm") {
		m.SigValue = refcfg.Bin([]byte{1, 2, 3})
		m.TbsPubKeyAlg = refcfg.S("1.2.3.4")
	}
	if h("manipulated-inner-signature-oid") {
		m.TbsSig = refcfg.S("1.2.3.4.5")
	}
	if h("manipulated-outer-signature-oid") {
		m.OuterSigAlg = refcfg.S("1.2.3.4.6")
	}
	if h("manipulated-key-bits") {
		m.TbsPubKey = refcfg.Bin([]byte{0xde, 0xad, 0xbe, 0xef})
	}
	if !m.Empty() {
		ent.Manip = m
	}
	if h("serial+unique-ids") {
		ent.Serial = refcfg.I64(4711)
		ent.IssuerUID, ent.SubjectUID = refcfg.Bin([]byte{1, 2, 3}), refcfg.Bin([]byte{4, 5})
	}
	if h("absolute-validity-2049/2050") {
		ent.Validity = &refcfg.Validity{From: "2049-12-31", Until: "2050-01-01"}
	}
	if h("relative-validity") {
		ent.Validity = &refcfg.Validity{Duration: "1y2m3d"}
	}
	if h("extension-list") {
		t := true
		ent.Exts = append(ent.Exts,
			refcfg.Ext{Kind: refcfg.KSAN, SAN: &[]refcfg.GeneralName{{Type: "dns", Name: "feature.example"}, {Type: "ip", Name: "10.1.2.3"}}},
			refcfg.Ext{Kind: refcfg.KBC, Critical: &t, BC: &refcfg.BasicConstraints{Ca: &t, PathLen: refcfg.I(1)}},
			refcfg.Ext{Kind: refcfg.KCustom, CustomOID: "1.2.3.4.5.6", Raw: refcfg.Bin([]byte{0x04, 0x02, 0xca, 0xfe})},
			refcfg.Ext{Kind: refcfg.KEKU, EKU: refcfg.Strs("clientAuth", "1.2.3.4.5")})
	}
	if h("admission") {
		ent.Exts = append(ent.Exts, refcfg.Ext{Kind: refcfg.KADM, ADM: &refcfg.Admission{
			AdmissionAuthority: &refcfg.GeneralName{Type: "dns", Name: "authority.example"},
			Admissions: []refcfg.Admissions{{NamingAuthority: &refcfg.NamingAuthority{Oid: refcfg.S("1.2.276.0.76.4"), Text: refcfg.S("Kammer")},
				ProfessionInfos: []refcfg.ProfessionInfo{{NamingAuthority: &refcfg.NamingAuthority{Text: refcfg.S("Amt")}, ProfessionItems: []string{"Arzt"}, ProfessionOids: refcfg.Strs("1.2.276.0.76.4.30"), RegistrationNumber: refcfg.S("1-2-3")}}}}}})
	}
	if h("signature-algorithm") {
		ent.SigAlg = "ECDSAwithSHA512"
	}
	d.Certs = append(d.Certs, ent)
	return d, ent, pre, wantKey, nil
}

func featExec(x *engine.Ctx, owner string, c *featCase) {
	var names []string
	for _, i := range c.FeatSet {
		if i < 0 || i >= len(featNames) {
			return
		}
		names = append(names, featNames[i])
	}
	label := strings.Join(names, "+")
	if label == "" {
		label = "plain"
	}
	d, ent, pre, wantKey, err := featWorld(c.FeatSet)
	if err != nil {
		x.Cap("feature world: " + err.Error())
		return
	}
	x.Nontrivial("features " + label)
	g := Generate(d, func(w *simfs.World) {
		var ps []string
		for p := range pre {
			ps = append(ps, p)
		}
		sort.Strings(ps)
		for _, p := range ps {
			w.Put(p, pre[p])
		}
	}, drive.Default)
	skipCA := featHas(c.FeatSet, "foreign-issuer")
	for run := 0; run < 2; run++ {
		phase := "first run"
		if run == 1 {
			phase = "regenerated with generate-all"
			if skipCA {
				break // generate-all would replace the imported issuer as well; C01's origin cases own that
			}
			g2 := &GenResult{W: g.W, Before: g.W.Clone(), RunStart: g.RunStart}
			g2.Res = drive.Run(g.W, drive.All, nil)
			g2.RunEnd = g.RunEnd + 5
			g = g2
		}
		if g.Res.Panic != "" {
			x.Violation(owner+"/features/panic/"+g.Res.PanicSite, fmt.Sprintf("[%s] %s: %s", label, phase, g.Res.Panic))
			return
		}
		if !g.Res.OK() {
			// every feature set is a valid configuration: a refusal hides the certificate from every property
			x.Violation(owner+"/features/run-failed", fmt.Sprintf("[%s] %s: %v", label, phase, g.Res.Err()))
			return
		}
		diffs, _, err := g.CompareEntity(d, AliasOf(ent), wantKey)
		if err != nil {
			x.Violation(owner+"/features/no-certificate", fmt.Sprintf("[%s] %s: %v", label, phase, err))
			return
		}
		for _, df := range diffs {
			if df.Owner == owner {
				x.Violation(df.Class+" [feature interaction]", fmt.Sprintf("[%s] %s: %s", label, phase, df.Detail))
			} else {
				x.Info("diffs_owned_by_"+df.Owner, 1)
			}
		}
	}
	x.Outcome("features compared")
}

// featWrap lets a check carry the shared feature cases next to its own case type.
type featWrap struct {
	inner   any
	newCase func() any
}

func (w *featWrap) UnmarshalJSON(b []byte) error {
	var probe map[string]json.RawMessage
	if err := json.Unmarshal(b, &probe); err != nil {
		return err
	}
	if _, ok := probe["feat_set"]; ok {
		fc := &featCase{}
		w.inner = fc
		return json.Unmarshal(b, fc)
	}
	w.inner = w.newCase()
	return json.Unmarshal(b, w.inner)
}

func (w *featWrap) MarshalJSON() ([]byte, error) { return json.Marshal(w.inner) }

// withFeatures adds the feature-interaction sweep to a registered check.
func withFeatures(id string) {
	ck := registry[id]
	enum, exec, newCase := ck.Enumerate, ck.Exec, ck.NewCase
	ck.Enumerate = func(tier string, yield func(any)) {
		enum(tier, yield)
		featEnumerate(tier, yield)
	}
	ck.NewCase = func() any { return &featWrap{newCase: newCase} }
	ck.Exec = func(x *engine.Ctx, c any) {
		if w, ok := c.(*featWrap); ok {
			c = w.inner
		}
		if fc, ok := c.(*featCase); ok {
			featExec(x, id, fc)
			return
		}
		exec(x, c)
	}
	ck.Rule += " PLUS the feature-interaction sweep shared by C01-C07, C16 and C19: one entity with every compatible subset of size <=2 (thorough <=3) of " + fmt.Sprint(len(featNames)) + " features (" + strings.Join(featNames, ", ") + "), generated with the default flags and regenerated with generate-all, the certificate compared with the reference translation after each run; this check reports the differences its property owns"
}

func init() {
	for _, id := range []string{"C01", "C02", "C03", "C04", "C05", "C06", "C07", "C16", "C19"} {
		withFeatures(id)
	}
}
