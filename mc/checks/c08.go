package checks

import (
	"encoding/asn1"
	"fmt"

	"github.com/wokdav/gopki/generator/cert"
	"github.com/wokdav/gopki/generator/config"

	"verif/mc/engine"
	"verif/mc/refcfg"
)

// C08 — profile merging follows the documented inheritance and override rules.

// hExt is the harness' own ExtensionConfig: OID, content id, JSON-marshalable.
type hExt struct {
	O  int    `json:"oid"`     // 0 = A, 1 = B
	C  int    `json:"content"` // 0 = none, 1, 2
	ID string `json:"-"`
}

var c08OIDs = []asn1.ObjectIdentifier{{1, 2, 3, 1}, {1, 2, 3, 2}}

func (h hExt) Oid() asn1.ObjectIdentifier { return c08OIDs[h.O] }
func (h hExt) Builder() (cert.ExtensionBuilder, error) {
	if h.C == 0 {
		return config.OverrideNeededBuilder{}, nil
	}
	return nil, nil
}

type c08PEntry struct {
	O, C     int
	Opt, Ovr bool
}

type c08Case struct {
	Prof    []c08PEntry `json:"prof"`
	MaxCert int         `json:"maxCert,omitempty"`
	Cert    [][2]int    `json:"cert,omitempty"` // replay: a single certificate list
	Pipe    *c08Pipe    `json:"pipe,omitempty"`
}

func c08Enumerate(tier string, yield func(any)) {
	maxP, maxC := 2, 3
	if tier == "thorough" {
		maxP, maxC = 3, 4
	}
	var entries []c08PEntry
	for o := 0; o < 2; o++ {
		for c := 0; c < 3; c++ {
			for _, opt := range []bool{false, true} {
				for _, ovr := range []bool{false, true} {
					entries = append(entries, c08PEntry{o, c, opt, ovr})
				}
			}
		}
	}
	var rec func(cur []c08PEntry)
	rec = func(cur []c08PEntry) {
		yield(&c08Case{Prof: append([]c08PEntry{}, cur...), MaxCert: maxC})
		if len(cur) == maxP {
			return
		}
		for _, e := range entries {
			rec(append(cur, e))
		}
	}
	rec(nil)
	if tier != "thorough" {
		// quick: also the profile lists of length 3 whose entries are not optional (thorough has all of length 3)
		for _, a := range entries {
			for _, b := range entries {
				for _, c := range entries {
					if !a.Opt && !b.Opt && !c.Opt {
						yield(&c08Case{Prof: []c08PEntry{a, b, c}, MaxCert: maxC})
					}
				}
			}
		}
	}
	// long certificate lists: the entries a profile entry has to find stand behind 60..256 others
	longProfiles := [][]c08PEntry{
		{{1, 1, false, true}}, {{1, 1, false, false}}, {{1, 2, false, true}, {1, 1, false, false}}, {{1, 2, true, false}, {1, 1, false, true}},
		{{0, 1, false, true}, {1, 1, false, true}}, {{1, 0, false, true}, {1, 0, false, true}},
	}
	for _, n := range []int{31, 32, 33, 62, 63, 64, 65, 66, 70, 127, 128, 129, 255, 256, 257} {
		var cl [][2]int
		for i := 0; i < n; i++ {
			cl = append(cl, [2]int{0, 1 + i%2})
		}
		cl = append(cl, [2]int{1, 2}, [2]int{1, 1})
		for _, p := range longProfiles {
			yield(&c08Case{Prof: p, Cert: cl})
		}
	}
	c08PipeEnumerate(tier, yield)
}

func c08CertLists(max int, f func(l [][2]int)) {
	var rec func(cur [][2]int)
	rec = func(cur [][2]int) {
		f(cur)
		if len(cur) == max {
			return
		}
		for o := 0; o < 2; o++ {
			for c := 0; c < 3; c++ {
				rec(append(cur, [2]int{o, c}))
			}
		}
	}
	rec(nil)
}

func c08Exec(x *engine.Ctx, cc any) {
	c := cc.(*c08Case)
	if c.Pipe != nil {
		c08PipeExec(x, c.Pipe)
		return
	}
	// build profile once per case
	mkProfile := func() (config.CertificateProfile, []refcfg.MergeItem) {
		p := config.CertificateProfile{Name: "p"}
		var items []refcfg.MergeItem
		for i, e := range c.Prof {
			p.Extensions = append(p.Extensions, config.ProfileExtension{
				ExtensionConfig:  hExt{O: e.O, C: e.C, ID: fmt.Sprintf("p%d", i)},
				ExtensionProfile: config.ExtensionProfile{Optional: e.Opt, Override: e.Ovr}})
			items = append(items, refcfg.MergeItem{OID: fmt.Sprint(e.O), Content: fmt.Sprint(e.C), Optional: e.Opt, Override: e.Ovr, Ref: i, FromProf: true})
		}
		return p, items
	}
	one := func(cl [][2]int) {
		prof, pitems := mkProfile()
		profCopy := append([]config.ProfileExtension{}, prof.Extensions...)
		content := config.CertificateContent{Alias: "a", Profile: "p"}
		var citems []refcfg.MergeItem
		for i, e := range cl {
			content.Extensions = append(content.Extensions, hExt{O: e[0], C: e[1], ID: fmt.Sprintf("c%d", i)})
			citems = append(citems, refcfg.MergeItem{OID: fmt.Sprint(e[0]), Content: fmt.Sprint(e[1]), Ref: i})
		}
		certCopy := append([]config.ExtensionConfig{}, content.Extensions...)
		out, err := config.Merge(prof, content)
		if err != nil {
			x.ViolationCase("C08/merge/error", err.Error(), &c08Case{Prof: c.Prof, Cert: cl})
			return
		}
		want := refcfg.RefMerge(pitems, citems)
		got := make([]string, len(out.Extensions))
		for i, e := range out.Extensions {
			got[i] = e.(hExt).ID
		}
		wantIDs := make([]string, len(want))
		for i, m := range want {
			if m.FromProf {
				wantIDs[i] = fmt.Sprintf("p%d", m.Ref)
			} else {
				wantIDs[i] = fmt.Sprintf("c%d", m.Ref)
			}
		}
		if fmt.Sprint(got) != fmt.Sprint(wantIDs) {
			x.ViolationCase(c08Class(c.Prof, cl, wantIDs, got),
				fmt.Sprintf("profile %s, certificate %v (pairs are [oid content]; content 0 = none):\n  reference merge = %v\n  config.Merge    = %v", c08ProfStr(c.Prof), cl, wantIDs, got),
				&c08Case{Prof: c.Prof, Cert: cl})
		}
		// purity
		pure := len(prof.Extensions) == len(profCopy) && len(content.Extensions) == len(certCopy)
		if pure {
			for i := range profCopy {
				if prof.Extensions[i] != profCopy[i] {
					pure = false
				}
			}
			for i := range certCopy {
				if content.Extensions[i] != certCopy[i] {
					pure = false
				}
			}
		}
		if !pure || content.Alias != "a" || content.Profile != "p" {
			x.ViolationCase("C08/merge/inputs-modified", fmt.Sprintf("profile %s, certificate %v: inputs changed by Merge", c08ProfStr(c.Prof), cl), &c08Case{Prof: c.Prof, Cert: cl})
		}
		if len(out.Extensions) != len(wantIDs) {
			x.Outcome("len-mismatch")
		} else {
			x.Outcome(fmt.Sprintf("outlen=%d", len(wantIDs)))
		}
	}
	if c.Cert != nil {
		one(c.Cert)
		return
	}
	var n int64
	c08CertLists(c.MaxCert, func(l [][2]int) {
		n++
		one(append([][2]int{}, l...))
	})
	x.Eval(n - 1)
	x.NontrivialN(n)
	x.Transition(n)
}

func c08ProfStr(p []c08PEntry) string {
	s := "["
	for i, e := range p {
		if i > 0 {
			s += " "
		}
		s += fmt.Sprintf("{oid %d content %d", e.O, e.C)
		if e.Opt {
			s += " optional"
		}
		if e.Ovr {
			s += " override"
		}
		s += "}"
	}
	return s + "]"
}

// c08Class names the first rule that the real merge got wrong.
func c08Class(p []c08PEntry, cl [][2]int, want, got []string) string {
	i := 0
	for i < len(want) && i < len(got) && want[i] == got[i] {
		i++
	}
	w, g := "end", "end"
	if i < len(want) {
		w = want[i][:1]
	}
	if i < len(got) {
		g = got[i][:1]
	}
	return fmt.Sprintf("C08/merge/first-difference want=%s got=%s", w, g)
}

func init() {
	register(&engine.Check{
		ID:          "C08",
		Level:       "model_checking",
		Rule:        "every profile extension list of length <=2 (quick; plus those of length 3 without optional entries) / <=3 (thorough) over 24 entries (OID {A,B} x content {1,2,none} x optional x override) x every certificate extension list of length <=3 / <=4 over 6 entries: real config.Merge on a harness ExtensionConfig type vs. the 15-line reference merge transcribed from the statement, plus input-unchanged comparison; 6 profile lists against certificate lists of 33..259 extensions (the matched entries behind 31..257 others); and the file pipeline with real extension kinds (profile lists <=2 x certificate lists <=2 over 4 kinds): certificate extension list vs. reference, content-less survivor => error and no file; then the same profile shared by three certificates in one run (inheriting everything / the list / the list reversed), each compared with the reference merge of its own list. Pairs distinct by construction; states = profile lists, transitions = Merge calls / runs",
		Bound:       map[string]string{"profile list": "quick<=2 thorough<=3", "certificate list": "quick<=3 thorough<=4", "OIDs": "2", "contents": "2 + none"},
		Assumptions: []string{"'differs' is configuration-entry difference (the statement's wording), modelled by the JSON form of the harness type"},
		Budget:      budgets(quickBudget, thoroughBudget),
		Enumerate:   c08Enumerate,
		NewCase:     func() any { return &c08Case{} },
		Exec: func(x *engine.Ctx, c any) {
			cc := c.(*c08Case)
			x.State(fmt.Sprintf("%v %v", cc.Prof, cc.Pipe))
			c08Exec(x, c)
		},
	})
}
