package checks

import (
	"bytes"
	"crypto/ecdsa"
	"crypto/x509"
	"fmt"
	"sort"
	"strings"

	"github.com/wokdav/gopki/generator/db"

	"verif/mc/drive"
	"verif/mc/engine"
	"verif/mc/refcfg"
	"verif/mc/refx509"
	"verif/mc/simfs"
)

// C10 — re-running sign is a no-op; only planned PEM files are ever written.

type c10Case struct {
	Kind    string `json:"kind"` // rerun | consent
	Hier    int    `json:"hier"`
	Toggles []int  `json:"toggles"`
	Flags   int    `json:"flags"`
	Clock   int    `json:"clock"`
	CLI     bool   `json:"cli,omitempty"`
	Answer  int    `json:"answer,omitempty"`
	// Pre: history before the two runs: 0 fresh directory; 1 settled (default run) + edit root subject;
	// 2 settled + edit last entity's subject; 3 settled + edit last entity's extensions and touch all configs;
	// 4 settled + delete the last entity's artifact
	Pre int `json:"pre,omitempty"`
	// Dir: how the directory is named on the command line (simfs.World.DirForm), consent cases only
	Dir int `json:"dir,omitempty"`
}

var c10ToggleNames = []string{"profile", "relative-validity", "absolute-validity", "manipulations", "imported-key", "csr-leaf", "nested+alias", "same-stem-two-suffixes", "extension-list"}
var c10Answers = []string{"y\n", "n\n", "N\n", "\n", "", "yes\n", "x\n", "y", " y \n"}

var c10Foreign = map[string]string{
	"README.md":     "# pki\n",
	"notes.yaml":    "subject: CN=not a config (no version)\n",
	"broken.yaml":   "version: 1\nsubject: [\n",
	"orphan.pem":    "-----BEGIN CERTIFICATE-----\nAAAA\n-----END CERTIFICATE-----\n",
	"sub/data.json": "{\"k\": [1,2,3]}",
}

// c10Build makes the configs and pre-existing artifacts of a world.
func c10Build(hier int, toggles []int) (*Dir, map[string][]byte) {
	has := func(t int) bool {
		for _, x := range toggles {
			if x == t {
				return true
			}
		}
		return false
	}
	parents := [][]int{{-1}, {-1, 0}, {-1, 0, 1}, {-1, 0, 0}}[hier]
	n := len(parents)
	d := &Dir{}
	pre := map[string][]byte{}
	name := func(i int) string { return fmt.Sprintf("ent%d", i) }
	alias := func(i int) string {
		if has(6) {
			return fmt.Sprintf("alias-%d", i)
		}
		return name(i)
	}
	for i := 0; i < n; i++ {
		// key types by position: two NIST and two brainpool curves (what the standard library can and cannot read)
		cfg := &refcfg.CertCfg{Path: name(i) + ".yaml", Subject: fmt.Sprintf("CN=Entity %d, O=C10", i), KeyAlg: []string{"P-224", "brainpoolP256r1", "P-384", "brainpoolP384t1"}[i%4]}
		if has(6) {
			cfg.Path = fmt.Sprintf("tier%d/deep.d/%s.v2.yml", i, name(i))
			cfg.Alias = alias(i)
		}
		if parents[i] >= 0 {
			cfg.Issuer = alias(parents[i])
		}
		if has(1) {
			// by position: two years, a period of zero length (expired the moment it is issued), a century
			cfg.Validity = &refcfg.Validity{Duration: []string{"2y", "0d", "36500d"}[i%3]}
		}
		if has(2) {
			// current, not yet valid, and expired by design - by position in the hierarchy
			cfg.Validity = []*refcfg.Validity{{From: "2020-01-01", Until: "2040-01-01"}, {From: "2090-03-04", Until: "2095-01-01"}, {From: "2001-01-01", Until: "2002-02-02"}}[i%3]
		}
		if has(1) && has(2) && i%2 == 1 {
			cfg.Validity = &refcfg.Validity{Until: "2041-05-06"}
		}
		if has(8) {
			t := true
			cfg.Exts = []refcfg.Ext{
				{Kind: refcfg.KSAN, SAN: &[]refcfg.GeneralName{{Type: "dns", Name: fmt.Sprintf("Host%d.Example.ORG", i)}, {Type: "mail", Name: "Some.One@Example.ORG"}, {Type: "ip", Name: "10.0.0.1"}}},
				{Kind: refcfg.KBC, Critical: &t, BC: &refcfg.BasicConstraints{Ca: &t, PathLen: refcfg.I(3)}},
				{Kind: refcfg.KAIA, AIA: refcfg.Strs("HTTP://OCSP.Example.ORG/Status#")},
				{Kind: refcfg.KEKU, EKU: refcfg.Strs("clientAuth", "1.2.3.4.5")},
				{Kind: refcfg.KCP, CP: &[]refcfg.Policy{{Oid: "1.2.3.4", Qualifiers: &[]refcfg.Qualifier{{Cps: refcfg.S("HTTP://CPS.Example.ORG/")}}}}},
				{Kind: refcfg.KADM, ADM: &refcfg.Admission{AdmissionAuthority: &refcfg.GeneralName{Type: "url", Name: "LDAP://Kammer.Example.ORG/"}, Admissions: []refcfg.Admissions{{ProfessionInfos: []refcfg.ProfessionInfo{{ProfessionItems: []string{"Ärztin/Arzt"}, ProfessionOids: refcfg.Strs("1.2.276.0.76.4.30")}}}}}},
				{Kind: refcfg.KCustom, CustomOID: "1.2.3.4.5.6", Raw: refcfg.Bin([]byte{4, 2, 0xca, 0xfe})},
			}
		}
		last := i == n-1
		if last && has(0) {
			cfg.Profile = "prof"
		}
		if last && has(3) {
			cfg.Manip = &refcfg.Manip{Version: refcfg.I64(1), SigValue: refcfg.Bin([]byte{1, 2, 3}), TbsPubKeyAlg: refcfg.S("1.2.3.4"), TbsPubKey: refcfg.Bin([]byte{4, 9, 8, 7, 6})}
		}
		if i == 0 && has(4) {
			pre[ArtifactPath(cfg.Path)] = FixtureKeyPEM("P-384-0")
		}
		if last && parents[i] >= 0 && has(5) {
			k, _ := refx509.ParsePKCS8(FixtureKeyDER("P-256-1"))
			pre[ArtifactPath(cfg.Path)] = refx509.EncodePem("CERTIFICATE REQUEST", refx509.BuildCSR(k, "leaf", nil))
		}
		d.Certs = append(d.Certs, cfg)
	}
	if has(7) {
		d.Certs = append(d.Certs,
			&refcfg.CertCfg{Path: "twins/twin.yaml", Alias: "twin-a", Subject: "CN=Twin A, O=C10", KeyAlg: "P-224"},
			&refcfg.CertCfg{Path: "twins/twin.yml", Alias: "twin-b", Subject: "CN=Twin B, O=C10", KeyAlg: "P-224"})
	}
	if has(0) {
		d.Profiles = append(d.Profiles, &refcfg.ProfileCfg{Path: "profiles/prof.yaml", Name: "prof", Validity: &refcfg.Validity{Duration: "1y6m"},
			Exts: []refcfg.Ext{{Kind: refcfg.KSKI, SKI: refcfg.S("hash")}, {Kind: refcfg.KAKI, AKIHash: true}, {Kind: refcfg.KKU, Critical: refcfg.B(true), KU: refcfg.Strs("digitalSignature")}}})
	}
	return d, pre
}

// c10Twin marks classes seen in the world where two entities share one artifact file.
func c10Twin(c *c10Case) string {
	for _, t := range c.Toggles {
		if t == 7 {
			return " same-stem-two-suffixes"
		}
	}
	return ""
}

func c10World(c *c10Case) (*Dir, *simfs.World) {
	d, pre := c10Build(c.Hier, c.Toggles)
	w := simfs.New(c.Clock)
	var fn []string
	for p := range c10Foreign {
		fn = append(fn, p)
	}
	sort.Strings(fn)
	for _, p := range fn {
		w.Put(p, []byte(c10Foreign[p]))
	}
	d.Render(w)
	var pn []string
	for p := range pre {
		pn = append(pn, p)
	}
	sort.Strings(pn)
	for _, p := range pn {
		w.Put(p, pre[p])
	}
	return d, w
}

func c10Enumerate(tier string, yield func(any)) {
	var toggleSets [][]int
	toggleSets = append(toggleSets, []int{})
	for a := 0; a < 7; a++ {
		toggleSets = append(toggleSets, []int{a})
	}
	for a := 0; a < 7; a++ {
		for b := a + 1; b < 7; b++ {
			toggleSets = append(toggleSets, []int{a, b})
		}
	}
	// two configurations with different aliases whose files differ only in the suffix (one artifact file)
	toggleSets = append(toggleSets, []int{7})
	// every entity carries a list of extensions with mixed-case names (nothing the build does to them may reach the stored hash)
	toggleSets = append(toggleSets, []int{8})
	for a := 0; a < 7; a++ {
		toggleSets = append(toggleSets, []int{a, 8})
	}
	if tier == "thorough" {
		for a := 0; a < 7; a++ {
			for b := a + 1; b < 7; b++ {
				for c := b + 1; c < 7; c++ {
					toggleSets = append(toggleSets, []int{a, b, c})
					for d := c + 1; d < 7; d++ {
						toggleSets = append(toggleSets, []int{a, b, c, d})
					}
				}
			}
		}
		toggleSets = append(toggleSets, []int{0, 1, 2, 3, 4, 5, 6})
	}
	for hier := 0; hier < 4; hier++ {
		for ti, ts := range toggleSets {
			for flags := 0; flags < 16; flags++ {
				for clock := 0; clock < 3; clock++ {
					yield(&c10Case{Kind: "rerun", Hier: hier, Toggles: ts, Flags: flags, Clock: clock})
				}
				// the same after a history: settled directory + one edit
				if len(ts) <= 1 || tier == "thorough" {
					for pre := 1; pre <= 4; pre++ {
						yield(&c10Case{Kind: "rerun", Hier: hier, Toggles: ts, Flags: flags, Clock: (pre + flags) % 2, Pre: pre})
					}
				}
				// the binary on a native directory: all flag sets on the single/zero-toggle worlds, a diagonal on the rest
				if len(ts) <= 1 || (tier == "thorough" && (flags+ti)%4 == 0) || (tier != "thorough" && flags == (ti+hier)%16) {
					yield(&c10Case{Kind: "rerun", Hier: hier, Toggles: ts, Flags: flags, Clock: 0, CLI: true})
				}
			}
		}
	}
	// certificates that are re-issued to the very same bytes
	for flags := 0; flags < 16; flags++ {
		for clock := 0; clock < 3; clock++ {
			yield(&c10Case{Kind: "deterministic", Flags: flags, Clock: clock})
		}
	}
	// the last entity's artifact is a symbolic link to a key kept in another directory (native filesystem only)
	for hier := 0; hier < 4; hier++ {
		for flags := 0; flags < 16; flags++ {
			yield(&c10Case{Kind: "linked", Hier: hier, Toggles: []int{}, Flags: flags})
		}
	}
	for hier := 0; hier < 4; hier++ {
		for a := range c10Answers {
			yield(&c10Case{Kind: "consent", Hier: hier, Toggles: []int{}, Answer: a})
			yield(&c10Case{Kind: "consent", Hier: hier, Toggles: []int{0, 6}, Answer: a})
			if a < 2 {
				// the directory named in other ways: relative, ./dir/, "." from inside, through a link
				for dir := 1; dir <= 4; dir++ {
					yield(&c10Case{Kind: "consent", Hier: hier, Toggles: []int{0, 6}, Answer: a, Dir: dir})
				}
			}
			if hier > 0 {
				// the entity to be replaced holds a certificate but no private key (request-based / key stripped)
				yield(&c10Case{Kind: "consent", Hier: hier, Toggles: []int{5}, Answer: a, Pre: 1})
				yield(&c10Case{Kind: "consent", Hier: hier, Toggles: []int{}, Answer: a, Pre: 2})
				for pre := 3; pre <= 7; pre++ {
					yield(&c10Case{Kind: "consent", Hier: hier, Toggles: []int{}, Answer: a, Pre: pre})
				}
			}
		}
	}
}

func c10Desc(c *c10Case) string {
	var t []string
	for _, x := range c.Toggles {
		t = append(t, c10ToggleNames[x])
	}
	return fmt.Sprintf("hierarchy=%d toggles=[%s] flags=%s clock=%d cli=%v history=%d", c.Hier, strings.Join(t, ","), c10FlagStr(c.Flags), c.Clock, c.CLI, c.Pre)
}

func c10FlagStr(f int) string {
	var s []string
	for _, p := range []struct {
		b int
		n string
	}{{1, "m"}, {2, "e"}, {4, "o"}, {8, "c"}} {
		if f&p.b != 0 {
			s = append(s, p.n)
		}
	}
	if len(s) == 0 {
		return "none"
	}
	return strings.Join(s, "")
}

func c10ToggleClass(c *c10Case) string {
	var t []string
	for _, x := range c.Toggles {
		t = append(t, c10ToggleNames[x])
	}
	if len(t) == 0 {
		return "baseline"
	}
	return strings.Join(t, "+")
}

func c10Exec(x *engine.Ctx, cc any) {
	c := cc.(*c10Case)
	if c.Kind == "deterministic" {
		c10Deterministic(x, c)
		return
	}
	if c.Kind == "linked" {
		c10Linked(x, c)
		return
	}
	if c.Kind == "consent" {
		c10Consent(x, c)
		return
	}
	d, w := c10World(c)
	if c.Pre > 0 {
		if r := drive.Run(w, drive.Default, nil); !r.OK() {
			x.Outcome("settling run did not succeed (outside C10)")
			return
		}
		last := d.Certs[len(d.Certs)-1]
		switch c.Pre {
		case 1:
			d.Certs[0].Subject += " edited"
			w.Put(d.Certs[0].Path, RenderCfg(d.Certs[0].Path, d.Certs[0].Tree()))
		case 2:
			last.Subject += " edited"
			w.Put(last.Path, RenderCfg(last.Path, last.Tree()))
		case 3:
			last.Exts = append(last.Exts, refcfg.Ext{Kind: refcfg.KOCSP})
			w.Put(last.Path, RenderCfg(last.Path, last.Tree()))
			for _, cfg := range d.Certs {
				w.Touch(cfg.Path)
			}
		case 4:
			w.Remove(ArtifactPath(last.Path))
		}
	}
	x.Nontrivial(c10Desc(c))
	x.State(c10Desc(c))
	strat := db.UpdateStrategy(c.Flags)
	layer := "lib"
	if c.CLI {
		layer = "cli"
	}
	// ---- first run
	before := w.Clone()
	var planned []string
	var ok1 bool
	var sum1 string
	if c.CLI {
		res, err := drive.RunCLI(w, strat, "y\n")
		if err != nil {
			x.Cap("cli: " + err.Error())
			return
		}
		ok1, sum1 = res.Exit == 0, fmt.Sprintf("exit=%d %s", res.Exit, short(res.Stdout, 300))
		x.TraceValidated(1)
	} else {
		res := drive.Run(w, strat, nil)
		ok1, sum1 = res.OK(), res.Summary()+" "+errStr(res.Err())
		planned = res.PlanAliases()
	}
	x.Transition(1)
	if !ok1 {
		// the statement speaks about what follows a successful run; a failing or crashing
		// first run (e.g. an issuer that has a key but no certificate and is not regenerated
		// under these flags) belongs to C20
		_ = sum1
		x.Outcome(layer + " first run did not succeed (outside C10)")
		return
	}
	// only artifacts were written; in the library flow exactly those of the planned entities
	artOf := map[string]string{}
	for _, cfg := range d.Certs {
		artOf[ArtifactPath(cfg.Path)] = AliasOf(cfg)
	}
	changed := map[string]bool{}
	for _, df := range simfs.Diff(before, w) {
		p := df[strings.Index(df, ":")+1:]
		kind := df[:strings.Index(df, ":")]
		if _, isArt := artOf[p]; !isArt {
			x.Violation("C10/wrote-non-artifact/"+layer+" kind="+kind, fmt.Sprintf("%s: %s is not the artifact of any entity", c10Desc(c), df))
			continue
		}
		changed[artOf[p]] = true
	}
	if !c.CLI {
		pl := map[string]bool{}
		for _, a := range planned {
			pl[a] = true
			if !changed[a] {
				x.Violation("C10/planned-not-written/"+layer+c10Twin(c), fmt.Sprintf("%s: entity %s reported as generated but its file did not change", c10Desc(c), a))
			}
		}
		for a := range changed {
			if !pl[a] {
				x.Violation("C10/written-not-planned/"+layer+c10Twin(c), fmt.Sprintf("%s: artifact of %s rewritten without being reported", c10Desc(c), a))
			}
		}
	}
	// ---- second run, same flags, nothing changed in between
	snap := w.Snapshot()
	mid := w.Clone()
	if c.CLI {
		res, err := drive.RunCLI(w, strat, "n\n")
		if err != nil {
			x.Cap("cli: " + err.Error())
			return
		}
		x.TraceValidated(1)
		if res.Exit != 0 {
			x.Violation("C10/second-run-failed/cli", c10Desc(c)+fmt.Sprintf(": exit %d %s", res.Exit, short(res.Stdout, 300)))
		}
		if strings.Contains(res.Stdout, "overwritten") || strings.Contains(res.Stdout, "Proceed") {
			x.Violation("C10/rerun-not-noop/cli wants-to-replace "+c10ToggleClass(c), fmt.Sprintf("%s: second run asks to overwrite: %s", c10Desc(c), short(res.Stdout, 400)))
		}
		if df := simfs.Diff(mid, w); len(df) != 0 {
			x.Violation("C10/rerun-not-noop/cli "+c10ToggleClass(c), fmt.Sprintf("%s: second run changed %v", c10Desc(c), df))
		}
	} else {
		res := drive.Run(w, strat, nil)
		if res.Panic != "" {
			x.Violation("C10/panic/"+res.PanicSite, res.Panic+" "+c10Desc(c))
			return
		}
		if !res.OK() {
			x.Violation("C10/second-run-failed/lib "+c10ToggleClass(c), c10Desc(c)+": "+res.Summary()+" "+errStr(res.Err()))
			return
		}
		if len(res.Plan) != 0 || res.Generated != 0 || len(w.Log) != 0 {
			x.Violation("C10/rerun-not-noop/lib "+c10ToggleClass(c)+" flags-include-missing="+fmt.Sprint(c.Flags&1 != 0), fmt.Sprintf("%s: second run plans %v, generated %d, wrote %d files", c10Desc(c), res.PlanAliases(), res.Generated, len(w.Log)))
		}
		// compare contents and mtimes (the run tick itself is not part of the directory)
		if df := simfs.Diff(mid, w); len(df) != 0 {
			x.Violation("C10/rerun-changed-files/lib "+c10ToggleClass(c), fmt.Sprintf("%s: %v", c10Desc(c), df))
		}
		_ = snap
	}
	x.Transition(1)
	x.Outcome(fmt.Sprintf("%s rerun ok (first run changed %d)", layer, len(changed)))
}

// c10Consent: a replacement is pending; only the answer "y" lets it happen.
func c10Consent(x *engine.Ctx, c *c10Case) {
	c.Clock = 0
	d, w := c10World(c)
	w.DirForm = c.Dir
	x.Nontrivial(fmt.Sprintf("consent %d %v %d %d %d", c.Hier, c.Toggles, c.Answer, c.Pre, c.Dir))
	// fresh directory: nothing is replaced, so no prompt and no need for an answer
	res, err := drive.RunCLI(w, drive.Default, "")
	if err != nil {
		x.Cap("cli: " + err.Error())
		return
	}
	x.TraceValidated(1)
	if res.Exit != 0 {
		x.Violation("C10/consent/first-run-failed", fmt.Sprintf("exit %d %s", res.Exit, short(res.Stdout, 300)))
		return
	}
	if strings.Contains(res.Stdout, "Proceed") {
		x.Violation("C10/consent/prompt-without-replacement", short(res.Stdout, 300))
	}
	for _, cfg := range d.Certs {
		if _, ok := w.Files[ArtifactPath(cfg.Path)]; !ok {
			x.Violation("C10/consent/no-prompt-run-did-not-generate", ArtifactPath(cfg.Path))
			return
		}
	}
	// edit the root's subject: root (and everything below) is to be replaced
	root := d.Certs[0]
	switch c.Pre {
	case 1, 2:
		// only the last entity is to be replaced; with Pre 2 its key block is stripped first
		root = d.Certs[len(d.Certs)-1]
		if c.Pre == 2 {
			p := ArtifactPath(root.Path)
			pf := refx509.SplitPem(w.Files[p].Data)
			nb := []byte("#HASH:" + *pf.HashLine + "\n")
			nb = append(nb, refx509.EncodePem("CERTIFICATE", pf.CertDER)...)
			w.Put(p, nb)
		}
	}
	if c.Pre >= 3 && c.Pre <= 6 {
		// the file that is to be replaced holds its certificate in a layout other tools leave behind
		root = d.Certs[len(d.Certs)-1]
		p := ArtifactPath(root.Path)
		pf := refx509.SplitPem(w.Files[p].Data)
		if pf.HashLine == nil || pf.CertDER == nil || pf.KeyDER == nil {
			x.Outcome("consent: last entity has no complete artifact to decorate")
			return
		}
		hash := []byte("#HASH:" + *pf.HashLine + "\n")
		certB, keyB := refx509.EncodePem("CERTIFICATE", pf.CertDER), refx509.EncodePem("PRIVATE KEY", pf.KeyDER)
		var nb []byte
		switch c.Pre {
		case 3: // blank line at the end
			nb = append(append(append(append(nb, hash...), certB...), keyB...), '\n')
		case 4: // a SEC1 key block (not PKCS#8) in front of the certificate
			k, err := x509.ParsePKCS8PrivateKey(FixtureKeyDER("P-256-0"))
			if err != nil {
				x.Cap("fixture: " + err.Error())
				return
			}
			sec1, _ := x509.MarshalECPrivateKey(k.(*ecdsa.PrivateKey))
			nb = append(append(nb, refx509.EncodePem("EC PRIVATE KEY", sec1)...), certB...)
		case 5: // hash line last
			nb = append(append(append(nb, certB...), keyB...), hash...)
		case 6: // hash line, key first, then certificate, then a remark
			nb = append(append(append(append(nb, hash...), keyB...), certB...), []byte("exported by another tool\n")...)
		}
		w.PutAt(p, nb, w.Files[p].Tick)
	}
	strat2 := drive.Default
	if c.Pre == 7 {
		// the root's artifact is lost; generate-missing is the only flag left on: the root is created and what it
		// issued is replaced with it - replacing needs the user's consent under every flag set
		root = d.Certs[0]
		w.Remove(ArtifactPath(root.Path))
		strat2 = db.UpdateMissing
	} else {
		root.Subject = "CN=Entity renamed, O=C10"
		w.Put(root.Path, RenderCfg(root.Path, root.Tree()))
	}
	before := w.Clone()
	ans := c10Answers[c.Answer]
	res, err = drive.RunCLI(w, strat2, ans)
	if err != nil {
		x.Cap("cli: " + err.Error())
		return
	}
	x.TraceValidated(1)
	diff := simfs.Diff(before, w)
	if !strings.Contains(res.Stdout, "Proceed") {
		x.Violation("C10/consent/no-prompt-before-replacing", fmt.Sprintf("answer %q: stdout %q diff %v", ans, short(res.Stdout, 300), diff))
	}
	switch ans {
	case "y\n":
		if len(diff) == 0 {
			x.Violation("C10/consent/y-did-not-replace", short(res.Stdout, 300))
		}
		x.Outcome("consent y -> replaced")
	case "y", " y \n":
		// accepted by the code after trimming / without newline; the statement only says `y`: not demanded either way
		x.Outcome("consent variant of y (not demanded)")
	default:
		if len(diff) != 0 {
			x.Violation(fmt.Sprintf("C10/consent/replaced-without-y answer=%q", ans), fmt.Sprintf("directory changed: %v; stdout %q", diff, short(res.Stdout, 300)))
		}
		if res.Exit != 0 {
			x.Violation(fmt.Sprintf("C10/consent/exit-nonzero answer=%q", ans), fmt.Sprintf("exit %d", res.Exit))
		}
		x.Outcome("consent refused -> untouched")
	}
}

// c10Deterministic: a hierarchy whose certificates come out byte-identical when re-issued (RSA issuer, configured
// serials, absolute validity, existing keys). The issuer is re-issued after an edit that keeps its name and key, its
// subordinate with it - to the very same bytes. The run after that, with any flag set, must still be a no-op.
func c10Deterministic(x *engine.Ctx, c *c10Case) {
	root := &refcfg.CertCfg{Path: "root.yaml", Subject: "CN=Deterministic Root", KeyAlg: "RSA-2048", SigAlg: "RSAwithSHA256", Serial: refcfg.I64(1),
		Validity: &refcfg.Validity{From: "2020-01-01", Until: "2040-01-01"}}
	leaf := &refcfg.CertCfg{Path: "leaf.yaml", Subject: "CN=Deterministic Leaf", Issuer: "root", KeyAlg: "P-224", SigAlg: "RSAwithSHA256", Serial: refcfg.I64(2),
		Validity: &refcfg.Validity{From: "2020-01-01", Until: "2030-01-01"}}
	d := &Dir{Certs: []*refcfg.CertCfg{root, leaf}}
	w := simfs.New(c.Clock)
	d.Render(w)
	w.Put("root.pem", FixtureKeyPEM("RSA-2048-0"))
	w.Put("leaf.pem", FixtureKeyPEM("P-224-0"))
	x.Nontrivial(fmt.Sprintf("deterministic %d %d", c.Flags, c.Clock))
	if r := drive.Run(w, drive.Default, nil); !r.OK() {
		x.Violation("C10/deterministic/first-run-failed", fmt.Sprintf("%v %s", r.Err(), r.Panic))
		return
	}
	leaf1 := append([]byte{}, w.Files["leaf.pem"].Data...)
	root.Exts = []refcfg.Ext{{Kind: refcfg.KOCSP}}
	w.Put(root.Path, RenderCfg(root.Path, root.Tree()))
	r2 := drive.Run(w, drive.Default, nil)
	x.Transition(2)
	if !r2.OK() || !r2.Planned("root") || !r2.Planned("leaf") {
		x.Outcome("deterministic: the edit did not re-issue both (outside this case)")
		return
	}
	same := bytes.Equal(leaf1, w.Files["leaf.pem"].Data)
	before := w.Clone()
	r3 := drive.Run(w, db.UpdateStrategy(c.Flags), nil)
	x.Transition(1)
	if !r3.OK() || len(r3.Plan) != 0 || len(w.Log) != 0 {
		x.Violation("C10/rerun-not-noop/lib byte-identical-reissue", fmt.Sprintf("flags=%04b clock=%d: root edited (name and key kept) and re-issued together with its subordinate (subordinate's file byte-identical: %v); the run right after that plans %v, wrote %d files (%v)", c.Flags, c.Clock, same, r3.PlanAliases(), len(w.Log), r3.Err()))
		return
	}
	if df := simfs.Diff(before, w); len(df) != 0 {
		x.Violation("C10/rerun-changed-files/lib byte-identical-reissue", fmt.Sprintf("flags=%04b: %v", c.Flags, df))
	}
	x.Outcome(fmt.Sprintf("deterministic re-issue (byte-identical=%v): next run is a no-op", same))
}

// c10Linked: the last entity's artifact is a symbolic link to a key kept elsewhere (command line only).
func c10Linked(x *engine.Ctx, c *c10Case) {
	c.Clock = 0
	d, w := c10World(c)
	last := d.Certs[len(d.Certs)-1]
	w.Put("keystore/last.key", FixtureKeyPEM("P-224-1"))
	w.Symlinks = map[string]string{ArtifactPath(last.Path): "keystore/last.key"}
	x.Nontrivial(fmt.Sprintf("linked %d %v %d", c.Hier, c.Toggles, c.Flags))
	strat := db.UpdateStrategy(c.Flags)
	res, err := drive.RunCLI(w, strat, "y\n")
	if err != nil {
		x.Cap("cli: " + err.Error())
		return
	}
	x.TraceValidated(1)
	if res.Exit != 0 {
		x.Outcome("linked: first run did not succeed (outside C10)")
		return
	}
	for k := 2; k <= 3; k++ {
		before := w.Clone()
		res, err = drive.RunCLI(w, strat, "n\n")
		if err != nil {
			x.Cap("cli: " + err.Error())
			return
		}
		x.TraceValidated(1)
		x.Transition(1)
		if strings.Contains(res.Stdout, "Proceed") || res.Exit != 0 {
			x.Violation("C10/rerun-not-noop/cli linked-artifact", fmt.Sprintf("hierarchy=%d flags=%04b, %s is a link to keystore/last.key: run %d right after a successful run wants to replace something (exit %d): %s", c.Hier, c.Flags, ArtifactPath(last.Path), k, res.Exit, short(res.Stdout, 300)))
			return
		}
		if df := simfs.Diff(before, w); len(df) != 0 {
			x.Violation("C10/rerun-changed-files/cli linked-artifact", fmt.Sprintf("hierarchy=%d flags=%04b run %d: %v", c.Hier, c.Flags, k, df))
			return
		}
	}
	x.Outcome("linked artifact: re-runs are no-ops")
}

func init() {
	register(&engine.Check{
		ID:          "C10",
		Level:       "model_checking",
		Rule:        "4 hierarchies (root; root+sub; 3-tier chain; root+2 subs; keys on P-224, brainpoolP256r1, P-384, brainpoolP384t1 by position) x toggle sets of size <=2 (thorough <=4 and all seven) over {profile, relative validity (2y, a zero-length period, a century by position), absolute validity (current, not yet valid and expired-by-design periods by position), manipulations (version, signature value, key algorithm and key bits of the last entity), imported key, CSR-based leaf, nested directories + explicit aliases; plus a world where two configurations share an artifact file and worlds where every entity carries seven extensions with mixed-case names} x 16 flag sets without generate-all x 3 clock modes (tick per write / one tick per run / the run shares the tick of the last edit before it), 5 foreign files present: run, then run again with the same flags - from the fresh directory and (for the <=1-toggle worlds; all in thorough) after four histories: settled + edit of the root's subject, of the last entity's subject, of its extensions plus touching every config, deletion of its artifact. Second run: empty plan, nothing generated, empty write log, directory identical including mtimes. First run: changed paths = artifact paths of exactly the reported entities, no other path changed or created. The same run;run on the built binary in a native directory for every flag set on the <=1-toggle worlds and a diagonal of the rest; a root (RSA) and a subordinate with configured serials, absolute validity and existing keys: the root is edited (name and key kept), both are re-issued - the subordinate to the same bytes - and the next run under each of the 16 flag sets x 3 clock modes is a no-op; the binary on the 4 plain hierarchies x 16 flag sets with the last entity's artifact being a symbolic link (older than every file) to a key kept in another directory: run, then two more runs that must neither prompt nor change anything; consent: 9 stdin answers on 14 worlds with a pending replacement (the directory named as an absolute path; for y and n also relative, as ./dir/, as . from inside it, and through a symbolic link) (incl. replaced entities that hold a certificate but no private key: request-based, key stripped; and a lost root artifact with generate-missing as the only flag, where what the root issued is replaced along with it) (only `y` replaces, others leave the directory identical and exit 0, no prompt when nothing is replaced). states = worlds, transitions = runs, traces_validated = binary runs",
		Bound:       map[string]string{"toggle set size": "quick<=2 thorough<=4 + all"},
		Assumptions: []string{"answers `y` without newline and ` y ` are accepted by the code; the statement says `y`, so they are not demanded either way"},
		Budget:      budgets(quickBudget, thoroughBudget),
		Enumerate:   c10Enumerate,
		NewCase:     func() any { return &c10Case{} },
		Exec:        c10Exec,
	})
}
