package checks

import (
	"bytes"
	"fmt"
	"strings"
	"time"

	"verif/mc/drive"
	"verif/mc/engine"
	"verif/mc/refcfg"
	"verif/mc/refx509"
	"verif/mc/simfs"
)

// C19 — manipulations alter exactly the named field and stay under the signature.

type c19Case struct {
	// value index per manipulation key; -1 = key absent
	Version int  `json:"version"`
	Outer   int  `json:"outer"`
	SigVal  int  `json:"sigVal"`
	TbsSig  int  `json:"tbsSig"`
	PkAlg   int  `json:"pkAlg"`
	PkBits  int  `json:"pkBits"`
	Sub     bool `json:"sub"`           // subordinate (else root)
	ExtSet  int  `json:"extSet"`        // 0 none, 1 SKI+AKI hash, 2 all kinds
	CSR     bool `json:"csr,omitempty"` // the (subordinate) entity has only a certificate request, no private key
	// Edit: 0 = a single run; 1..6 = first a run with the values given here, then the value of the Edit-th key
	// (1 version .. 6 key bits) is edited to the next value of its alphabet (7 = the key is removed, 8 = the whole block), then a default run
	Edit int `json:"edit,omitempty"`
}

var c19Versions = []int64{0, 1, 2, 3, 255}
var c19OIDs = []string{"1.2.3.4", refx509.OIDSHA256RSA, refx509.OIDSHA256ECDSA, "2.999.1", "1.2.840.010045.04.3.010"} // the last: arcs written with leading zeros are decimal numbers

func c19Bytes() []*refcfg.Raw {
	// the last: a value whose base64 text begins with letters of the word "binary" (barn...)
	return []*refcfg.Raw{refcfg.Empty(), refcfg.Null(), refcfg.Bin([]byte{1, 2, 3, 4}), refcfg.Bin(bytes.Repeat([]byte{0x42, 0x99}, 50)), refcfg.Bin([]byte{0x6d, 0xaa, 0xe7, 1, 2, 3})}
}

// c19Edited: the manipulation values are edited after a first run; the next default run must issue the
// certificate with the values now in the file.
func c19Edited(x *engine.Ctx, c *c19Case) {
	pre := func(w *simfs.World) {
		w.Put("ent.pem", FixtureKeyPEM("RSA-1024-0"))
		if c.Sub {
			w.Put("ca.pem", FixtureKeyPEM("RSA-2048-0"))
		}
		if c.ExtSet == 1 {
			w.Put("kid.pem", FixtureKeyPEM("P-224-0"))
		}
	}
	d0, _ := c19Dir(c, true)
	g := Generate(d0, pre, drive.Default)
	x.Nontrivial(fmt.Sprintf("edited %+v", *c))
	if !g.Res.OK() {
		x.Violation("C19/edited/first-run-failed", fmt.Sprintf("%v %s", g.Res.Err(), g.Res.Panic))
		return
	}
	c2 := *c
	dims := []int{len(c19Versions), len(c19OIDs), len(c19Bytes()), len(c19OIDs), len(c19OIDs), len(c19Bytes())}
	idx := []*int{&c2.Version, &c2.Outer, &c2.SigVal, &c2.TbsSig, &c2.PkAlg, &c2.PkBits}
	what := ""
	switch {
	case c.Edit >= 1 && c.Edit <= 6:
		*idx[c.Edit-1] = (*idx[c.Edit-1] + 1) % dims[c.Edit-1]
		what = fmt.Sprintf("value of key #%d changed", c.Edit)
	case c.Edit == 7:
		c2.PkBits = -1
		what = "key-bits entry removed"
	case c.Edit == 8:
		c2.Version, c2.Outer, c2.SigVal, c2.TbsSig, c2.PkAlg, c2.PkBits = -1, -1, -1, -1, -1, -1
		what = "whole block removed"
	}
	d1, ent := c19Dir(&c2, c.Edit != 8)
	g.W.Put(ent.Path, RenderCfg(ent.Path, ent.Tree()))
	t0 := time.Now().Unix()
	res := drive.Run(g.W, drive.Default, nil)
	g2 := &GenResult{W: g.W, Res: res, RunStart: t0, RunEnd: time.Now().Unix()}
	feat := map[bool]string{true: "subordinate", false: "root"}[c.Sub]
	if !res.OK() {
		x.Violation("C19/edited/run-failed ["+feat+"]", fmt.Sprintf("%s: %v %s", what, res.Err(), res.Panic))
		return
	}
	for _, alias := range []string{"ent", "kid"} {
		if d1.Cert(alias) == nil {
			continue
		}
		diffs, _, err := g2.CompareEntity(d1, alias, "")
		if err != nil {
			x.Violation("C19/edited/compare ["+feat+"]", err.Error())
			return
		}
		for _, df := range diffs {
			x.Violation("C19/edited/"+strings.TrimPrefix(df.Class, df.Owner+"/")+" ["+feat+"]", fmt.Sprintf("%s, then a default run; %s: %s", what, alias, short(df.Detail, 300)))
		}
	}
	x.Outcome("edited manipulations applied")
}

func c19Enumerate(tier string, yield func(any)) {
	// a block with all six keys, one of them edited (or removed) after a first run
	for edit := 1; edit <= 8; edit++ {
		for _, sub := range []bool{false, true} {
			yield(&c19Case{Version: 1, Outer: 0, SigVal: 2, TbsSig: 0, PkAlg: 0, PkBits: 2, Sub: sub, ExtSet: 1, Edit: edit})
			// ... and the same with only the edited key present
			if edit <= 6 {
				v := []int{-1, -1, -1, -1, -1, -1}
				v[edit-1] = 0
				yield(&c19Case{Version: v[0], Outer: v[1], SigVal: v[2], TbsSig: v[3], PkAlg: v[4], PkBits: v[5], Sub: sub, ExtSet: 1, Edit: edit})
			}
		}
	}
	dims := []int{len(c19Versions), len(c19OIDs), len(c19Bytes()), len(c19OIDs), len(c19OIDs), len(c19Bytes())}
	emit := func(v []int) {
		for _, sub := range []bool{false, true} {
			for es := 0; es < 3; es++ {
				yield(&c19Case{Version: v[0], Outer: v[1], SigVal: v[2], TbsSig: v[3], PkAlg: v[4], PkBits: v[5], Sub: sub, ExtSet: es})
			}
		}
		// the key material may also come from a certificate request (subordinates only)
		for es := 0; es < 2; es++ {
			yield(&c19Case{Version: v[0], Outer: v[1], SigVal: v[2], TbsSig: v[3], PkAlg: v[4], PkBits: v[5], Sub: true, ExtSet: es, CSR: true})
		}
	}
	seen := map[string]bool{}
	once := func(v []int) {
		k := fmt.Sprint(v)
		if !seen[k] {
			seen[k] = true
			emit(append([]int{}, v...))
		}
	}
	// all 64 subsets with one value each (value index rotates with the subset)
	for mask := 0; mask < 64; mask++ {
		v := make([]int, 6)
		for k := 0; k < 6; k++ {
			v[k] = -1
			if mask&(1<<uint(k)) != 0 {
				v[k] = (mask + k) % dims[k]
			}
		}
		once(v)
	}
	// every single key with every value
	for k := 0; k < 6; k++ {
		for val := 0; val < dims[k]; val++ {
			v := []int{-1, -1, -1, -1, -1, -1}
			v[k] = val
			once(v)
		}
	}
	if tier == "thorough" {
		// full value product for subsets of size <= 4
		var rec func(k int, v []int, used int)
		rec = func(k int, v []int, used int) {
			if k == 6 {
				once(v)
				return
			}
			v[k] = -1
			rec(k+1, v, used)
			if used < 4 {
				for val := 0; val < dims[k]; val++ {
					v[k] = val
					rec(k+1, v, used+1)
				}
				v[k] = -1
			}
		}
		rec(0, make([]int, 6), 0)
	} else {
		// quick: full value product for pairs
		for a := 0; a < 6; a++ {
			for b := a + 1; b < 6; b++ {
				for va := 0; va < dims[a]; va++ {
					for vb := 0; vb < dims[b]; vb++ {
						if (va+vb)%2 == 1 {
							continue
						}
						v := []int{-1, -1, -1, -1, -1, -1}
						v[a], v[b] = va, vb
						once(v)
					}
				}
			}
		}
	}
}

func c19Manip(c *c19Case) *refcfg.Manip {
	m := &refcfg.Manip{}
	if c.Version >= 0 {
		m.Version = refcfg.I64(c19Versions[c.Version])
	}
	if c.Outer >= 0 {
		m.OuterSigAlg = refcfg.S(c19OIDs[c.Outer])
	}
	if c.SigVal >= 0 {
		m.SigValue = c19Bytes()[c.SigVal]
	}
	if c.TbsSig >= 0 {
		m.TbsSig = refcfg.S(c19OIDs[c.TbsSig])
	}
	if c.PkAlg >= 0 {
		m.TbsPubKeyAlg = refcfg.S(c19OIDs[c.PkAlg])
	}
	if c.PkBits >= 0 {
		m.TbsPubKey = c19Bytes()[c.PkBits]
	}
	return m
}

func c19Dir(c *c19Case, withManip bool) (*Dir, *refcfg.CertCfg) {
	ent := &refcfg.CertCfg{Path: "ent.yaml", Subject: "CN=Manipulated, O=Test", KeyAlg: "RSA-1024", SigAlg: "RSAwithSHA256",
		Serial: refcfg.I64(424242), Validity: &refcfg.Validity{From: "2021-02-03", Until: "2031-04-05"}}
	switch c.ExtSet {
	case 1:
		ent.Exts = []refcfg.Ext{{Kind: refcfg.KSKI, SKI: refcfg.S("hash")}, {Kind: refcfg.KAKI, AKIHash: true}}
	case 2:
		ent.Exts = c02AllKinds()
	}
	if withManip {
		ent.Manip = c19Manip(c)
	}
	d := &Dir{}
	if c.Sub {
		d.Certs = append(d.Certs, &refcfg.CertCfg{Path: "ca.yaml", Subject: "CN=Real Issuer", KeyAlg: "RSA-2048", SigAlg: "RSAwithSHA256",
			Serial: refcfg.I64(1), Validity: &refcfg.Validity{From: "2020-01-01", Until: "2040-01-01"}})
		ent.Issuer = "ca"
	}
	d.Certs = append(d.Certs, ent)
	if c.ExtSet == 1 && !c.CSR {
		// the manipulated entity issues a certificate itself: the child's hashed authority key id follows the
		// key bits the issuer's certificate shows, its issuer name and signature the real name and key
		d.Certs = append(d.Certs, &refcfg.CertCfg{Path: "kid.yaml", Subject: "CN=Issued By The Manipulated One", Issuer: "ent", KeyAlg: "P-224", SigAlg: "RSAwithSHA256",
			Serial: refcfg.I64(77), Validity: &refcfg.Validity{From: "2022-02-03", Until: "2030-04-05"},
			Exts: []refcfg.Ext{{Kind: refcfg.KSKI, SKI: refcfg.S("hash")}, {Kind: refcfg.KAKI, AKIHash: true}}})
	}
	return d, ent
}

func c19Exec(x *engine.Ctx, cc any) {
	c := cc.(*c19Case)
	if c.Edit > 0 {
		c19Edited(x, c)
		return
	}
	pre := func(w *simfs.World) {
		if c.CSR {
			k, _ := refx509.ParsePKCS8(FixtureKeyDER("RSA-1024-0"))
			w.Put("ent.pem", refx509.EncodePem("CERTIFICATE REQUEST", refx509.BuildCSR(k, "manipulated", nil)))
		} else {
			w.Put("ent.pem", FixtureKeyPEM("RSA-1024-0"))
		}
		if c.Sub {
			w.Put("ca.pem", FixtureKeyPEM("RSA-2048-0"))
		}
		if c.ExtSet == 1 && !c.CSR {
			w.Put("kid.pem", FixtureKeyPEM("P-224-0"))
		}
	}
	dBase, _ := c19Dir(c, false)
	dMan, ent := c19Dir(c, true)
	gb := Generate(dBase, pre, drive.Default)
	gm := Generate(dMan, pre, drive.Default)
	x.Nontrivial(fmt.Sprintf("%+v", *c))
	var keys []string
	m := ent.Manip
	if m.Version != nil {
		keys = append(keys, ".version")
	}
	if m.OuterSigAlg != nil {
		keys = append(keys, ".signatureAlgorithm")
	}
	if m.SigValue != nil {
		keys = append(keys, ".signatureValue")
	}
	if m.TbsSig != nil {
		keys = append(keys, ".tbs.signature")
	}
	if m.TbsPubKeyAlg != nil {
		keys = append(keys, ".tbs.subjectPublicKey.algorithm")
	}
	if m.TbsPubKey != nil {
		keys = append(keys, ".tbs.subjectPublicKey.subjectPublicKey")
	}
	// class feature: role and key source (the key set goes into the detail text)
	feat := map[bool]string{true: "subordinate", false: "root"}[c.Sub]
	if c.CSR {
		feat += " key-from=request"
	}
	keySet := "manipulated: " + strings.Join(keys, ", ")
	if gm.Res.Panic != "" || gb.Res.Panic != "" {
		x.Violation("C19/panic/"+gm.Res.PanicSite+gb.Res.PanicSite, gm.Res.Panic+gb.Res.Panic)
		return
	}
	if !gb.Res.OK() || !gm.Res.OK() {
		x.Violation("C19/run-failed "+feat, fmt.Sprintf("base: %v, manipulated: %v", gb.Res.Err(), gm.Res.Err()))
		return
	}
	ab := ReadArtifact(gb.W, ent.Path)
	am := ReadArtifact(gm.W, ent.Path)
	if ab.Cert == nil || am.Cert == nil {
		x.Violation("C19/undecodable "+feat, fmt.Sprintf("base %v manipulated %v", ab.CertErr, am.CertErr))
		return
	}
	// (1) every field against the reference translation (named fields hold exactly the given value,
	//     hashed key ids follow the manipulated bits, signature verifies over the actual TBS bytes)
	diffs, _, err := gm.CompareEntity(dMan, "ent", "")
	if err != nil {
		x.Violation("C19/compare "+feat, err.Error())
		return
	}
	for _, df := range diffs {
		x.Violation("C19/"+strings.TrimPrefix(df.Class, df.Owner+"/")+" ["+feat+"]", keySet+"\n"+df.Detail)
	}
	if c.ExtSet == 1 && !c.CSR {
		kd, _, err := gm.CompareEntity(dMan, "kid", "")
		if err != nil {
			x.Violation("C19/issued-by-manipulated/compare "+feat, err.Error())
		}
		for _, df := range kd {
			x.Violation("C19/issued-by-manipulated/"+strings.TrimPrefix(df.Class, df.Owner+"/")+" ["+feat+"]", keySet+"\n"+df.Detail)
		}
	}
	// (2) differential: every TBS field other than the named ones is byte-identical to the unmanipulated certificate
	may := map[string]bool{}
	if m.Version != nil {
		may["version"] = true
	}
	if m.TbsSig != nil {
		may["signature"] = true
	}
	if m.TbsPubKeyAlg != nil || m.TbsPubKey != nil {
		may["subjectPublicKeyInfo"] = true
		if c.ExtSet > 0 {
			may["extensions"] = true // hashed key ids follow the manipulated bits (checked in (1))
		}
	}
	names := map[string]bool{}
	for n := range ab.Cert.FieldRaw {
		names[n] = true
	}
	for n := range am.Cert.FieldRaw {
		names[n] = true
	}
	for n := range names {
		if may[n] {
			continue
		}
		if !bytes.Equal(ab.Cert.FieldRaw[n], am.Cert.FieldRaw[n]) {
			x.Violation("C19/collateral-change field="+n+" ["+feat+"]", fmt.Sprintf("%s\nfield %s differs from the unmanipulated certificate:\n  base %x\n  manip %x", keySet, n, ab.Cert.FieldRaw[n], am.Cert.FieldRaw[n]))
		}
	}
	tbsManip := m.Version != nil || m.TbsSig != nil || m.TbsPubKeyAlg != nil || m.TbsPubKey != nil
	if !tbsManip {
		if !bytes.Equal(ab.Cert.TBSRaw, am.Cert.TBSRaw) {
			x.Violation("C19/outer-manipulation-changed-tbs ["+feat+"]", "TBS bytes differ although only outer fields are manipulated")
		}
		if m.SigValue == nil && !bytes.Equal(ab.Cert.Sig.Bytes, am.Cert.Sig.Bytes) {
			x.Violation("C19/outer-manipulation-changed-signature ["+feat+"]", "RSA PKCS#1 v1.5 signature over identical TBS bytes differs")
		}
	}
	if m.OuterSigAlg == nil && !bytes.Equal(ab.Cert.OuterSig.Raw, am.Cert.OuterSig.Raw) {
		x.Violation("C19/collateral-change field=signatureAlgorithm ["+feat+"]", "")
	}
	// (3) signature over the manipulated bytes with the REAL issuer key (also for self-signed roots
	//     whose certificate no longer carries the real key)
	if m.SigValue == nil {
		var signer *refx509.PrivateKey
		if c.Sub {
			signer = ReadArtifact(gm.W, "ca.yaml").Key
		} else {
			signer = am.Key
		}
		if signer == nil {
			x.Violation("C19/no-signer-key ["+feat+"]", "")
		} else if err := refx509.VerifyWith(signer.Public(), refx509.OIDSHA256RSA, am.Cert.TBSRaw, am.Cert.Sig); err != nil {
			x.Violation("C19/signature-not-over-manipulated-tbs ["+feat+"]", err.Error())
		}
	}
	// the private key on disk is untouched by key manipulations
	if c.CSR {
		if am.Pem.NumKeys != 0 || am.Pem.ReqDER == nil || !bytes.Equal(am.Pem.ReqDER, ab.Pem.ReqDER) {
			x.Violation("C19/request-changed ["+feat+"]", "")
		}
	} else if am.Key == nil || ab.Key == nil || am.Key.Ident() != ab.Key.Ident() {
		x.Violation("C19/private-key-changed ["+feat+"]", "")
	}
	x.Outcome(fmt.Sprintf("compared nkeys=%d", len(keys)))
}

func init() {
	register(&engine.Check{
		ID:          "C19",
		Level:       "exploration",
		Rule:        "all 64 subsets of the six manipulation keys (one value each), every single key with every value (version {0,1,2,3,255}; OIDs {1.2.3.4, sha256WithRSA, ecdsa-with-SHA256, 2.999.1, an OID whose arcs are written with leading zeros}; byte fields {!empty,!null,4 B,100 B, 6 B whose base64 text begins with letters of the prefix}), value products for pairs (quick, half) / for all subsets of size <=4 (thorough), each x {root, subordinate, subordinate whose key material is a certificate request} x extension set {none, SKI+AKI hash, all kinds}; with the SKI+AKI set the manipulated entity also issues a certificate with hashed key ids, compared with the reference as well. Plus 28 histories in which a value of the block is edited (or the key bits entry / the whole block removed) after a first run and a default run follows: the certificate and the one it issues carry the values now in the file. Existing RSA keys, configured serial and absolute dates make the certificate deterministic: it is compared (1) field by field with the reference translation, (2) differentially with the same configuration without the block (every other TBS field byte-identical; outer-only manipulations leave TBS and RSA signature identical), (3) signature verified over the actual TBS bytes with the real issuer key. non-trivial = distinct case",
		Bound:       map[string]string{"subset size with full value product": "quick 2 (half), thorough 4"},
		Assumptions: []string{"RSA PKCS#1 v1.5 signing is deterministic"},
		Budget:      budgets(quickBudget, thoroughBudget),
		Enumerate:   c19Enumerate,
		NewCase:     func() any { return &c19Case{} },
		Exec:        c19Exec,
	})
}
