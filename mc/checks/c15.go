package checks

import (
	"fmt"
	"strings"
	"time"

	"verif/mc/drive"
	"verif/mc/engine"
	"verif/mc/refcfg"
	"verif/mc/refx509"
	"verif/mc/simfs"
)

// C15 — a run interrupted at any write is repaired by the next run.

type c15Case struct {
	Hier    int `json:"hier"`    // 0 root->sub->leaf, 1 root->{sub1->leaf, sub2}
	History int `json:"history"` // index into c15Histories
	Clock   int `json:"clock"`
	K       int `json:"k"`    // which write of the faulted run
	Kind    int `json:"kind"` // simfs.Fault*
	Step    int `json:"step"` // interior offsets every Step bytes (0 = boundaries only)
	// replay of a single fault (sequence)
	F1    *simfs.Fault `json:"f1,omitempty"`
	F2    *simfs.Fault `json:"f2,omitempty"`
	Two   bool         `json:"two,omitempty"` // enumerate a second fault in the recovery run
	K2    int          `json:"k2,omitempty"`
	Kind2 int          `json:"kind2,omitempty"`
	// CLIErr > 0: the built binary on a native directory in which the artifact of entity CLIErr-1 cannot be written
	// (a directory stands in its place): the process reports failure; once the obstacle is gone the next run repairs
	CLIErr int `json:"cliErr,omitempty"`
}

func c15CLIWriteError(x *engine.Ctx, c *c15Case) {
	names := []string{"root", "sub", "leaf"}
	d := &Dir{}
	for i, n := range names {
		cfg := &refcfg.CertCfg{Path: n + ".yaml", Subject: "CN=" + n, KeyAlg: "P-224"}
		if i > 0 {
			cfg.Issuer = names[i-1]
		}
		d.Certs = append(d.Certs, cfg)
	}
	w := simfs.New(simfs.TickPerWrite)
	d.Render(w)
	victim := names[c.CLIErr-1]
	w.Put(victim+".pem/placeholder.txt", []byte("a directory where the artifact belongs\n"))
	x.Nontrivial(fmt.Sprintf("cli-write-error %d", c.CLIErr))
	res, err := drive.RunCLI(w, drive.Default, "y\n")
	if err != nil {
		x.Cap("cli: " + err.Error())
		return
	}
	x.TraceValidated(1)
	if res.Exit == 0 {
		x.Violation("C15/write-error-reported-as-success/cli", fmt.Sprintf("the artifact of %s cannot be written (a directory stands in its place), yet the process ended with exit status 0: %s", victim, short(res.Stdout+res.Stderr, 300)))
	}
	w.Remove(victim + ".pem/placeholder.txt")
	res, err = drive.RunCLI(w, drive.Default, "y\n")
	if err != nil {
		x.Cap("cli: " + err.Error())
		return
	}
	x.TraceValidated(1)
	if res.Exit != 0 {
		x.Violation("C15/recovery-run-failed/cli after-write-error", fmt.Sprintf("exit %d: %s", res.Exit, short(res.Stdout+res.Stderr, 300)))
		return
	}
	var prev *Artifact
	for _, cfg := range d.Certs {
		a := ReadArtifact(w, cfg.Path)
		if a.Cert == nil || a.Key == nil {
			x.Violation("C15/after-recovery/incomplete/cli after-write-error", fmt.Sprintf("%s: certificate=%v key=%v", cfg.Path, a.Cert != nil, a.Key != nil))
			return
		}
		if prev != nil {
			if err := VerifyChainLink(a.Cert, prev.Cert); err != nil {
				x.Violation("C15/after-recovery/chain/cli after-write-error", fmt.Sprintf("%s: %v", cfg.Path, err))
			}
		}
		prev = a
	}
	x.Outcome("cli write error reported, repaired by the next run")
}

var c15Histories = []string{"initial run", "settled + edit root subject", "settled + edit sub subject", "settled + edit leaf subject", "settled + strip root key", "settled + generate-all", "settled + profile edit"}

func c15Initial(hier, clock int) *hstate {
	d := &Dir{}
	mk := func(name, issuer string) *refcfg.CertCfg {
		return &refcfg.CertCfg{Path: name + ".yaml", Subject: "CN=" + name + " A", Issuer: issuer, KeyAlg: "P-224", Profile: "p"}
	}
	if hier == 0 {
		d.Certs = []*refcfg.CertCfg{mk("root", ""), mk("sub", "root"), mk("leaf", "sub")}
	} else {
		d.Certs = []*refcfg.CertCfg{mk("root", ""), mk("sub", "root"), mk("leaf", "sub"), mk("sub2", "root")}
		// one entity under an explicit alias that differs from its file stem, one in a dotted sub-directory
		d.Certs[3].Path, d.Certs[3].Alias = "branch/second-sub.yaml", "sub2"
		d.Certs[2].Path = "ee.d/leaf.yml"
	}
	d.Profiles = []*refcfg.ProfileCfg{{Path: "prof.yaml", Name: "p", Exts: []refcfg.Ext{{Kind: refcfg.KSKI, SKI: refcfg.S("hash")}, {Kind: refcfg.KAKI, AKIHash: true}, {Kind: refcfg.KEKU, EKU: refcfg.Strs("clientAuth")}}}}
	w := simfs.New(clock)
	d.Render(w)
	return &hstate{D: d, W: w}
}

// c15Before builds the state right before the faulted run and the strategy of that run.
func c15Before(c *c15Case) (*hstate, int, error) {
	s := c15Initial(c.Hier, c.Clock)
	strat := 9
	if c.History == 0 {
		return s, strat, nil
	}
	if r := drive.Run(s.W, drive.Default, nil); !r.OK() {
		return nil, 0, fmt.Errorf("settling run failed: %v %s", r.Err(), r.Panic)
	}
	edit := func(alias string) {
		cfg := s.D.Cert(alias)
		cfg.Subject = "CN=" + alias + " B"
		s.rewrite(cfg)
	}
	switch c.History {
	case 1:
		edit("root")
	case 2:
		edit("sub")
	case 3:
		edit("leaf")
	case 4:
		p := "root.pem"
		q := refx509.SplitPem(s.W.Files[p].Data)
		nb := []byte("#HASH:" + *q.HashLine + "\n")
		nb = append(nb, refx509.EncodePem("CERTIFICATE", q.CertDER)...)
		s.W.Put(p, nb)
	case 5:
		strat = 16 | 9
	case 6:
		pr := s.D.Profiles[0]
		pr.Exts[2].EKU = refcfg.Strs("serverAuth")
		s.W.Put(pr.Path, RenderCfg(pr.Path, pr.Tree()))
	}
	return s, strat, nil
}

func c15Enumerate(tier string, yield func(any)) {
	for e := 1; e <= 3; e++ {
		yield(&c15Case{CLIErr: e})
	}
	step := 32
	if tier == "thorough" {
		step = 1
	}
	for hier := 0; hier < 2; hier++ {
		for h := range c15Histories {
			for clock := 0; clock < 2; clock++ {
				for k := 0; k < 4; k++ {
					for kind := 1; kind <= 4; kind++ {
						st := step
						if tier == "thorough" && !(hier == 0 && clock == 0) {
							st = 8
						}
						yield(&c15Case{Hier: hier, History: h, Clock: clock, K: k, Kind: kind, Step: st})
					}
					// two-fault sequences at block-boundary granularity
					if tier == "thorough" || (hier == 0 && clock == 0) {
						for kind := 1; kind <= 4; kind++ {
							for k2 := 0; k2 < 4; k2++ {
								for kind2 := 1; kind2 <= 4; kind2++ {
									yield(&c15Case{Hier: hier, History: h, Clock: clock, K: k, Kind: kind, Two: true, K2: k2, Kind2: kind2})
								}
							}
						}
					}
				}
			}
		}
	}
}

// c15Faults lists the concrete faults of one (k, kind): offset-independent kinds once,
// prefix kinds at every block boundary +-1 and every Step-th byte.
func c15Faults(k, kind, step int) []simfs.Fault {
	if kind == simfs.FaultErrNoWrite || kind == simfs.FaultDieAfter {
		return []simfs.Fault{{K: k, Kind: kind}}
	}
	var out []simfs.Fault
	for b := 1; b <= 3; b++ {
		for _, d := range []int{-1, 0, 1} {
			out = append(out, simfs.Fault{K: k, Kind: kind, Boundary: b, Delta: d})
		}
	}
	if step > 0 {
		for off := 0; off <= 1500; off += step {
			out = append(out, simfs.Fault{K: k, Kind: kind, Prefix: off})
		}
	}
	return out
}

func c15Exec(x *engine.Ctx, cc any) {
	c := cc.(*c15Case)
	if c.CLIErr > 0 {
		c15CLIWriteError(x, c)
		return
	}
	base, strat, err := c15Before(c)
	if err != nil {
		x.Violation("C15/setup-failed", err.Error())
		return
	}
	if c.F1 != nil { // replay
		c15One(x, c, base, strat, *c.F1, c.F2)
		return
	}
	// number of writes of the unfaulted run
	dry := base.clone()
	if r := drive.Run(dry.W, dbStrat(strat), nil); !r.OK() {
		x.Violation("C15/unfaulted-run-failed", fmt.Sprintf("%v %s", r.Err(), r.Panic))
		return
	}
	W := len(dry.W.Log)
	if c.K >= W {
		x.Outcome("no such write in this history")
		return
	}
	maxLen := len(dry.W.Log[c.K].Data)
	var n int64
	for _, f := range c15Faults(c.K, c.Kind, c.Step) {
		if f.Boundary == 0 && f.Prefix > maxLen+40 {
			continue
		}
		if c.Two {
			if f.Boundary == 0 && f.Kind != simfs.FaultErrNoWrite && f.Kind != simfs.FaultDieAfter {
				continue
			}
			for _, f2 := range c15Faults(c.K2, c.Kind2, 0) {
				f2 := f2
				c15One(x, c, base, strat, f, &f2)
				n++
			}
			continue
		}
		c15One(x, c, base, strat, f, nil)
		n++
	}
	x.Eval(n - 1)
	x.NontrivialN(n)
	x.Outcome(fmt.Sprintf("k=%d kind=%d explored", c.K, c.Kind))
}

var c15Count int

const c15CLIEvery = 25

var c15KindNames = []string{"none", "error-no-write", "error-after-prefix", "death-after-prefix", "death-after-write"}

func c15One(x *engine.Ctx, c *c15Case, base *hstate, strat int, f simfs.Fault, f2 *simfs.Fault) {
	s := base.clone()
	replay := &c15Case{Hier: c.Hier, History: c.History, Clock: c.Clock, K: c.K, Kind: c.Kind, F1: &f, F2: f2}
	desc := fmt.Sprintf("hierarchy %d, history %q, clock %d, fault at write #%d: %s boundary=%d delta=%d prefix=%d", c.Hier, c15Histories[c.History], c.Clock, f.K, c15KindNames[f.Kind], f.Boundary, f.Delta, f.Prefix)
	feat := fmt.Sprintf("history=%d kind=%s", c.History, c15KindNames[f.Kind])
	v := func(class, detail string) { x.ViolationCase("C15/"+class+" "+feat, desc+"\n  "+detail, replay) }
	r1 := drive.Run(s.W, dbStrat(strat), []simfs.Fault{f})
	x.Transition(1)
	if r1.Panic != "" {
		v("faulted-run-panicked/"+r1.PanicSite, r1.Panic)
		return
	}
	hit := false
	for _, l := range s.W.Log {
		if l.Err {
			hit = true
		}
	}
	if r1.Died {
		hit = true
	}
	if !hit {
		x.Outcome("fault not reached")
		return
	}
	if !r1.Died && (f.Kind == simfs.FaultErrNoWrite || f.Kind == simfs.FaultErrPrefix) && r1.Err() == nil {
		v("write-error-reported-as-success", fmt.Sprintf("the faulted run returned success (generated %d)", r1.Generated))
	}
	if f2 != nil {
		desc += fmt.Sprintf("; then in the recovery run fault at write #%d: %s boundary=%d delta=%d", f2.K, c15KindNames[f2.Kind], f2.Boundary, f2.Delta)
		r := drive.Run(s.W, drive.Default, []simfs.Fault{*f2})
		x.Transition(1)
		if r.Panic != "" {
			v("second-faulted-run-panicked/"+r.PanicSite, r.Panic)
			return
		}
	}
	// binding to the shipped binary: the recovery of every c15CLIEvery-th fault point is also run
	// on the built binary (torn file = truncated file in a native directory)
	c15Count++
	var cliState, cliLinked *hstate
	if (x.Replay || c15Count%c15CLIEvery == 0) && s.W.ClockMode == simfs.TickPerWrite {
		cliState = s.clone()
	}
	// and the recovery of another every c15CLIEvery-th on a native directory whose artifact files are kept in a store
	// directory and linked into place (the interrupted run wrote through the links, which are older than every file)
	if (x.Replay || c15Count%c15CLIEvery == c15CLIEvery/2) && s.W.ClockMode == simfs.TickPerWrite {
		cliLinked = s.clone()
	}
	// recovery: next run with the default flags
	t0 := time.Now().Unix()
	r2 := drive.Run(s.W, drive.Default, nil)
	t1 := time.Now().Unix()
	x.Transition(1)
	if r2.Panic != "" {
		v("recovery-run-panicked/"+r2.PanicSite, r2.Panic)
		return
	}
	if !r2.OK() {
		v("recovery-run-failed", fmt.Sprintf("%v", r2.Err()))
		return
	}
	// every entity complete, every chain verifies, hash-carrying certificates match their configs
	for _, cfg := range s.D.Certs {
		alias := AliasOf(cfg)
		a := ReadArtifact(s.W, cfg.Path)
		if a.Cert == nil || a.Key == nil {
			v("entity-incomplete-after-recovery", fmt.Sprintf("%s: certificate=%v key=%v (%v %v)", alias, a.Cert != nil, a.Key != nil, a.CertErr, a.KeyErr))
			continue
		}
		if a.Pem.Trailing || a.Pem.NumCerts != 1 || a.Pem.NumKeys != 1 {
			v("artifact-malformed-after-recovery", fmt.Sprintf("%s: certs=%d keys=%d trailing=%v", alias, a.Pem.NumCerts, a.Pem.NumKeys, a.Pem.Trailing))
		}
		var issuer *refx509.Cert
		if cfg.Issuer != "" {
			ia := ReadArtifact(s.W, s.D.Cert(cfg.Issuer).Path)
			if ia.Cert == nil {
				continue
			}
			issuer = ia.Cert
		}
		in := refcfg.CmpIn{Cfg: cfg, Prof: s.D.Profile(cfg.Profile), Cert: a.Cert, Issuer: issuer, Loc: time.Local, RunStart: t0, RunEnd: t1, SkipValidity: !r2.Planned(alias)}
		for _, df := range refcfg.Compare(in) {
			v("after-recovery/"+strings.TrimPrefix(df.Class, df.Owner+"/"), fmt.Sprintf("%s: %s", alias, df.Detail))
		}
		if pk, err := a.Cert.PublicKey(); err == nil && !a.Key.SamePublic(pk) {
			v("after-recovery/key-does-not-match-certificate", alias)
		}
	}
	if cliState != nil {
		cres, cerr := drive.RunCLI(cliState.W, drive.Default, "y\n")
		if cerr == nil {
			x.TraceValidated(1)
			if cres.Exit != 0 {
				v("cli-binding/recovery-exit-status", fmt.Sprintf("binary exit %d: %s", cres.Exit, short(cres.Stdout, 300)))
			} else if canonKeyOpt(cliState, false) != canonKeyOpt(s, false) {
				v("cli-binding/recovered-state-differs", fmt.Sprintf("lib: %s\n  cli: %s", short(canonKeyOpt(s, false), 1200), short(canonKeyOpt(cliState, false), 1200)))
			}
		}
	}
	if cliLinked != nil {
		cres, cerr := drive.RunCLILinkedArtifacts(cliLinked.W, drive.Default, "y\n")
		if cerr == nil {
			x.TraceValidated(1)
			x.Info("binary recoveries on linked artifacts", 1)
			if cres.Exit != 0 {
				v("cli-binding/linked-artifacts/recovery-exit-status", fmt.Sprintf("binary exit %d: %s", cres.Exit, short(cres.Stdout, 300)))
			} else if canonKeyOpt(cliLinked, false) != canonKeyOpt(s, false) {
				v("cli-binding/linked-artifacts/recovered-state-differs", fmt.Sprintf("lib: %s\n  cli: %s", short(canonKeyOpt(s, false), 1200), short(canonKeyOpt(cliLinked, false), 1200)))
			}
		}
	}
	// a further run is a no-op
	mid := s.W.Clone()
	r3 := drive.Run(s.W, drive.Default, nil)
	x.Transition(1)
	if r3.Panic != "" || !r3.OK() {
		v("third-run-failed", fmt.Sprintf("%v %s", r3.Err(), r3.Panic))
		return
	}
	if len(r3.Plan) != 0 || len(s.W.Log) != 0 || len(simfs.Diff(mid, s.W)) != 0 {
		v("third-run-not-noop", fmt.Sprintf("plan %v diff %v", r3.PlanAliases(), simfs.Diff(mid, s.W)))
	}
	x.Outcome("recovered " + c15KindNames[f.Kind])
}

func init() {
	register(&engine.Check{
		ID:          "C15",
		Level:       "fault_enumeration",
		Rule:        "2 hierarchies (root->sub->leaf; root->{sub->leaf, sub2} with sub2 under an explicit alias in a sub-directory and leaf in a dotted sub-directory, all under a key-id profile) x 7 histories (initial run; settled + edit root / sub / leaf subject; settled + strip root key; settled + generate-all; settled + profile edit) x 2 clock modes: in the faulted run every write k (all writes of the run) x outcome {error without write, error after a prefix, process death after a prefix, death right after the complete write}; prefix lengths = each PEM-block boundary (hash line, certificate, key) -1/0/+1 and every 32nd byte (quick) / every byte offset for the 3-tier chain with per-write ticks and every 8th byte for the other hierarchy/clock combinations (thorough) of the ~1.2 kB file; two-fault sequences (any fault of the block-boundary alphabet at any write of the recovery run, then a clean run). Oracle: an injected write error makes the run return an error; the next default run succeeds without panic; afterwards every entity has exactly one certificate and key, every certificate verifies under its issuer with byte-equal DN, matches its configuration (reference translation) and its key; a further run is a no-op. non-trivial = fault points reached (distinct by construction); and the built binary on a native directory where the artifact of the root, the intermediate or the leaf cannot be written (a directory stands in its place): exit status non-zero, and once the obstacle is removed the next run completes the chain; the recovery of another every 25th fault point is run by the binary on a native directory whose artifact files are kept in a store directory and linked into place, with the same comparison",
		Bound:       map[string]string{"crash model": "prefixes of a single in-place write (open+truncate+write, no fsync/rename)", "fault sequences": "<=2"},
		Assumptions: []string{"post-power-loss block reordering and concurrent gopki processes are not modelled"},
		Budget:      budgets(quickBudget, thoroughBudget),
		Enumerate:   c15Enumerate,
		NewCase:     func() any { return &c15Case{} },
		Exec: func(x *engine.Ctx, c any) {
			cc := c.(*c15Case)
			x.State(fmt.Sprintf("%d %d %d %d %d %v %d %d", cc.Hier, cc.History, cc.Clock, cc.K, cc.Kind, cc.Two, cc.K2, cc.Kind2))
			c15Exec(x, c)
		},
	})
}
