package checks

import (
	"bytes"
	"encoding/json"
	"fmt"
	"sort"
	"strings"
	"time"

	"github.com/wokdav/gopki/generator/config"
	"github.com/wokdav/gopki/generator/db"
	"github.com/wokdav/gopki/generator/db/filesystem"

	"verif/mc/drive"
	"verif/mc/engine"
	"verif/mc/refcfg"
	"verif/mc/refx509"
	"verif/mc/simfs"
)

// C13 — change detection sees every certificate-relevant edit and nothing else.

type c13Case struct {
	Base  int    `json:"base"`
	Kind  string `json:"kind"` // stability | edits | edit1 | pair
	Edit  int    `json:"edit,omitempty"`
	Edit2 int    `json:"edit2,omitempty"`
}

type c13Base struct {
	Name string
	Cfg  *refcfg.CertCfg
	Prof *refcfg.ProfileCfg
	// KeyFix: the entity's existing key ("" = P-256-0)
	KeyFix string
	// Request: the entity's file holds a certificate request made from that key instead of the key
	Request bool
}

func (b c13Base) keyPEM() []byte {
	if b.Request {
		fix := b.KeyFix
		if fix == "" {
			fix = "P-256-0"
		}
		k, err := refx509.ParsePKCS8(FixtureKeyDER(fix))
		if err != nil {
			panic(err)
		}
		return refx509.EncodePem("CERTIFICATE REQUEST", refx509.BuildCSR(k, "request-based entity", nil))
	}
	if b.KeyFix != "" {
		return FixtureKeyPEM(b.KeyFix)
	}
	return FixtureKeyPEM("P-256-0")
}

func c13Clone(b c13Base) c13Base {
	var out c13Base
	j, _ := json.Marshal(b)
	json.Unmarshal(j, &out)
	return out
}

// c13Profile: kind 0 static validity (from + duration), 1 duration only, 2 until only
func c13Profile(kind int) *refcfg.ProfileCfg {
	v := &refcfg.Validity{From: "2022-02-02", Duration: "3y"}
	switch kind {
	case 1:
		v = &refcfg.Validity{Duration: "3y"}
	case 2:
		v = &refcfg.Validity{Until: "2044-04-04"}
	}
	return &refcfg.ProfileCfg{Path: "prof.yaml", Name: "p", Validity: v,
		Exts: []refcfg.Ext{
			{Kind: refcfg.KBC, Critical: refcfg.B(true), BC: &refcfg.BasicConstraints{Ca: refcfg.B(false)}},
			{Kind: refcfg.KKU, KU: refcfg.Strs("digitalSignature"), Optional: refcfg.B(true)},
			{Kind: refcfg.KSAN, Override: refcfg.B(true), Optional: refcfg.B(true)},
		}}
}

func c13Bases() []c13Base {
	mk := func(name string, f func(c *refcfg.CertCfg)) c13Base {
		c := &refcfg.CertCfg{Path: "ent.yaml", Subject: "CN=Entity, O=Org", Issuer: "ca1", KeyAlg: "P-224"}
		if f != nil {
			f(c)
		}
		return c13Base{Name: name, Cfg: c}
	}
	var out []c13Base
	out = append(out, mk("baseline", nil))
	out = append(out, mk("root", func(c *refcfg.CertCfg) { c.Issuer = "" }))
	{
		// an entity that exists as a certificate request only (no private key in its file)
		b := mk("request-based", func(c *refcfg.CertCfg) { c.KeyAlg = "P-256" })
		b.Request = true
		out = append(out, b)
	}
	out = append(out, mk("alias", func(c *refcfg.CertCfg) { c.Alias = "my-entity" }))
	out = append(out, mk("serial", func(c *refcfg.CertCfg) { c.Serial = refcfg.I64(99) }))
	// an entity that is expired on purpose (its certificate is expired the moment it is issued)
	out = append(out, mk("expired-by-design", func(c *refcfg.CertCfg) { c.Validity = &refcfg.Validity{From: "2001-01-01", Until: "2002-02-02"} }))
	// integers that a float64 cannot tell from their neighbours
	out = append(out, mk("serial-above-2^53", func(c *refcfg.CertCfg) { c.Serial = refcfg.I64(1311768467463790321) }))
	out = append(out, mk("serial-near-2^63", func(c *refcfg.CertCfg) { c.Serial = refcfg.I64(9223372036854775805) }))
	out = append(out, mk("uids", func(c *refcfg.CertCfg) {
		c.IssuerUID, c.SubjectUID = refcfg.Bin([]byte{1, 2}), refcfg.Null()
	}))
	out = append(out, mk("sigalg", func(c *refcfg.CertCfg) { c.SigAlg = "ECDSAwithSHA384" }))
	shapes := []refcfg.Validity{{From: "2021-01-05"}, {Until: "2031-06-07"}, {Duration: "2y"}, {From: "2021-01-05", Until: "2031-06-07"}, {From: "2021-01-05", Duration: "2y3m"}}
	for i := range shapes {
		v := shapes[i]
		out = append(out, mk(fmt.Sprintf("validity-%d", i), func(c *refcfg.CertCfg) { c.Validity = &v }))
	}
	kinds := c02AllKinds()
	for i := range kinds {
		e := kinds[i]
		out = append(out, mk("ext-"+e.Kind, func(c *refcfg.CertCfg) { c.Exts = []refcfg.Ext{e} }))
	}
	out = append(out, mk("ext-raw", func(c *refcfg.CertCfg) {
		c.Exts = []refcfg.Ext{{Kind: refcfg.KKU, Raw: refcfg.Bin([]byte{3, 2, 7, 0x80})}, {Kind: refcfg.KCustom, CustomOID: "1.2.3", Raw: refcfg.Null()}}
	}))
	out = append(out, mk("ext-list", func(c *refcfg.CertCfg) { c.Exts = c02AllKinds()[:5] }))
	out = append(out, mk("manip", func(c *refcfg.CertCfg) {
		c.Manip = &refcfg.Manip{Version: refcfg.I64(1), TbsSig: refcfg.S("1.2.3.4")}
	}))
	// every manipulation key at once on a self-signed RSA entity (identifiers with NULL parameters)
	{
		b := mk("manip-all-rsa-root", func(c *refcfg.CertCfg) {
			c.Issuer, c.KeyAlg, c.SigAlg = "", "RSA-1024", "RSAwithSHA256"
			c.Manip = &refcfg.Manip{Version: refcfg.I64(3), OuterSigAlg: refcfg.S("1.2.3.4"), SigValue: refcfg.Bin([]byte{1, 2, 3}), TbsSig: refcfg.S("1.2.3.5"),
				TbsPubKeyAlg: refcfg.S("1.2.3.6"), TbsPubKey: refcfg.Bin([]byte{9, 9})}
		})
		b.KeyFix = "RSA-1024-0"
		out = append(out, b)
		b2 := mk("manip-outer-sigalg-rsa-root", func(c *refcfg.CertCfg) {
			c.Issuer, c.KeyAlg, c.SigAlg = "", "RSA-1024", "RSAwithSHA384"
			c.Manip = &refcfg.Manip{OuterSigAlg: refcfg.S("1.2.840.113549.1.1.11")}
		})
		b2.KeyFix = "RSA-1024-0"
		out = append(out, b2)
	}
	// the same with a profile
	n := len(out)
	for i := 0; i < n; i++ {
		b := c13Clone(out[i])
		if b.Cfg.Validity != nil && i%2 == 0 {
			continue
		}
		b.Name += "+profile"
		b.Prof = c13Profile(0)
		b.Cfg.Profile = "p"
		if b.Cfg.Validity == nil {
			// certificates that inherit their validity: also from profiles whose validity has no `from`
			for kind := 1; kind <= 2; kind++ {
				b2 := c13Clone(out[i])
				b2.Name += fmt.Sprintf("+profile-relative-validity-%d", kind)
				b2.Prof = c13Profile(kind)
				b2.Cfg.Profile = "p"
				out = append(out, b2)
			}
		}
		if strings.HasPrefix(b.Name, "ext-subjectAlternativeName") || b.Name == "ext-list+profile" {
			// fine: SAN overrides the profile's content-less entry
		} else {
			// make sure the content-less, optional SAN entry of the profile is harmless
		}
		out = append(out, b)
	}
	return out
}

type c13Edit struct {
	Name  string
	Field string
	Apply func(b *c13Base) bool // false = not applicable to this base
}

func c13Edits() []c13Edit {
	var e []c13Edit
	add := func(field, name string, f func(b *c13Base) bool) { e = append(e, c13Edit{name, field, f}) }
	add("subject", "change-value", func(b *c13Base) bool { b.Cfg.Subject = "CN=Entity2, O=Org"; return true })
	add("subject", "add-attribute", func(b *c13Base) bool { b.Cfg.Subject += ", C=DE"; return true })
	add("subject", "reorder", func(b *c13Base) bool { b.Cfg.Subject = "O=Org, CN=Entity"; return true })
	add("issuer", "switch", func(b *c13Base) bool {
		if b.Cfg.Issuer == "" {
			b.Cfg.Issuer = "ca1"
		} else {
			b.Cfg.Issuer = "ca2"
		}
		return true
	})
	add("issuer", "become-root", func(b *c13Base) bool {
		if b.Cfg.Issuer == "" {
			return false
		}
		b.Cfg.Issuer = ""
		return true
	})
	add("keyAlgorithm", "change", func(b *c13Base) bool { b.Cfg.KeyAlg = "P-384"; return true })
	add("keyAlgorithm", "brainpool-size", func(b *c13Base) bool { b.Cfg.KeyAlg = "brainpoolP256r1"; return true })
	add("keyAlgorithm", "brainpool-size2", func(b *c13Base) bool { b.Cfg.KeyAlg = "brainpoolP384r1"; return true })
	add("signatureAlgorithm", "change", func(b *c13Base) bool {
		if b.Cfg.SigAlg == "ECDSAwithSHA512" {
			return false
		}
		b.Cfg.SigAlg = "ECDSAwithSHA512"
		return true
	})
	add("serialNumber", "set-or-change", func(b *c13Base) bool {
		if b.Cfg.Serial == nil {
			b.Cfg.Serial = refcfg.I64(5)
		} else {
			b.Cfg.Serial = refcfg.I64(*b.Cfg.Serial + 1)
		}
		return true
	})
	add("serialNumber", "unset", func(b *c13Base) bool {
		if b.Cfg.Serial == nil {
			return false
		}
		b.Cfg.Serial = nil
		return true
	})
	for _, which := range []string{"issuerUniqueId", "subjectUniqueId"} {
		which := which
		get := func(b *c13Base) **refcfg.Raw {
			if which == "issuerUniqueId" {
				return &b.Cfg.IssuerUID
			}
			return &b.Cfg.SubjectUID
		}
		add(which, "set-or-change", func(b *c13Base) bool {
			p := get(b)
			if *p == nil {
				*p = refcfg.Bin([]byte{9})
			} else if (*p).Kind == "binary" {
				*p = refcfg.Bin(append([]byte{7}, (*p).Bytes...))
			} else {
				*p = refcfg.Bin([]byte{9})
			}
			return true
		})
		add(which, "unset", func(b *c13Base) bool {
			p := get(b)
			if *p == nil {
				return false
			}
			*p = nil
			return true
		})
		add(which, "null-vs-empty", func(b *c13Base) bool {
			p := get(b)
			if *p == nil || (*p).Kind != "null" {
				return false
			}
			*p = refcfg.Empty()
			return true
		})
	}
	// validity, on the certificate and on the profile
	for _, where := range []string{"validity", "profile.validity"} {
		where := where
		get := func(b *c13Base, create bool) **refcfg.Validity {
			if where == "validity" {
				return &b.Cfg.Validity
			}
			if b.Prof == nil {
				return nil
			}
			return &b.Prof.Validity
		}
		vedit := func(name string, f func(v *refcfg.Validity) bool) {
			add(where+"."+strings.SplitN(name, "-", 2)[0], name, func(b *c13Base) bool {
				p := get(b, true)
				if p == nil {
					return false
				}
				if *p == nil {
					*p = &refcfg.Validity{}
				}
				return f(*p)
			})
		}
		vedit("from-set-or-change", func(v *refcfg.Validity) bool {
			if v.From == "" {
				v.From = "2020-03-04"
			} else {
				v.From = "2020-03-05"
			}
			return true
		})
		vedit("from-unset", func(v *refcfg.Validity) bool {
			if v.From == "" {
				return false
			}
			v.From = ""
			return true
		})
		vedit("until-set-or-change", func(v *refcfg.Validity) bool {
			if v.Duration != "" {
				return false
			}
			if v.Until == "" {
				v.Until = "2033-03-04"
			} else {
				v.Until = "2033-03-05"
			}
			return true
		})
		vedit("until-unset", func(v *refcfg.Validity) bool {
			if v.Until == "" {
				return false
			}
			v.Until = ""
			return true
		})
		vedit("duration-set-or-change", func(v *refcfg.Validity) bool {
			if v.Until != "" {
				return false
			}
			if v.Duration == "" {
				v.Duration = "7y"
			} else {
				v.Duration = "8y1d"
			}
			return true
		})
		vedit("duration-unset", func(v *refcfg.Validity) bool {
			if v.Duration == "" {
				return false
			}
			v.Duration = ""
			return true
		})
		vedit("until-to-duration", func(v *refcfg.Validity) bool {
			if v.Until == "" {
				return false
			}
			v.Until, v.Duration = "", "10y"
			return true
		})
	}
	// extensions, on the certificate and on the profile
	for _, where := range []string{"extensions", "profile.extensions"} {
		where := where
		get := func(b *c13Base) *[]refcfg.Ext {
			if where == "extensions" {
				return &b.Cfg.Exts
			}
			if b.Prof == nil {
				return nil
			}
			return &b.Prof.Exts
		}
		xedit := func(name string, f func(l *[]refcfg.Ext) bool) {
			add(where, name, func(b *c13Base) bool {
				l := get(b)
				if l == nil {
					return false
				}
				return f(l)
			})
		}
		xedit("flip-critical", func(l *[]refcfg.Ext) bool {
			if len(*l) == 0 {
				return false
			}
			(*l)[0].Critical = refcfg.B(!(*l)[0].IsCritical())
			return true
		})
		xedit("delete-first", func(l *[]refcfg.Ext) bool {
			if len(*l) == 0 {
				return false
			}
			*l = (*l)[1:]
			return true
		})
		xedit("insert-front", func(l *[]refcfg.Ext) bool {
			*l = append([]refcfg.Ext{{Kind: refcfg.KCustom, CustomOID: "1.2.3.99", Raw: refcfg.Bin([]byte{1})}}, *l...)
			return true
		})
		xedit("append", func(l *[]refcfg.Ext) bool {
			*l = append(*l, refcfg.Ext{Kind: refcfg.KOCSP})
			return true
		})
		xedit("swap-first-two", func(l *[]refcfg.Ext) bool {
			if len(*l) < 2 {
				return false
			}
			(*l)[0], (*l)[1] = (*l)[1], (*l)[0]
			return true
		})
		xedit("change-kind-keeping-raw-body", func(l *[]refcfg.Ext) bool {
			for i := range *l {
				e := &(*l)[i]
				if e.Raw != nil && e.Kind != refcfg.KCustom {
					if e.Kind == refcfg.KKU {
						e.Kind = refcfg.KEKU
					} else {
						e.Kind = refcfg.KKU
					}
					return true
				}
			}
			return false
		})
		xedit("content-to-raw-of-other-kind", func(l *[]refcfg.Ext) bool {
			// same raw bytes under two different kinds
			*l = append(*l, refcfg.Ext{Kind: refcfg.KAIA, Raw: refcfg.Bin([]byte{0x30, 0})})
			return true
		})
		xedit("change-custom-oid", func(l *[]refcfg.Ext) bool {
			for i := range *l {
				if (*l)[i].Kind == refcfg.KCustom {
					(*l)[i].CustomOID += ".1"
					return true
				}
			}
			return false
		})
		xedit("change-content", func(l *[]refcfg.Ext) bool {
			if len(*l) == 0 {
				return false
			}
			e := &(*l)[0]
			switch {
			case e.Raw != nil:
				e.Raw = refcfg.Bin(append([]byte{0x55}, e.Raw.Value()...))
			case e.KU != nil:
				e.KU = refcfg.Strs("keyAgreement")
			case e.SAN != nil:
				*e.SAN = append(*e.SAN, refcfg.GeneralName{Type: "dns", Name: "more.example"})
			case e.BC != nil:
				e.BC.PathLen = refcfg.I(7)
			case e.CP != nil:
				(*e.CP)[0].Oid = "1.2.3.77"
			case e.AIA != nil:
				e.AIA = refcfg.Strs("http://other.example")
			case e.AKIHash:
				e.AKIHash, e.AKIBin = false, refcfg.Bin([]byte{1, 2, 3})
			case e.EKU != nil:
				e.EKU = refcfg.Strs("codeSigning")
			case e.ADM != nil:
				e.ADM.Admissions[0].ProfessionInfos[0].ProfessionItems = []string{"Changed"}
			case e.SKI != nil:
				e.SKI, e.Raw = nil, refcfg.Bin([]byte{4, 1, 1})
			default:
				return false
			}
			return true
		})
		if where == "profile.extensions" {
			xedit("flip-optional-of-unmatched", func(l *[]refcfg.Ext) bool {
				for i := range *l {
					e := &(*l)[i]
					if e.Kind == refcfg.KKU {
						e.Optional = refcfg.B(!(e.Optional != nil && *e.Optional))
						return true
					}
				}
				return false
			})
			xedit("flip-override", func(l *[]refcfg.Ext) bool {
				for i := range *l {
					e := &(*l)[i]
					if e.Kind == refcfg.KBC {
						e.Override = refcfg.B(!(e.Override != nil && *e.Override))
						return true
					}
				}
				return false
			})
		}
	}
	// manipulations
	add("manipulations", "set-version", func(b *c13Base) bool {
		if b.Cfg.Manip == nil {
			b.Cfg.Manip = &refcfg.Manip{}
		}
		if b.Cfg.Manip.Version == nil {
			b.Cfg.Manip.Version = refcfg.I64(0)
		} else {
			b.Cfg.Manip.Version = refcfg.I64(*b.Cfg.Manip.Version + 1)
		}
		return true
	})
	for i, k := range []string{".signatureAlgorithm", ".signatureValue", ".tbs.signature", ".tbs.subjectPublicKey.algorithm", ".tbs.subjectPublicKey.subjectPublicKey"} {
		i, k := i, k
		add("manipulations", "set-or-change "+k, func(b *c13Base) bool {
			if b.Cfg.Manip == nil {
				b.Cfg.Manip = &refcfg.Manip{}
			}
			m := b.Cfg.Manip
			oid := func(p **string) {
				if *p == nil {
					*p = refcfg.S("1.2.3.4")
				} else {
					*p = refcfg.S(**p + ".5")
				}
			}
			raw := func(p **refcfg.Raw) {
				if *p == nil {
					*p = refcfg.Bin([]byte{1})
				} else {
					*p = refcfg.Bin(append([]byte{2}, (*p).Value()...))
				}
			}
			switch i {
			case 0:
				oid(&m.OuterSigAlg)
			case 1:
				raw(&m.SigValue)
			case 2:
				oid(&m.TbsSig)
			case 3:
				oid(&m.TbsPubKeyAlg)
			case 4:
				raw(&m.TbsPubKey)
			}
			return true
		})
	}
	add("manipulations", "remove-block", func(b *c13Base) bool {
		if b.Cfg.Manip.Empty() {
			return false
		}
		b.Cfg.Manip = nil
		return true
	})
	add("profile", "detach", func(b *c13Base) bool {
		if b.Prof == nil {
			return false
		}
		b.Cfg.Profile = ""
		return true
	})
	return e
}

// c13Model is the reference certificate model the hash has to be sensitive to.
func c13Model(b c13Base) string {
	var prof *refcfg.ProfileCfg
	if b.Cfg.Profile != "" {
		prof = b.Prof
	}
	subj, _ := refcfg.RefSubject(b.Cfg.Subject)
	v := refcfg.EffectiveValidity(b.Cfg, prof)
	vs := "default"
	if v != nil && (v.From != "" || v.Until != "" || v.Duration != "") {
		vs = fmt.Sprintf("from=%s until=%s duration=%s", v.From, v.Until, v.Duration)
	}
	var exts []string
	for _, e := range refcfg.EffectiveExts(b.Cfg, prof) {
		e := e
		body, _, err := refcfg.Body(&e, refcfg.BodyCtx{OwnKeyBits: []byte("own"), IssuerKeyBits: []byte("issuer")})
		exts = append(exts, fmt.Sprintf("%s crit=%v body=%x err=%v", e.OID(), e.IsCritical(), body, err != nil))
	}
	serial := int64(0)
	if b.Cfg.Serial != nil {
		serial = *b.Cfg.Serial
	}
	sig := b.Cfg.SigAlg
	if sig == "" {
		sig = refcfg.DefaultSigAlg(b.Cfg.KeyAlg)
	}
	uid := func(r *refcfg.Raw) string {
		if r == nil {
			return "-"
		}
		return fmt.Sprintf("%x", r.Value())
	}
	mj, _ := json.Marshal(b.Cfg.Manip)
	if b.Cfg.Manip.Empty() {
		mj = []byte("null")
	}
	return fmt.Sprintf("subj=%v issuer=%s key=%s sig=%s serial=%d iuid=%s suid=%s validity=%s exts=%v manip=%s",
		subj, b.Cfg.Issuer, b.Cfg.KeyAlg, sig, serial, uid(b.Cfg.IssuerUID), uid(b.Cfg.SubjectUID), vs, exts, mj)
}

func c13World(b c13Base) (*Dir, *simfs.World) {
	d := &Dir{Certs: []*refcfg.CertCfg{
		{Path: "ca1.yaml", Subject: "CN=CA One", KeyAlg: "P-224"},
		{Path: "ca2.yaml", Subject: "CN=CA Two", KeyAlg: "P-224"},
		b.Cfg,
	}}
	if b.Prof != nil {
		d.Profiles = []*refcfg.ProfileCfg{b.Prof}
	}
	w := simfs.New(simfs.TickPerWrite)
	d.Render(w)
	w.Put("ca1.pem", FixtureKeyPEM("P-224-0"))
	w.Put("ca2.pem", FixtureKeyPEM("P-224-1"))
	w.Put(ArtifactPath(b.Cfg.Path), b.keyPEM())
	return d, w
}

// c13Hash runs gopki on the base in a fresh world and returns the stored hash line.
func c13Hash(b c13Base) (string, *simfs.World, error) {
	_, w := c13World(b)
	res := drive.Run(w, drive.Default, nil)
	if !res.OK() {
		return "", w, fmt.Errorf("run failed: %v %s", res.Err(), res.Panic)
	}
	a := ReadArtifact(w, b.Cfg.Path)
	if a.Pem == nil || a.Pem.HashLine == nil {
		return "", w, fmt.Errorf("no hash line in %s", ArtifactPath(b.Cfg.Path))
	}
	return *a.Pem.HashLine, w, nil
}

func c13Enumerate(tier string, yield func(any)) {
	bases := c13Bases()
	for i := range bases {
		yield(&c13Case{Base: i, Kind: "stability"})
		if i < 6 {
			yield(&c13Case{Base: i, Kind: "api"})
		}
		yield(&c13Case{Base: i, Kind: "edits"})
	}
	{
		ne := len(c13Edits())
		sel := []int{0, 1, len(bases) / 2}
		if tier == "thorough" {
			sel = nil
			for bi := range bases {
				sel = append(sel, bi)
			}
		}
		for _, bi := range sel {
			for a := 0; a < ne; a++ {
				yield(&c13Case{Base: bi, Kind: "pair", Edit: a})
			}
		}
	}
}

func c13Exec(x *engine.Ctx, cc any) {
	c := cc.(*c13Case)
	bases := c13Bases()
	base := bases[c.Base]
	h0, w0, err := c13Hash(c13Clone(base))
	if err != nil {
		x.Violation("C13/base-run-failed base="+base.Name, err.Error())
		return
	}
	switch c.Kind {
	case "stability":
		c13Stability(x, base, h0, w0)
	case "api":
		c13API(x, base, h0, w0)
	case "edits":
		edits := c13Edits()
		var n int64
		for i := range edits {
			if c13OneEdit(x, c.Base, base, h0, w0, []int{i}) {
				n++
			}
		}
		x.Eval(n)
	case "edit1":
		c13OneEdit(x, c.Base, base, h0, w0, []int{c.Edit})
	case "pair":
		edits := c13Edits()
		if c.Edit2 != 0 {
			c13OneEdit(x, c.Base, base, h0, w0, []int{c.Edit, c.Edit2})
			return
		}
		var n int64
		for j := c.Edit + 1; j < len(edits); j++ {
			if c13OneEdit(x, c.Base, base, h0, w0, []int{c.Edit, j}) {
				n++
			}
		}
		x.Eval(n)
	}
}

func c13OneEdit(x *engine.Ctx, baseIdx int, base c13Base, h0 string, w0 *simfs.World, which []int) bool {
	edits := c13Edits()
	eb := c13Clone(base)
	var names []string
	field := ""
	for _, i := range which {
		if !edits[i].Apply(&eb) {
			return false
		}
		names = append(names, edits[i].Field+":"+edits[i].Name)
		field = edits[i].Field
	}
	replay := &c13Case{Base: baseIdx, Kind: "edit1", Edit: which[0]}
	if len(which) == 2 {
		replay = &c13Case{Base: baseIdx, Kind: "pair", Edit: which[0], Edit2: which[1]}
		field = "pair"
	}
	relevant := c13Model(base) != c13Model(eb)
	key := base.Name + " | " + strings.Join(names, " + ")
	x.Nontrivial(key)
	if !relevant {
		x.Outcome("edit without effect on the certificate (not demanded)")
		return true
	}
	h1, _, err := c13Hash(c13Clone(eb))
	if err != nil {
		// an edit that makes the configuration fail to generate is outside the property
		x.Outcome("edited configuration does not generate")
		return true
	}
	feature := c13Feature(base, eb, names, field)
	if h1 == h0 {
		x.ViolationCase("C13/hash-blind "+feature, fmt.Sprintf("base %q, edit %v changes the certificate model\n  before: %s\n  after:  %s\nbut the stored hash stays %s", base.Name, names, c13Model(base), c13Model(eb), h0), replay)
	}
	// in place: after the edit a -c run regenerates the entity. Only the files whose text changed are
	// written (a profile-only edit leaves the certificate's file older than its artifact), once with a
	// new modification time and once with one older than every artifact (a prepared variant moved in
	// with its time stamp kept): change detection is by content, not by time.
	for vi, old := range []bool{false, true, false, false} {
		// the third and fourth pass repeat the new-time variant with generate-expired (and all four reasons) switched on as well
		strat := drive.Changed
		switch vi {
		case 2:
			strat = drive.Changed | drive.Expired
		case 3:
			strat = drive.Changed | drive.Expired | drive.Missing | drive.Newer
		}
		w := w0.Clone()
		put := func(path string, data []byte) {
			if f, ok := w.Files[path]; ok && bytes.Equal(f.Data, data) {
				return
			}
			if old {
				w.PutAt(path, data, 1)
			} else {
				w.Put(path, data)
			}
		}
		put(eb.Cfg.Path, RenderCfg(eb.Cfg.Path, eb.Cfg.Tree()))
		if eb.Prof != nil {
			put(eb.Prof.Path, RenderCfg(eb.Prof.Path, eb.Prof.Tree()))
		}
		res := drive.Run(w, strat, nil)
		x.Transition(1)
		if res.Panic != "" {
			x.ViolationCase("C13/panic/"+res.PanicSite, res.Panic, replay)
			return true
		}
		if res.Err() != nil {
			x.Outcome("edited configuration fails in place")
			return true
		}
		if !res.Planned(AliasOf(eb.Cfg)) {
			cls := "C13/not-regenerated " + feature
			if old {
				cls += " edited-file-keeps-an-old-time"
			}
			if vi >= 2 {
				cls += " with-generate-expired"
			}
			x.ViolationCase(cls, fmt.Sprintf("base %q, edit %v: a generate-changed run does not regenerate the entity (plan %v)", base.Name, names, res.PlanAliases()), replay)
			continue
		}
		// the hash stored with the re-issued certificate is the one of the configuration it was issued from
		// (what a fresh generation of the edited files stores), so the next run sees no change
		if a := ReadArtifact(w, eb.Cfg.Path); a.Pem == nil || a.Pem.HashLine == nil || *a.Pem.HashLine != h1 {
			got := "none"
			if a.Pem != nil && a.Pem.HashLine != nil {
				got = *a.Pem.HashLine
			}
			x.ViolationCase("C13/stale-hash-after-reissue "+feature, fmt.Sprintf("base %q, edit %v: after the re-issue the artifact stores hash %s; a fresh generation of the same files stores %s (the old configuration had %s)", base.Name, names, got, h1, h0), replay)
		}
		res2 := drive.Run(w, strat, nil)
		x.Transition(1)
		if res2.OK() && res2.Planned(AliasOf(eb.Cfg)) {
			x.ViolationCase("C13/unchanged-after-reissue-seen-as-changed "+feature, fmt.Sprintf("base %q, edit %v: a second generate-changed run without any further edit plans %v", base.Name, names, res2.PlanAliases()), replay)
		}
	}
	x.Outcome("relevant edit")
	return true
}

func c13Feature(base, eb c13Base, names []string, field string) string {
	f := "field=" + field
	if strings.Contains(field, "validity") {
		v := refcfg.EffectiveValidity(base.Cfg, base.Prof)
		from := "absent"
		if v != nil && v.From != "" {
			from = "present"
		}
		v2 := refcfg.EffectiveValidity(eb.Cfg, eb.Prof)
		from2 := "absent"
		if v2 != nil && v2.From != "" {
			from2 = "present"
		}
		f += " from-before=" + from + " from-after=" + from2
	}
	if len(names) == 1 {
		f += " edit=" + strings.ReplaceAll(strings.SplitN(names[0], ":", 2)[1], " ", "-")
	}
	return f
}

// c13API: change detection through the library on one database handle. The settled directory is opened; the stored
// configuration is put again unchanged (a generate-changed plan must stay empty) and then with another subject (the
// entity must be planned, and after BulkUpdate its artifact stores another hash).
func c13API(x *engine.Ctx, base c13Base, h0 string, w0 *simfs.World) {
	w := w0.Clone()
	alias := AliasOf(base.Cfg)
	fsdb := filesystem.NewFilesystemDatabase(w)
	w.BeginRun(nil)
	if err := fsdb.Open(); err != nil {
		x.Violation("C13/api/open-failed", err.Error())
		return
	}
	defer fsdb.Close()
	x.Nontrivial(base.Name + " api")
	cfg, err := fsdb.GetConfig(alias)
	if err != nil || cfg == nil {
		x.Violation("C13/api/no-config", fmt.Sprint(err))
		return
	}
	planned := func(l db.ChangeList) bool {
		for _, ch := range l {
			if ch.Alias == alias {
				return true
			}
		}
		return false
	}
	var perr error
	var plan db.ChangeList
	var panicked string
	guard := func(f func()) {
		defer func() {
			if r := recover(); r != nil {
				panicked = fmt.Sprint(r)
			}
		}()
		f()
	}
	guard(func() {
		if perr = fsdb.PutConfig(alias, *cfg); perr == nil {
			plan, perr = db.PlanBulkUpdate(fsdb, db.UpdateChanged)
		}
	})
	x.Transition(1)
	if panicked != "" || perr != nil {
		x.Violation("C13/api/plan-failed step=same-configuration", fmt.Sprintf("%v %s", perr, panicked))
		return
	}
	if planned(plan) {
		x.Violation("C13/api/unchanged-looks-changed", fmt.Sprintf("base %q: the stored configuration put again as it is, generate-changed plans %v", base.Name, plan))
	}
	nc := *cfg
	subj, err := config.ParseRDNSequence("CN=Edited through the library, O=Org")
	if err != nil {
		x.Cap("subject: " + err.Error())
		return
	}
	nc.Subject = subj
	guard(func() {
		if perr = fsdb.PutConfig(alias, nc); perr == nil {
			plan, perr = db.PlanBulkUpdate(fsdb, db.UpdateChanged)
		}
	})
	x.Transition(1)
	if panicked != "" || perr != nil {
		x.Violation("C13/api/plan-failed step=edited-configuration", fmt.Sprintf("%v %s", perr, panicked))
		return
	}
	if !planned(plan) {
		x.Violation("C13/api/edit-not-seen", fmt.Sprintf("base %q: another subject put through PutConfig on an open database, generate-changed plans %v", base.Name, plan))
		return
	}
	guard(func() { _, perr = db.BulkUpdate(fsdb, plan) })
	x.Transition(1)
	if panicked != "" || perr != nil {
		x.Violation("C13/api/update-failed", fmt.Sprintf("%v %s", perr, panicked))
		return
	}
	if a := ReadArtifact(w, base.Cfg.Path); a.Pem == nil || a.Pem.HashLine == nil || *a.Pem.HashLine == h0 {
		x.Violation("C13/api/stale-hash-after-reissue", fmt.Sprintf("base %q: re-issued under another subject, the artifact still stores %s", base.Name, h0))
	}
	// (what a further plan on the same handle says is not demanded: the handle keeps the hash it read when it was opened;
	// a database opened afresh on the files is what a run sees, and that is checked by the in-place step of every edit)
	x.Outcome("api edit")
}

func c13Stability(x *engine.Ctx, base c13Base, h0 string, w0 *simfs.World) {
	check := func(dim string, b c13Base) {
		h, _, err := c13Hash(b)
		x.Eval(1)
		x.Nontrivial(base.Name + " stability " + dim)
		if err != nil {
			x.Violation("C13/stability/run-failed dim="+dim, fmt.Sprintf("base %q: %v", base.Name, err))
			return
		}
		if h != h0 {
			x.Violation("C13/hash-unstable dim="+dim, fmt.Sprintf("base %q: hash %s under %s, %s originally", base.Name, h, dim, h0))
		}
	}
	// read again (a different time)
	check("time", c13Clone(base))
	// read on another calendar day: for a validity without `from` nothing zone- or date-dependent may
	// enter the hash, so a 26-hour shift of the local zone stands in for "tomorrow"
	var prof *refcfg.ProfileCfg
	if base.Cfg.Profile != "" {
		prof = base.Prof
	}
	if ev := refcfg.EffectiveValidity(base.Cfg, prof); ev == nil || ev.From == "" {
		saved := time.Local
		for _, z := range []struct {
			n   string
			off int
		}{{"UTC-12", -12 * 3600}, {"UTC+14", 14 * 3600}} {
			time.Local = time.FixedZone(z.n, z.off)
			check("calendar-day ("+z.n+")", c13Clone(base))
		}
		// in place: generated "today", looked at "tomorrow" with generate-changed
		time.Local = time.FixedZone("UTC-12", -12*3600)
		if _, wz, err := c13Hash(c13Clone(base)); err == nil {
			time.Local = time.FixedZone("UTC+14", 14*3600)
			res := drive.Run(wz, drive.Changed, nil)
			x.Transition(1)
			if !res.OK() || len(res.Plan) != 0 {
				x.Violation("C13/unchanged-looks-changed next-day", fmt.Sprintf("base %q: generated under UTC-12, re-run under UTC+14 (another calendar day) with generate-changed plans %v (%v)", base.Name, res.PlanAliases(), res.Err()))
			}
		}
		time.Local = saved
	}
	// file name / directory / suffix / JSON form
	for _, p := range []string{"x.yaml", "sub/dir/y.yml", "z.JSON"} {
		b := c13Clone(base)
		if b.Cfg.Alias == "" {
			b.Cfg.Alias = Stem(base.Cfg.Path) // keep the alias, change only the file
		}
		b.Cfg.Path = p
		check("file-name "+p, b)
	}
	// the whole directory under names with more than one dot: pki.v1/ca1.yaml, pki.v1/ca2.yaml, pki.v1/<entity>.v2.yaml
	{
		b := c13Clone(base)
		if b.Cfg.Alias == "" {
			b.Cfg.Alias = Stem(base.Cfg.Path)
		}
		b.Cfg.Path = "pki.v1/" + Stem(base.Cfg.Path) + ".v2.yaml"
		d := &Dir{Certs: []*refcfg.CertCfg{
			{Path: "pki.v1/ca1.yaml", Subject: "CN=CA One", KeyAlg: "P-224"},
			{Path: "pki.v1/ca2.yaml", Subject: "CN=CA Two", KeyAlg: "P-224"},
			b.Cfg,
		}}
		if b.Prof != nil {
			d.Profiles = []*refcfg.ProfileCfg{b.Prof}
		}
		w := simfs.New(simfs.TickPerWrite)
		d.Render(w)
		w.Put("pki.v1/ca1.pem", FixtureKeyPEM("P-224-0"))
		w.Put("pki.v1/ca2.pem", FixtureKeyPEM("P-224-1"))
		w.Put(ArtifactPath(b.Cfg.Path), b.keyPEM())
		res := drive.Run(w, drive.Default, nil)
		x.Eval(1)
		if a := ReadArtifact(w, b.Cfg.Path); !res.OK() || a.Pem == nil || a.Pem.HashLine == nil {
			x.Violation("C13/stability/run-failed dim=dotted-names", fmt.Sprintf("base %q: run error %v; hash line in %s: %v", base.Name, res.Err(), ArtifactPath(b.Cfg.Path), a.Pem != nil && a.Pem.HashLine != nil))
		} else if *a.Pem.HashLine != h0 {
			x.Violation("C13/hash-unstable dim=dotted-names", fmt.Sprintf("base %q: hash %s in %s, %s originally", base.Name, *a.Pem.HashLine, ArtifactPath(b.Cfg.Path), h0))
		} else {
			res = drive.Run(w, drive.Changed, nil)
			x.Transition(1)
			if !res.OK() || len(res.Plan) != 0 {
				x.Violation("C13/unchanged-looks-changed dotted-names", fmt.Sprintf("base %q under pki.v1/ with doubly dotted file names: a generate-changed run after the first run plans %v (%v)", base.Name, res.PlanAliases(), res.Err()))
			}
		}
	}
	// JSON with the top-level keys in reverse order and the same content under another file name
	{
		b := c13Clone(base)
		if b.Cfg.Alias == "" {
			b.Cfg.Alias = Stem(base.Cfg.Path)
		}
		b.Cfg.Path = "reordered.json"
		_, w := c13World(b)
		tree := b.Cfg.Tree()
		rev := refcfg.Map{}
		for i := len(tree) - 1; i >= 0; i-- {
			rev = append(rev, tree[i])
		}
		w.Put(b.Cfg.Path, []byte(refcfg.JSON(rev)))
		res := drive.Run(w, drive.Default, nil)
		x.Eval(1)
		if a := ReadArtifact(w, b.Cfg.Path); !res.OK() || a.Pem == nil || a.Pem.HashLine == nil {
			x.Violation("C13/stability/run-failed dim=json-key-order", fmt.Sprintf("base %q: %v", base.Name, res.Err()))
		} else if *a.Pem.HashLine != h0 {
			x.Violation("C13/hash-unstable dim=json-key-order", fmt.Sprintf("base %q: hash %s with reversed key order, %s originally", base.Name, *a.Pem.HashLine, h0))
		}
	}
	// own alias
	for _, a := range []string{"alias-one", "alias-two"} {
		b := c13Clone(base)
		b.Cfg.Alias = a
		check("own-alias", b)
	}
	// profile name
	if base.Prof != nil {
		b := c13Clone(base)
		b.Prof.Name, b.Cfg.Profile, b.Prof.Path = "renamed-profile", "renamed-profile", "other-profile-file.yml"
		check("profile-name", b)
	}
	// in place: nothing changed, later run with -c regenerates nothing
	w := w0.Clone()
	res := drive.Run(w, drive.Changed, nil)
	x.Transition(1)
	if !res.OK() || len(res.Plan) != 0 {
		x.Violation("C13/unchanged-looks-changed", fmt.Sprintf("base %q: second run with generate-changed plans %v (%v)", base.Name, res.PlanAliases(), res.Err()))
	}
	// in place: rewrite the same configuration text (touch) and as re-rendered, fully quoted YAML
	w = w0.Clone()
	w.Put(base.Cfg.Path, []byte("# a comment\n"+refcfg.YAMLQuoted(base.Cfg.Tree())+"\n# trailing comment\n"))
	res = drive.Run(w, drive.Changed, nil)
	x.Transition(1)
	if !res.OK() || len(res.Plan) != 0 {
		x.Violation("C13/unchanged-looks-changed re-rendered", fmt.Sprintf("base %q: re-rendered identical configuration: plan %v (%v)", base.Name, res.PlanAliases(), res.Err()))
	}
	// in place: the same text saved with CR LF line ends (an editor on another system), config and profile
	w = w0.Clone()
	for _, p := range append([]string{base.Cfg.Path}, func() []string {
		if base.Prof != nil {
			return []string{base.Prof.Path}
		}
		return nil
	}()...) {
		if f := w0.Files[p]; f != nil {
			w.Put(p, bytes.ReplaceAll(f.Data, []byte("\n"), []byte("\r\n")))
		}
	}
	res = drive.Run(w, drive.Changed, nil)
	x.Transition(1)
	if !res.OK() || len(res.Plan) != 0 {
		x.Violation("C13/unchanged-looks-changed crlf", fmt.Sprintf("base %q: identical configuration saved with CR LF line ends: plan %v (%v)", base.Name, res.PlanAliases(), res.Err()))
	}
	// in place: the hash line of the artifact moved away from the top of the file (a remark or a blank line in front
	// of it, or behind the blocks): unchanged stays unchanged, and an edit is still seen
	for _, place := range []string{"short-remark-in-front", "remark-in-front", "blank-line-in-front", "behind-the-blocks"} {
		w = w0.Clone()
		ap := ArtifactPath(base.Cfg.Path)
		data := w.Files[ap].Data
		nl := bytes.IndexByte(data, '\n')
		if !bytes.HasPrefix(data, []byte("#HASH:")) || nl < 0 {
			break
		}
		hashLine, rest := data[:nl+1], data[nl+1:]
		var nd []byte
		switch place {
		case "short-remark-in-front":
			nd = append(append([]byte("#ab\n"), hashLine...), rest...)
		case "remark-in-front":
			nd = append(append([]byte("# issued for the test hierarchy, keep with its key\n"), hashLine...), rest...)
		case "blank-line-in-front":
			nd = append(append([]byte("\n"), hashLine...), rest...)
		case "behind-the-blocks":
			nd = append(append([]byte{}, rest...), hashLine...)
		}
		w.PutAt(ap, nd, w.Files[ap].Tick)
		res = drive.Run(w, drive.Changed, nil)
		x.Transition(1)
		if !res.OK() || len(res.Plan) != 0 {
			x.Violation("C13/unchanged-looks-changed hash-line-"+place, fmt.Sprintf("base %q: the artifact's hash line moved (%s), configuration unchanged: plan %v (%v)", base.Name, place, res.PlanAliases(), res.Err()))
			continue
		}
		eb := c13Clone(base)
		eb.Cfg.Subject = "CN=Entity edited, O=Org"
		w.Put(eb.Cfg.Path, RenderCfg(eb.Cfg.Path, eb.Cfg.Tree()))
		res = drive.Run(w, drive.Changed, nil)
		x.Transition(1)
		if !res.OK() || !res.Planned(AliasOf(eb.Cfg)) {
			x.Violation("C13/hash-blind hash-line-"+place, fmt.Sprintf("base %q: the artifact's hash line moved (%s), subject edited: a generate-changed run plans %v (%v)", base.Name, place, res.PlanAliases(), res.Err()))
		}
	}
	// in place: profile renamed consistently
	if base.Prof != nil {
		b := c13Clone(base)
		b.Prof.Name, b.Cfg.Profile = "renamed-profile", "renamed-profile"
		w = w0.Clone()
		w.Put(b.Cfg.Path, RenderCfg(b.Cfg.Path, b.Cfg.Tree()))
		w.Put(b.Prof.Path, RenderCfg(b.Prof.Path, b.Prof.Tree()))
		res = drive.Run(w, drive.Changed, nil)
		x.Transition(1)
		if !res.OK() || len(res.Plan) != 0 {
			x.Violation("C13/unchanged-looks-changed profile-renamed", fmt.Sprintf("base %q: plan %v (%v)", base.Name, res.PlanAliases(), res.Err()))
		}
	}
	x.Outcome("stability")
}

func init() {
	bases := c13Bases()
	var names []string
	for _, b := range bases {
		names = append(names, b.Name)
	}
	sort.Strings(names)
	register(&engine.Check{
		ID:          "C13",
		Level:       "model_checking",
		Rule:        fmt.Sprintf("%d base configurations (baseline, root, each optional field, 5 validity shapes, every extension kind with content, raw bodies, an extension list, manipulations; the same under a profile carrying validity and extensions) x (A) stability: re-read at another time and (for validities without from) on another calendar day simulated by a 26-hour shift of the local zone, as x.yaml / sub/dir/y.yml / z.JSON (JSON rendering), with the whole directory under doubly dotted names (pki.v1/<name>.v2.yaml), under two aliases, under a renamed profile -> identical #HASH line; in place: a later generate-changed run, a re-rendered identical configuration with comments and a consistently renamed profile plan nothing; with the artifact's hash line moved behind a remark, a blank line or the blocks an unchanged configuration plans nothing and an edited subject is seen; (B) sensitivity: each of %d single-field edits (set, unset, change of every certificate and profile field; extensions: change kind keeping the raw body, flip critical, change content, reorder, insert, delete, optional/override flips) - relevant iff the reference certificate model changes - must change the hash of a fresh run and make a generate-changed run regenerate the entity in place; all edit pairs on three bases (quick) / on every base (thorough). for six bases through the library on one open database: the stored configuration put again as it is (nothing planned), then with another subject (planned, re-issued with another stored hash). states = distinct (base, edit) worlds, transitions = in-place runs", len(bases), len(c13Edits())),
		Bound:       map[string]string{"edits": "single on every base; pairs on 3 bases (quick) / all bases (thorough)"},
		Assumptions: []string{"hash equality is demanded only for the four dimensions the statement lists (time, file name, own alias, profile name)", "edits between an omitted algorithm and its default are not used (documentation names two defaults)"},
		Budget:      budgets(quickBudget, thoroughBudget),
		Enumerate:   c13Enumerate,
		NewCase:     func() any { return &c13Case{} },
		Exec: func(x *engine.Ctx, c any) {
			cc := c.(*c13Case)
			x.State(fmt.Sprintf("%+v", *cc))
			c13Exec(x, c)
		},
	})
}
