package checks

import (
	"bytes"
	"fmt"
	"math"
	"strings"

	"github.com/wokdav/gopki/generator/config"

	"verif/mc/drive"
	"verif/mc/engine"
	"verif/mc/refcfg"
	"verif/mc/refx509"
	"verif/mc/simfs"
)

// C03 — subject DN, serial number and unique ids are exactly what the config says.

type c03Case struct {
	Kind string `json:"kind"` // parse | gen | ids | fresh
	// parse: first pair index; the worker loops over the rest
	First int `json:"first,omitempty"`
	// gen / replay: explicit pair indexes, separator, profile mode
	Pairs   []int `json:"pairs,omitempty"`
	Sep     int   `json:"sep,omitempty"`
	ProfMod int   `json:"profMode,omitempty"` // 0 none, 1 profile lists the subject's attributes, 2 same + allowOther
	// ids
	Serial int `json:"serial,omitempty"` // index into c03Serials, 0 = unconfigured
	IUID   int `json:"iuid,omitempty"`   // index into c03UIDs, 0 = none
	SUID   int `json:"suid,omitempty"`
	Role   int `json:"role,omitempty"` // ids: 0 self-signed with its own key, 1 issued by a CA with its own key, 2 issued by a CA for a request-only artifact
}

var c03Keys = []string{"C", "O", "OU", "CN", "SERIALNUMBER", "L", "ST", "STREET", "POSTALCODE", "1.2.3.4", "2.5.4.97",
	// well-known attribute types that have no short name here and come in by their OID (emailAddress, domainComponent)
	"1.2.840.113549.1.9.1", "0.9.2342.19200300.100.1.25"}
var c03Values = []string{"DE", "Acme Ltd.", "a b  c", "O'Neil (x) +/:?", "Zoë Ünïcode", strings.Repeat("v", 64), strings.Repeat("long value ", 18) + "xy",
	`"quoted"`, `'single' and <angle> [brackets]`,
	// two-letter values in lower and mixed case (a country code is carried as written), and a value that is all upper case
	"de", "Ch", "ACME GMBH"}
var c03BigSizes = []int{1 << 10, 32 << 10, 64<<10 - 100, 64 << 10, 64<<10 + 100, 128 << 10, 1 << 20}
var c03Seps = []string{",", ", ", " , ", "  ,"}

var c03Serials = []int64{0, 1, 127, 128, 255, 256, 1 << 31, math.MaxInt64}

func c03UIDs() []*refcfg.Raw {
	return []*refcfg.Raw{nil, refcfg.Empty(), refcfg.Null(), refcfg.Bin([]byte{0x01}), refcfg.Bin([]byte{1, 2, 3, 4}), refcfg.Bin(bytes.Repeat([]byte{0xc3}, 128))}
}

func c03NPairs() int { return len(c03Keys) * len(c03Values) }

func c03Pair(i int) (string, string) { return c03Keys[i/len(c03Values)], c03Values[i%len(c03Values)] }

func c03Subject(pairs []int, sep int) string {
	parts := make([]string, len(pairs))
	for i, p := range pairs {
		k, v := c03Pair(p)
		parts[i] = k + "=" + v
	}
	// sep >= len(c03Seps): the whole string additionally stands in white space (what a quoted or block scalar keeps)
	wrap := c03Wraps[sep/len(c03Seps)%len(c03Wraps)]
	return wrap[0] + strings.Join(parts, c03Seps[sep%len(c03Seps)]) + wrap[1]
}

var c03Wraps = [][2]string{{"", ""}, {"", " "}, {"", "\n"}, {"  ", "  "}, {"", "\t"}, {"\n", ""}}

func c03Enumerate(tier string, yield func(any)) {
	np := c03NPairs()
	for i := 0; i < np; i++ {
		yield(&c03Case{Kind: "parse", First: i})
	}
	if tier == "thorough" {
		// parser level, length 4: first two pairs fixed per case, the worker loops over the last two
		for i := 0; i < np; i++ {
			for j := 0; j < np; j++ {
				yield(&c03Case{Kind: "parse4", First: i, Serial: j})
			}
		}
		// generation, length 3 over a reduced alphabet (every key with two values)
		for pm := 0; pm < 3; pm++ {
			for i := 0; i < np; i++ {
				for j := 0; j < np; j++ {
					if i%len(c03Values) > 1 || j%len(c03Values) > 1 {
						continue
					}
					yield(&c03Case{Kind: "gen3", Pairs: []int{i, j}, ProfMod: pm})
				}
			}
		}
	}
	// generation: all sequences of length 1-2
	for pm := 0; pm < 3; pm++ {
		for i := 0; i < np; i++ {
			yield(&c03Case{Kind: "gen", Pairs: []int{i}, ProfMod: pm})
			for j := 0; j < np; j++ {
				if tier != "thorough" && pm > 0 && (i+j)%3 != 0 {
					continue // quick: profile variants on a third of the pairs; thorough takes all
				}
				yield(&c03Case{Kind: "gen", Pairs: []int{i, j}, ProfMod: pm, Sep: (i + j) % len(c03Seps)})
			}
		}
	}
	// lengths 3..8: every cyclic window of the key list with rotating values
	for l := 3; l <= 8; l++ {
		for start := 0; start < len(c03Keys); start++ {
			for rot := 0; rot < len(c03Values); rot++ {
				var pairs []int
				for k := 0; k < l; k++ {
					key := (start + k) % len(c03Keys)
					val := (rot + k) % len(c03Values)
					pairs = append(pairs, key*len(c03Values)+val)
				}
				for pm := 0; pm < 3; pm++ {
					yield(&c03Case{Kind: "gen", Pairs: pairs, ProfMod: pm, Sep: (start + rot) % len(c03Seps)})
				}
			}
		}
	}
	uids := len(c03UIDs())
	for s := range c03Serials {
		for i := 0; i < uids; i++ {
			for j := 0; j < uids; j++ {
				for pm := 0; pm < 3; pm++ {
					for role := 0; role < 3; role++ {
						yield(&c03Case{Kind: "ids", Serial: s, IUID: i, SUID: j, ProfMod: pm, Role: role})
					}
				}
			}
		}
	}
	for k := 0; k < 8; k++ {
		yield(&c03Case{Kind: "fresh", First: k})
	}
	// large configuration files: a comment block of 1 KiB .. 1 MiB in front of each top-level key and at the end,
	// and a subject value longer than 64 KiB; serial and unique ids are configured and must arrive
	for size := range c03BigSizes {
		for pos := 0; pos < 8; pos++ {
			yield(&c03Case{Kind: "large-file", First: size, Sep: pos})
		}
	}
	// separate processes started right after one another (a script looping over directories)
	for k := 0; k < 4; k++ {
		yield(&c03Case{Kind: "fresh-processes", First: k})
	}
}

func c03CheckParsed(x *engine.Ctx, subj string, replay *c03Case) {
	want, werr := refcfg.RefSubject(subj)
	got, gerr := config.ParseRDNSequence(subj)
	if werr != nil {
		return
	}
	if gerr != nil {
		x.ViolationCase("C03/parse/rejected-documented-subject", fmt.Sprintf("subject %q: %v", subj, gerr), replay)
		return
	}
	bad := len(got) != len(want)
	if !bad {
		for i := range want {
			if len(got[i]) != 1 || got[i][0].Type.String() != want[i].OID {
				bad = true
				break
			}
			if s, ok := got[i][0].Value.(string); !ok || s != want[i].Value {
				bad = true
				break
			}
		}
	}
	if bad {
		x.ViolationCase("C03/parse/rdn-sequence-differs", fmt.Sprintf("subject %q parsed to %v, reference %v", subj, got, want), replay)
	}
}

// attributes the profile schema admits and the table resolves
var c03ProfAttrs = map[string]bool{"C": true, "CN": true, "ST": true, "L": true, "STREET": true, "O": true, "OU": true, "SERIALNUMBER": true}

func c03Exec(x *engine.Ctx, cc any) {
	c := cc.(*c03Case)
	np := c03NPairs()
	switch c.Kind {
	case "parse":
		if c.Pairs != nil { // replay of one string
			c03CheckParsed(x, c03Subject(c.Pairs, c.Sep), c)
			return
		}
		var n int64
		for sep := 0; sep < len(c03Seps)*len(c03Wraps); sep++ {
			c03CheckParsed(x, c03Subject([]int{c.First}, sep), &c03Case{Kind: "parse", Pairs: []int{c.First}, Sep: sep})
			n++
		}
		for j := 0; j < np; j++ {
			for sep := 0; sep < len(c03Seps)*len(c03Wraps); sep++ {
				c03CheckParsed(x, c03Subject([]int{c.First, j}, sep), &c03Case{Kind: "parse", Pairs: []int{c.First, j}, Sep: sep})
				n++
			}
			for k := 0; k < np; k++ {
				sep := (j + k) % len(c03Seps)
				c03CheckParsed(x, c03Subject([]int{c.First, j, k}, sep), &c03Case{Kind: "parse", Pairs: []int{c.First, j, k}, Sep: sep})
				n++
			}
		}
		x.Eval(n - 1)
		x.NontrivialN(n)
		x.Outcome("parsed")
	case "parse4":
		var n int64
		for k := 0; k < np; k++ {
			for l := 0; l < np; l++ {
				c03CheckParsed(x, c03Subject([]int{c.First, c.Serial, k, l}, (k+l)%len(c03Seps)), &c03Case{Kind: "parse", Pairs: []int{c.First, c.Serial, k, l}, Sep: (k + l) % len(c03Seps)})
				n++
			}
		}
		x.Eval(n - 1)
		x.NontrivialN(n)
		x.Outcome("parsed4")
	case "gen3":
		for k := 0; k < np; k++ {
			if k%len(c03Values) > 1 {
				continue
			}
			cc := &c03Case{Kind: "gen", Pairs: []int{c.Pairs[0], c.Pairs[1], k}, ProfMod: c.ProfMod, Sep: k % len(c03Seps)}
			c03Exec(x, cc)
			x.Eval(1)
		}
	case "gen":
		subj := c03Subject(c.Pairs, c.Sep)
		cfg := &refcfg.CertCfg{Path: "ent.yaml", Subject: subj, KeyAlg: "P-224"}
		d := &Dir{Certs: []*refcfg.CertCfg{cfg}}
		if c.ProfMod > 0 {
			prof := &refcfg.ProfileCfg{Path: "prof.yaml", Name: "p", SubjAttrs: &refcfg.SubjectAttributes{}}
			foreign := false
			for _, p := range c.Pairs {
				k, _ := c03Pair(p)
				if c03ProfAttrs[k] {
					prof.SubjAttrs.Attributes = append(prof.SubjAttrs.Attributes, refcfg.SubjAttr{Attribute: k})
				} else {
					foreign = true
				}
			}
			if len(prof.SubjAttrs.Attributes) == 0 {
				x.Outcome("gen: no constrainable attribute")
				return
			}
			if c.ProfMod == 2 || foreign {
				prof.SubjAttrs.AllowOther = refcfg.B(true)
			}
			d.Profiles = append(d.Profiles, prof)
			cfg.Profile = "p"
		}
		g := Generate(d, func(w *simfs.World) { w.Put("ent.pem", FixtureKeyPEM("P-224-0")) }, drive.Default)
		x.Nontrivial(fmt.Sprintf("gen %v %d %d", c.Pairs, c.Sep, c.ProfMod))
		if g.Res.Panic != "" {
			x.Violation("C03/panic/"+g.Res.PanicSite, g.Res.Panic)
			return
		}
		if !g.Res.OK() {
			x.Violation(fmt.Sprintf("C03/run-failed profile-mode=%d", c.ProfMod), fmt.Sprintf("subject %q: %v", subj, g.Res.Err()))
			return
		}
		diffs, _, err := g.CompareEntity(d, "ent", "")
		if err != nil {
			x.Violation("C03/no-certificate", fmt.Sprintf("subject %q: %v", subj, err))
			return
		}
		reportOwned(x, "C03", diffs)
		x.Outcome(fmt.Sprintf("gen len=%d prof=%d", len(c.Pairs), c.ProfMod))
	case "ids":
		cfg := &refcfg.CertCfg{Path: "ent.yaml", Subject: "CN=ids", KeyAlg: "P-224"}
		if c03Serials[c.Serial] != 0 {
			cfg.Serial = refcfg.I64(c03Serials[c.Serial])
		}
		cfg.IssuerUID, cfg.SubjectUID = c03UIDs()[c.IUID], c03UIDs()[c.SUID]
		d := &Dir{Certs: []*refcfg.CertCfg{cfg}}
		switch c.ProfMod {
		case 1: // a profile that contributes only an extension
			d.Profiles = []*refcfg.ProfileCfg{{Path: "prof.yaml", Name: "p", Exts: []refcfg.Ext{{Kind: refcfg.KOCSP}}}}
			cfg.Profile = "p"
		case 2: // a profile that also constrains the subject
			d.Profiles = []*refcfg.ProfileCfg{{Path: "prof.yaml", Name: "p", SubjAttrs: &refcfg.SubjectAttributes{Attributes: []refcfg.SubjAttr{{Attribute: "CN"}}}, Validity: &refcfg.Validity{Duration: "2y"}}}
			cfg.Profile = "p"
		}
		if c.Role > 0 {
			cfg.Issuer = "ca"
			// the issuer carries unique ids of its own: they are the issuer's, not the subject's
			d.Certs = append([]*refcfg.CertCfg{{Path: "ca.yaml", Subject: "CN=ids CA", KeyAlg: "P-224", SubjectUID: refcfg.Bin([]byte{0xca, 0xfe}), IssuerUID: refcfg.Bin([]byte{0xbe}), Serial: refcfg.I64(77)}}, d.Certs...)
		}
		g := Generate(d, func(w *simfs.World) {
			if c.Role == 2 {
				k, _ := refx509.ParsePKCS8(FixtureKeyDER("P-224-0"))
				w.Put("ent.pem", refx509.EncodePem("CERTIFICATE REQUEST", refx509.BuildCSR(k, "ids", nil)))
			} else {
				w.Put("ent.pem", FixtureKeyPEM("P-224-0"))
			}
			if c.Role > 0 {
				w.Put("ca.pem", FixtureKeyPEM("P-224-1"))
			}
		}, drive.Default)
		x.Nontrivial(fmt.Sprintf("ids %d %d %d %d %d", c.Serial, c.IUID, c.SUID, c.ProfMod, c.Role))
		if !g.Res.OK() {
			x.Violation("C03/run-failed ids", fmt.Sprintf("%v %s", g.Res.Err(), g.Res.Panic))
			return
		}
		diffs, _, err := g.CompareEntity(d, "ent", "")
		if err != nil {
			x.Violation("C03/no-certificate", err.Error())
			return
		}
		reportOwned(x, "C03", diffs)
		x.Outcome("ids")
	case "large-file":
		cfg := &refcfg.CertCfg{Path: "ent.yaml", Subject: "CN=big file, O=C03", KeyAlg: "P-224", Serial: refcfg.I64(4711),
			IssuerUID: refcfg.Bin([]byte{1, 2, 3, 4}), SubjectUID: refcfg.Bin([]byte{5, 6, 7, 8})}
		size := c03BigSizes[c.First]
		if c.Sep == 7 {
			cfg.Subject = "CN=big file, O=" + strings.Repeat("o", size) + ", C=DE"
		}
		d := &Dir{Certs: []*refcfg.CertCfg{cfg}}
		placed := false
		g := Generate(d, func(w *simfs.World) {
			w.Put("ent.pem", FixtureKeyPEM("P-224-0"))
			if c.Sep == 7 {
				placed = true
				return
			}
			// the comment block goes in front of the c.Sep-th top-level key (or to the end of the file)
			block := strings.Repeat("# "+strings.Repeat("-", 61)+"\n", size/64+1)
			lines := strings.SplitAfter(string(w.Files["ent.yaml"].Data), "\n")
			var out strings.Builder
			top := 0
			for _, l := range lines {
				if l != "" && l[0] != ' ' && l[0] != '-' && l[0] != '#' {
					if top == c.Sep {
						out.WriteString(block)
						placed = true
					}
					top++
				}
				out.WriteString(l)
			}
			if !placed && c.Sep == 6 {
				out.WriteString(block)
				placed = true
			}
			w.Put("ent.yaml", []byte(out.String()))
		}, drive.Default)
		if !placed {
			return // fewer top-level keys than positions
		}
		x.Nontrivial(fmt.Sprintf("large-file %d %d", c.First, c.Sep))
		feat := map[bool]string{true: "long-subject-value", false: "comment-block"}[c.Sep == 7]
		if !g.Res.OK() {
			x.Violation("C03/run-failed large-file "+feat, fmt.Sprintf("size %d position %d: %v %s", size, c.Sep, g.Res.Err(), g.Res.Panic))
			return
		}
		diffs, _, err := g.CompareEntity(d, "ent", "")
		if err != nil {
			x.Violation("C03/no-certificate large-file "+feat, fmt.Sprintf("size %d position %d: %v", size, c.Sep, err))
			return
		}
		for _, df := range diffs {
			if df.Owner == "C03" {
				x.Violation(df.Class+" large-file "+feat, fmt.Sprintf("size %d position %d: %s", size, c.Sep, short(df.Detail, 400)))
			}
		}
		x.Outcome("large-file")
	case "fresh-processes":
		// three runs of the built binary back to back on three copies of one directory: at least two of
		// them start within the same second, and all drawn serials are pairwise distinct
		d := &Dir{}
		for i := 0; i < 2; i++ {
			cfg := &refcfg.CertCfg{Path: fmt.Sprintf("p%d.yaml", i), Subject: fmt.Sprintf("CN=p%d", i), KeyAlg: "P-224"}
			if i > 0 {
				cfg.Issuer = "p0"
			}
			d.Certs = append(d.Certs, cfg)
		}
		base := simfs.New(simfs.TickPerWrite)
		d.Render(base)
		seen := map[string]string{}
		for run := 0; run < 3; run++ {
			w := base.Clone()
			res, err := drive.RunCLI(w, drive.Default, "")
			if err != nil {
				x.Cap("cli binary could not be run: " + err.Error())
				return
			}
			x.TraceValidated(1)
			if res.Exit != 0 {
				x.Violation("C03/run-failed fresh-processes", fmt.Sprintf("exit %d %s", res.Exit, short(res.Stdout, 300)))
				return
			}
			for _, cfg := range d.Certs {
				a := ReadArtifact(w, cfg.Path)
				if a.Cert == nil {
					x.Violation("C03/no-certificate", fmt.Sprintf("process %d: %s", run, cfg.Path))
					return
				}
				k := a.Cert.Serial.String()
				if prev, dup := seen[k]; dup {
					x.Violation("C03/serial/not-fresh-across-processes", fmt.Sprintf("serial %s drawn by %s and again by process %d for %s", k, prev, run, cfg.Path))
				}
				seen[k] = fmt.Sprintf("process %d for %s", run, cfg.Path)
			}
		}
		x.Nontrivial(fmt.Sprintf("fresh-processes %d", c.First))
		x.Outcome(fmt.Sprintf("fresh across processes serials=%d", len(seen)))
	case "fresh":
		// unconfigured serials are pairwise distinct over all certificates of a run and of a second run
		d := &Dir{}
		for i := 0; i < 4; i++ {
			cfg := &refcfg.CertCfg{Path: fmt.Sprintf("n%d.yaml", i), Subject: fmt.Sprintf("CN=n%d", i), KeyAlg: "P-224"}
			if i > 0 {
				cfg.Issuer = "n0"
			}
			d.Certs = append(d.Certs, cfg)
		}
		g := Generate(d, nil, drive.Default)
		if !g.Res.OK() {
			x.Violation("C03/run-failed fresh", fmt.Sprint(g.Res.Err()))
			return
		}
		seen := map[string]string{}
		collect := func(run string) {
			for _, cfg := range d.Certs {
				a := ReadArtifact(g.W, cfg.Path)
				if a.Cert == nil {
					continue
				}
				k := a.Cert.Serial.String()
				if prev, dup := seen[k]; dup {
					x.Violation("C03/serial/not-fresh", fmt.Sprintf("serial %s used by %s and by %s/%s", k, prev, run, cfg.Path))
				}
				seen[k] = run + "/" + cfg.Path
			}
		}
		collect("run1")
		res := drive.Run(g.W, drive.All, nil)
		if !res.OK() {
			x.Violation("C03/run-failed fresh", fmt.Sprint(res.Err()))
			return
		}
		collect("run2")
		x.Nontrivial(fmt.Sprintf("fresh %d", c.First))
		x.Outcome(fmt.Sprintf("fresh serials=%d", len(seen)))
	}
}

func init() {
	register(&engine.Check{
		ID:          "C03",
		Level:       "exploration",
		Rule:        "subject strings over 13 keys (9 short names, 4 dotted OIDs incl. emailAddress and domainComponent) x 12 values (ASCII, inner double space, punctuation, non-ASCII, 64 and 200 characters, a value in double quotes, single quotes and brackets, two-letter values in lower and mixed case, an all-upper-case value): every sequence of length 1..3 (4.6e5, with 4 separator spellings; lengths 1 and 2 also with the whole string standing in white space: trailing blank, line break or tab, leading line break, blanks on both sides) through config.ParseRDNSequence vs. the documented grammar; every sequence of length 1..2 and every cyclic window of length 3..8 with rotating values through whole certificate generation without profile, with a profile listing the subject's attributes, and the same with allowOther (quick thins the profile variants of length-2 subjects to a third); 8 serials x 6 x 6 unique-id settings x {no profile, extension-only profile, subject-constraining profile} x {self-signed, issued with own key, issued for a request-only artifact}; 8 two-run forests for serial freshness, and 4 times three back-to-back processes of the built binary (serials distinct across processes started within one second); configuration files with a comment block of 1 KiB .. 1 MiB in front of each top-level key or at the end, and a subject value of that length (configured serial and unique ids must arrive). Oracle: one single-valued RDN per pair in reversed order, documented OID, text unchanged, UTF8String or (in repertoire) PrintableString, identical with and without profile; configured serial/unique ids bit for bit. non-trivial = distinct case that reached the comparison",
		Bound:       map[string]string{"subject length": "parser 1..3 exhaustive (thorough 1..4: 3.5e7), generation 1..2 exhaustive (thorough: length 3 over 11 keys x 2 values), 3..8 windows", "values": "7"},
		Assumptions: []string{"values containing , = \\ or a leading # are outside the documented grammar that reaches the parser", "fresh-serial collisions have probability about 2^-150"},
		Budget:      budgets(quickBudget, thoroughBudget),
		Enumerate:   c03Enumerate,
		NewCase:     func() any { return &c03Case{} },
		Exec:        c03Exec,
	})
}
