package checks

import (
	"crypto/ecdsa"
	"crypto/elliptic"
	"fmt"
	"math/big"
	"sort"
	"strings"
	"time"

	"github.com/wokdav/gopki/generator/cert"
	"github.com/wokdav/gopki/generator/config"
	"github.com/wokdav/gopki/generator/db"

	"verif/mc/drive"
	"verif/mc/engine"
	"verif/mc/refcfg"
	"verif/mc/refx509"
	"verif/mc/simfs"
)

// C11 — an entity is regenerated exactly when an enabled reason applies, issuers first.

// ---------------------------------------------------------------- synthetic backend

type synthEnt struct {
	cfg  *config.CertificateContent
	meta *db.Metadata
	art  *db.BuildArtifact
}

type synthDB struct {
	ents  map[string]*synthEnt
	roots []string
	subs  map[string][]string
}

func (s *synthDB) Open() error                                           { return nil }
func (s *synthDB) Close() error                                          { return nil }
func (s *synthDB) NumEntities() int                                      { return len(s.ents) }
func (s *synthDB) RootEntities() []string                                { return s.roots }
func (s *synthDB) GetSubscribers(a string) []string                      { return s.subs[a] }
func (s *synthDB) AddProfile(config.CertificateProfile) error            { return nil }
func (s *synthDB) GetProfile(string) (*config.CertificateProfile, error) { return nil, nil }
func (s *synthDB) PutConfig(string, config.CertificateContent) error     { return nil }
func (s *synthDB) PutBuildArtifact(string, db.BuildArtifact) error       { return nil }
func (s *synthDB) Delete(string) error                                   { return nil }
func (s *synthDB) GetConfig(a string) (*config.CertificateContent, error) {
	if e, ok := s.ents[a]; ok {
		return e.cfg, nil
	}
	return nil, nil
}
func (s *synthDB) GetBuildArtifact(a string) (*db.BuildArtifact, error) {
	if e, ok := s.ents[a]; ok {
		return e.art, nil
	}
	return nil, nil
}
func (s *synthDB) GetMetadata(a string) (*db.Metadata, error) {
	if e, ok := s.ents[a]; ok {
		m := *e.meta
		return &m, nil
	}
	return nil, nil
}

// per-entity abstract state for the synthetic layer
type c11Ent struct {
	Art     int  `json:"art"`              // 0 absent, 1 cert+key, 2 cert+csr, 3 key only, 4 cert only
	Hash    int  `json:"hash"`             // 0 none, 1 equal, 2 different
	NotYet  bool `json:"notYet,omitempty"` // the stored certificate's period begins in the future (it is not expired)
	Expired int  `json:"expired"`          // bit0 certificate expired; bits 1-2 configured end: 0 past and before the certificate's end, 1 future, 2 past but after the certificate's end, 3 far future
	CfgNew  int  `json:"cfgNew"`           // 0 config older than artifact, 1 newer
	Time    int  `json:"time"`             // artifact time rank
}

type c11Case struct {
	Kind string `json:"kind"` // pair | forest | files | cli
	// pair: issuer state; the worker loops over subject states x relation x strategies
	Issuer c11Ent `json:"issuer"`
	// replay of a single synthetic case
	Ents   []c11Ent `json:"ents,omitempty"`
	Parent []int    `json:"parent,omitempty"`
	Strat  int      `json:"strat,omitempty"`
	Perm   int      `json:"perm,omitempty"`
	// files: where the hash line stands in the artifact files (c11HashPlace)
	HashPlace int `json:"hashPlace,omitempty"`
	// cli: the subordinate's configuration file is a symbolic link to a file kept in another directory
	Link bool `json:"link,omitempty"`
	// forest
	N int `json:"n,omitempty"`
	// files
	RootArt  int `json:"rootArt,omitempty"`
	SubArt   int `json:"subArt,omitempty"`
	RootHash int `json:"rootHash,omitempty"`
	SubHash  int `json:"subHash,omitempty"`
}

var c11ArtNames = []string{"absent", "cert+key", "cert+csr", "key-only", "cert-only"}
var c11HashNames = []string{"none", "equal", "different"}

var (
	c11Key    *ecdsa.PrivateKey
	c11Past   = time.Date(2001, 1, 1, 0, 0, 0, 0, time.UTC)
	c11Future = time.Date(2101, 1, 1, 0, 0, 0, 0, time.UTC)
	// configured ends: before an expired certificate's end, future, after an expired certificate's end but still past, far future
	c11CfgEnds = []time.Time{time.Date(2001, 1, 1, 0, 0, 0, 0, time.UTC), time.Date(2101, 1, 1, 0, 0, 0, 0, time.UTC), time.Date(2002, 1, 1, 0, 0, 0, 0, time.UTC), time.Date(2102, 1, 1, 0, 0, 0, 0, time.UTC)}
	// certificate ends: expired / valid
	c11CertExpired = time.Date(2001, 6, 1, 0, 0, 0, 0, time.UTC)
	c11CertValid   = time.Date(2101, 6, 1, 0, 0, 0, 0, time.UTC)
	c11T0          = time.Date(2020, 1, 1, 0, 0, 0, 0, time.UTC)
	c11ReqDummy    = &cert.CertificateRequest{}
)

func init() {
	c11Key = &ecdsa.PrivateKey{D: big.NewInt(7)}
	c11Key.Curve = elliptic.P224()
	c11Key.X, c11Key.Y = c11Key.Curve.ScalarBaseMult(c11Key.D.Bytes())
}

func c11State(e c11Ent, hasIssuer bool, issuerTime int, issuerHasFile bool) refcfg.EntityState {
	s := refcfg.EntityState{HasIssuer: hasIssuer}
	s.HasArtifactFile = e.Art != 0
	s.HasCert = e.Art == 1 || e.Art == 2 || e.Art == 4
	s.HasKey = e.Art == 1 || e.Art == 3
	s.HasCSR = e.Art == 2
	s.HashPresent = e.Hash != 0
	s.HashEqual = e.Hash == 1
	s.CertExpired = e.Expired&1 != 0
	s.ConfigEndFuture = c11CfgEnds[(e.Expired>>1)&3].After(time.Now())
	s.ConfigNewer = e.CfgNew == 1
	s.IssuerNewer = hasIssuer && issuerHasFile && issuerTime > e.Time
	if e.Art == 0 {
		// no artifact file: every timestamp is "newer" than nothing; the table treats these as don't-care
		s.ConfigNewer = true
		s.IssuerNewer = hasIssuer && issuerHasFile
	}
	return s
}

// c11Build makes the synthetic database for a forest of abstract entity states.
func c11Build(ents []c11Ent, parent []int, perm int) *synthDB {
	s := &synthDB{ents: map[string]*synthEnt{}, subs: map[string][]string{}}
	name := func(i int) string { return fmt.Sprintf("e%d", i) }
	for i, e := range ents {
		cfg := &config.CertificateContent{Alias: name(i)}
		if parent[i] >= 0 {
			cfg.Issuer = name(parent[i])
		}
		cfg.Validity.Until = c11CfgEnds[(e.Expired>>1)&3]
		cfg.Validity.IsSet, cfg.Validity.IsStatic = true, true
		cfg.Validity.From = c11T0
		meta := &db.Metadata{}
		art := &db.BuildArtifact{}
		if e.Art != 0 {
			meta.LastBuild = c11T0.Add(time.Duration(100+10*e.Time) * time.Hour)
			switch e.CfgNew {
			case 1:
				meta.LastConfigUpdate = meta.LastBuild.Add(time.Hour)
			case 2: // config and artifact carry the same time stamp: the config is not newer
				meta.LastConfigUpdate = meta.LastBuild
			default:
				meta.LastConfigUpdate = meta.LastBuild.Add(-time.Hour)
			}
		} else {
			meta.LastConfigUpdate = c11T0
			if e.CfgNew == 1 {
				meta.LastConfigUpdate = c11T0.Add(time.Hour)
			}
		}
		if e.Art == 1 || e.Art == 2 || e.Art == 4 {
			c := &cert.Certificate{}
			c.TBSCertificate.Validity.NotBefore = c11T0
			c.TBSCertificate.Validity.NotAfter = c11CertValid
			if e.Expired&1 != 0 {
				c.TBSCertificate.Validity.NotBefore = c11Past
				c.TBSCertificate.Validity.NotAfter = c11CertExpired
			} else if e.NotYet {
				c.TBSCertificate.Validity.NotBefore = time.Date(2090, 1, 1, 0, 0, 0, 0, time.UTC)
			}
			art.Certificate = c
		}
		if e.Art == 1 || e.Art == 3 {
			art.PrivateKey = c11Key
		}
		if e.Art == 2 {
			art.Request = c11ReqDummy
		}
		switch e.Hash {
		case 1:
			meta.LastConfigHash = cfg.HashSum()
		case 2:
			meta.LastConfigHash = []byte("a different twenty-b.")[:20]
		}
		s.ents[name(i)] = &synthEnt{cfg, meta, art}
	}
	for i := range ents {
		if parent[i] < 0 {
			s.roots = append(s.roots, name(i))
		} else {
			s.subs[name(parent[i])] = append(s.subs[name(parent[i])], name(i))
		}
	}
	if perm != 0 {
		permute(s.roots, perm)
		for k := range s.subs {
			permute(s.subs[k], perm)
		}
	}
	return s
}

// permute applies the k-th permutation (factorial number system) in place.
func permute(l []string, k int) {
	sort.Strings(l)
	n := len(l)
	out := make([]string, 0, n)
	pool := append([]string{}, l...)
	f := 1
	for i := 2; i < n; i++ {
		f *= i
	}
	for i := n - 1; i >= 0; i-- {
		idx := 0
		if i > 0 {
			idx = (k / f) % (i + 1)
			f = f / maxInt(i, 1)
		}
		out = append(out, pool[idx])
		pool = append(pool[:idx], pool[idx+1:]...)
	}
	copy(l, out)
}

func maxInt(a, b int) int {
	if a > b {
		return a
	}
	return b
}

// c11Expect computes the model's verdict per entity for a forest.
func c11Expect(ents []c11Ent, parent []int, strat int) ([]refcfg.Verdict, []string) {
	n := len(ents)
	v := make([]refcfg.Verdict, n)
	why := make([]string, n)
	done := make([]bool, n)
	var eval func(i int)
	eval = func(i int) {
		if done[i] {
			return
		}
		done[i] = true
		p := parent[i]
		issuerRegen := false
		var st refcfg.EntityState
		if p >= 0 {
			eval(p)
			issuerRegen = v[p] == refcfg.Regen
			st = c11State(ents[i], true, ents[p].Time, ents[p].Art != 0)
			if v[p] == refcfg.Either {
				// whether the issuer is regenerated is open, so is the subject unless it has its own reason
				vv, w := refcfg.Decide(st, strat, false)
				if vv != refcfg.Regen {
					vv = refcfg.Either
				}
				v[i], why[i] = vv, w
				return
			}
		} else {
			st = c11State(ents[i], false, 0, false)
		}
		v[i], why[i] = refcfg.Decide(st, strat, issuerRegen)
	}
	for i := 0; i < n; i++ {
		eval(i)
	}
	return v, why
}

func c11Strat(s int) db.UpdateStrategy { return db.UpdateStrategy(s) }

// c11CheckPlan compares a plan with the model.
func c11CheckPlan(x *engine.Ctx, layer string, ents []c11Ent, parent []int, strat int, plan []drive.PlanEntry, replay any) {
	want, why := c11Expect(ents, parent, strat)
	planned := map[string]int{}
	for i, p := range plan {
		planned[p.Alias] = i
	}
	for i := range ents {
		a := fmt.Sprintf("e%d", i)
		idx, got := planned[a]
		if want[i] == refcfg.Either {
			continue
		}
		if got != (want[i] == refcfg.Regen) {
			exp := "keep"
			if want[i] == refcfg.Regen {
				exp = "regenerate (" + why[i] + ")"
			}
			gotS := map[bool]string{true: "regenerate", false: "keep"}[got]
			x.ViolationCase(fmt.Sprintf("C11/decision/%s artifact=%s expected=%s got=%s missing-flag=%v reason=%s",
				layer, c11ArtNames[ents[i].Art], strings.SplitN(exp, " ", 2)[0], gotS, strat&1 != 0, orNone(why[i])),
				fmt.Sprintf("entity %s (parent %v) state %+v, strategy %05b: model says %s, planned=%v; all: %+v parents %v plan %v", a, parent[i], ents[i], strat, exp, got, ents, parent, plan), replay)
			continue
		}
		if got {
			hadCert := ents[i].Art == 1 || ents[i].Art == 2 || ents[i].Art == 4
			if plan[idx].Replace != hadCert {
				x.ViolationCase("C11/change-type/"+layer, fmt.Sprintf("entity %s: certificate existed=%v but change is replace=%v", a, hadCert, plan[idx].Replace), replay)
			}
			if parent[i] >= 0 {
				if pi, ok := planned[fmt.Sprintf("e%d", parent[i])]; ok && pi > idx {
					x.ViolationCase("C11/order/"+layer, fmt.Sprintf("entity %s is planned before its issuer e%d: %v", a, parent[i], plan), replay)
				}
			}
		}
	}
	seen := map[string]bool{}
	for _, p := range plan {
		if seen[p.Alias] {
			x.ViolationCase("C11/planned-twice/"+layer, fmt.Sprintf("%v", plan), replay)
		}
		seen[p.Alias] = true
	}
}

func orNone(s string) string {
	if s == "" {
		return "none"
	}
	return strings.ReplaceAll(s, " ", "-")
}

func c11Role(parent []int, i int) string {
	if parent[i] < 0 {
		return "root"
	}
	return "sub"
}

// c11FlagClass names only the flags that matter for the entity's own state.
func c11FlagClass(strat int, e c11Ent) string {
	var f []string
	for _, p := range []struct {
		bit  int
		name string
	}{{1, "missing"}, {2, "expired"}, {4, "outdated"}, {8, "changed"}, {16, "all"}} {
		if strat&p.bit != 0 {
			f = append(f, p.name)
		}
	}
	if len(f) == 0 {
		return "none"
	}
	return strings.Join(f, "+")
}

func c11RunSynth(x *engine.Ctx, ents []c11Ent, parent []int, strat, perm int) {
	s := c11Build(ents, parent, perm)
	replay := &c11Case{Kind: "forest", Ents: ents, Parent: parent, Strat: strat, Perm: perm}
	var plan []drive.PlanEntry
	var perr error
	func() {
		defer func() {
			if r := recover(); r != nil {
				perr = fmt.Errorf("panic: %v", r)
			}
		}()
		changes, err := db.PlanBulkUpdate(s, c11Strat(strat))
		perr = err
		for _, c := range changes {
			plan = append(plan, drive.PlanEntry{Alias: c.Alias, Replace: c.Change == db.ChangeReplace})
		}
	}()
	if perr != nil {
		x.ViolationCase("C11/plan-error/synthetic", perr.Error(), replay)
		return
	}
	c11CheckPlan(x, "synthetic", ents, parent, strat, plan, replay)
}

func c11AllEnts(f func(e c11Ent)) {
	for art := 0; art < 5; art++ {
		for hash := 0; hash < 3; hash++ {
			for exp := 0; exp < 8; exp++ {
				hasCert := art == 1 || art == 2 || art == 4
				if !hasCert && exp&1 != 0 {
					continue // no certificate that could be expired
				}
				for cn := 0; cn < 3; cn++ {
					if cn == 2 && art == 0 {
						continue // no artifact to tie with
					}
					f(c11Ent{Art: art, Hash: hash, Expired: exp, CfgNew: cn})
					if hasCert && exp&1 == 0 {
						f(c11Ent{Art: art, Hash: hash, Expired: exp, CfgNew: cn, NotYet: true})
					}
				}
			}
		}
	}
}

var c11Edits = []string{"issuer-to-the-other-root", "subject", "serial", "profile-extension-content", "profile-validity", "own-extension-added", "none"}

// c11RealEdit: the "hash differs from the current effective configuration" condition produced by a real edit of
// the entity's or its profile's file (the synthetic realisations write a different hash line instead).
func c11RealEdit(x *engine.Ctx, c *c11Case) {
	prof := &refcfg.ProfileCfg{Path: "prof.yaml", Name: "p", Validity: &refcfg.Validity{From: "2022-01-01", Until: "2032-01-01"},
		Exts: []refcfg.Ext{{Kind: refcfg.KKU, Critical: refcfg.B(true), KU: refcfg.Strs("digitalSignature")}}}
	ca1 := &refcfg.CertCfg{Path: "ca1.yaml", Subject: "CN=CA One", KeyAlg: "P-224"}
	ca2 := &refcfg.CertCfg{Path: "ca2.yaml", Subject: "CN=CA Two", KeyAlg: "P-224"}
	ee := &refcfg.CertCfg{Path: "ee.yaml", Subject: "CN=EE", Issuer: "ca1", KeyAlg: "P-224", Profile: "p"}
	d := &Dir{Certs: []*refcfg.CertCfg{ca1, ca2, ee}, Profiles: []*refcfg.ProfileCfg{prof}}
	w := simfs.New(simfs.TickPerWrite)
	d.Render(w)
	if r0 := drive.Run(w, drive.Default, nil); !r0.OK() {
		x.Violation("C11/real-edit/first-run-failed", fmt.Sprintf("%v %s", r0.Err(), r0.Panic))
		return
	}
	switch c11Edits[c.N] {
	case "issuer-to-the-other-root":
		ee.Issuer = "ca2" // ca2.pem is older than ee.pem: no other reason applies
	case "subject":
		ee.Subject = "CN=EE renamed"
	case "serial":
		ee.Serial = refcfg.I64(99)
	case "profile-extension-content":
		prof.Exts[0].KU = refcfg.Strs("keyEncipherment")
	case "profile-validity":
		prof.Validity.Until = "2033-03-03"
	case "own-extension-added":
		ee.Exts = []refcfg.Ext{{Kind: refcfg.KOCSP}}
	}
	if strings.HasPrefix(c11Edits[c.N], "profile-") {
		w.Put(prof.Path, RenderCfg(prof.Path, prof.Tree()))
	} else if c11Edits[c.N] != "none" {
		w.Put(ee.Path, RenderCfg(ee.Path, ee.Tree()))
	}
	strat := c11Strat(c.Strat)
	t0 := time.Now().Unix()
	res := drive.Run(w, strat, nil)
	t1 := time.Now().Unix()
	x.Transition(2)
	x.Nontrivial(fmt.Sprintf("real-edit %d %d", c.N, c.Strat))
	if !res.OK() {
		x.Violation("C11/real-edit/run-failed edit="+c11Edits[c.N], fmt.Sprintf("strategy %05b: %v %s", c.Strat, res.Err(), res.Panic))
		return
	}
	want := c11Edits[c.N] != "none" && strat&db.UpdateChanged != 0
	got := res.Planned("ee")
	if want != got {
		x.Violation(fmt.Sprintf("C11/real-edit/decision edit=%s expected=%v got=%v", c11Edits[c.N], want, got), fmt.Sprintf("edit %s, then a run with strategy %05b: the stored hash %s the effective configuration, plan %v", c11Edits[c.N], c.Strat, map[bool]string{true: "differs from", false: "equals"}[c11Edits[c.N] != "none"], res.PlanAliases()))
		return
	}
	if res.Planned("ca1") || res.Planned("ca2") {
		x.Violation("C11/real-edit/unrelated-entity-regenerated edit="+c11Edits[c.N], fmt.Sprintf("strategy %05b: plan %v", c.Strat, res.PlanAliases()))
	}
	if got {
		diffs, _, err := (&GenResult{W: w, Res: res, RunStart: t0, RunEnd: t1}).CompareEntity(d, "ee", "")
		if err != nil {
			x.Violation("C11/real-edit/no-certificate edit="+c11Edits[c.N], err.Error())
			return
		}
		for _, df := range diffs {
			x.Violation("C11/real-edit/regenerated-but-not-from-the-current-files/"+strings.TrimPrefix(df.Class, df.Owner+"/")+" edit="+c11Edits[c.N], short(df.Detail, 400))
		}
	}
	x.Outcome("real edit")
}

func c11Enumerate(tier string, yield func(any)) {
	// real edits of the entity's or its profile's file x strategies without generate-outdated and generate-all
	for e := range c11Edits {
		for _, st := range []int{0, int(db.UpdateMissing), int(db.UpdateChanged), int(db.UpdateExpired), int(db.UpdateMissing | db.UpdateChanged), int(db.UpdateChanged | db.UpdateExpired), int(db.UpdateMissing | db.UpdateExpired), int(db.UpdateMissing | db.UpdateChanged | db.UpdateExpired)} {
			yield(&c11Case{Kind: "real-edit", N: e, Strat: st})
		}
	}
	if tier == "thorough" {
		c11AllEnts(func(e c11Ent) { yield(&c11Case{Kind: "pair", Issuer: e}) })
	} else {
		// quick: 16 representative issuer states x the full subject product
		for _, e := range []c11Ent{{Art: 0}, {Art: 0, Hash: 2}, {Art: 1, Hash: 1}, {Art: 1, Hash: 2}, {Art: 2, Hash: 1}, {Art: 2, Hash: 2}, {Art: 3, Hash: 1}, {Art: 3, Hash: 2},
			{Art: 4, Hash: 1}, {Art: 4, Hash: 2}, {Art: 1, Hash: 1, Expired: 3}, {Art: 1, Hash: 1, CfgNew: 1}, {Art: 2, Hash: 1, Expired: 3}, {Art: 4}, {Art: 3}, {Art: 1}} {
			yield(&c11Case{Kind: "pair", Issuer: e})
		}
	}
	maxN := 3
	if tier == "thorough" {
		maxN = 4
	}
	for n := 1; n <= maxN; n++ {
		forests(n, func(p []int) {
			for shard := 0; shard < len(c11Alphabet(tier, n)); shard++ {
				yield(&c11Case{Kind: "forest", N: n, Parent: p, Perm: shard})
			}
		})
	}
	for ra := 0; ra < 5; ra++ {
		for rh := 0; rh < 3; rh++ {
			for sa := 0; sa < 5; sa++ {
				for sh := 0; sh < 3; sh++ {
					yield(&c11Case{Kind: "files", RootArt: ra, RootHash: rh, SubArt: sa, SubHash: sh})
				}
			}
		}
	}
	// the hash line behind a remark line / behind the blocks (complete artifacts, hash equal or different)
	for hp := 1; hp <= 2; hp++ {
		for rh := 1; rh < 3; rh++ {
			for sh := 1; sh < 3; sh++ {
				yield(&c11Case{Kind: "files", RootArt: 1, RootHash: rh, SubArt: 1, SubHash: sh, HashPlace: hp})
			}
		}
	}
	for reason := 0; reason < 6; reason++ {
		yield(&c11Case{Kind: "cli", N: reason})
		for hist := 0; hist < 4; hist++ {
			yield(&c11Case{Kind: "cliorder", N: reason, Strat: hist}) // reason doubles as the permutation of names (6 of each)
		}
		// the same with the subordinate's configuration file being a symbolic link (native filesystem)
		yield(&c11Case{Kind: "cli", N: reason, Link: true})
	}
	// an issuer that is planned but cannot be built: nothing below it may be written in that run
	for ent := 0; ent < 2; ent++ {
		for _, st := range []int{9, 8, 16, 25} {
			for how := 0; how < 2; how++ {
				yield(&c11Case{Kind: "failing-issuer", N: ent, Strat: st, Perm: how})
			}
		}
	}
	// flag spellings: each of the five flags unmentioned (default), given (true) or given as =false
	for world := 1; world <= 3; world++ {
		for first := 0; first < 3; first++ {
			yield(&c11Case{Kind: "clispell", N: world, Strat: first})
		}
	}
}

func c11Exec(x *engine.Ctx, cc any) {
	c := cc.(*c11Case)
	switch c.Kind {
	case "pair":
		var n int64
		c11AllEnts(func(sub c11Ent) {
			for rel := 0; rel < 3; rel++ {
				iss := c.Issuer
				iss.Time, sub.Time = 1, 1
				switch rel {
				case 0:
					sub.Time = 2 // issuer older
				case 2:
					sub.Time = 0 // issuer newer
				}
				for strat := 0; strat < 32; strat++ {
					c11RunSynth(x, []c11Ent{iss, sub}, []int{-1, 0}, strat, 0)
					n++
				}
			}
		})
		x.Eval(n - 1)
		x.NontrivialN(n)
		x.Transition(n)
		x.Outcome("pair product")
	case "forest":
		if c.Ents != nil { // replay
			c11RunSynth(x, c.Ents, c.Parent, c.Strat, c.Perm)
			return
		}
		// per-entity reduced alphabet x artifact-time orders x strategies (x permutations for n<=3)
		alpha := c11Alphabet(x.Tier, c.N)
		n := c.N
		orders := timeOrders(n)
		perms := 1
		if n <= 3 {
			perms = 6
		}
		var cnt int64
		idx := make([]int, n)
		idx[0] = c.Perm // shard: first entity's letter is fixed
		for {
			for _, ord := range orders {
				ents := make([]c11Ent, n)
				for i := range ents {
					ents[i] = alpha[idx[i]]
					ents[i].Time = ord[i]
				}
				for strat := 0; strat < 32; strat++ {
					for pm := 0; pm < perms; pm++ {
						if pm > 0 && strat != 9 && strat != 16 && strat != 31 && strat != 4 {
							continue // return-order permutations: with four representative strategies
						}
						c11RunSynth(x, ents, c.Parent, strat, pm)
						cnt++
					}
				}
			}
			k := 1
			for k < n {
				idx[k]++
				if idx[k] < len(alpha) {
					break
				}
				idx[k] = 0
				k++
			}
			if k >= n {
				break
			}
		}
		x.Eval(cnt - 1)
		x.NontrivialN(cnt)
		x.Transition(cnt)
		x.Outcome(fmt.Sprintf("forest n=%d", n))
	case "files":
		c11Files(x, c)
	case "real-edit":
		c11RealEdit(x, c)
	case "failing-issuer":
		c11FailingIssuer(x, c)
	case "cli":
		c11CLI(x, c)
	case "clispell":
		c11CLISpell(x, c)
	case "cliorder":
		c11CLIOrder(x, c)
	}
}

// c11FailingIssuer: settled root -> mid -> leaf (+ an unrelated root with a child). Entity N (root or mid)
// is edited so that it is due for regeneration but cannot be signed (how 0: a signature algorithm that
// does not fit the issuer's key; how 1: an extension whose content cannot be compiled). "Issuers are
// always generated before the entities they sign, so every entity is signed by its issuer's new
// certificate": when the issuer is not regenerated, nothing below it is, for no reason of its own applies.
func c11FailingIssuer(x *engine.Ctx, c *c11Case) {
	names := []string{"root", "mid", "leaf", "other", "otherleaf"}
	issuers := []string{"", "root", "mid", "", "other"}
	d := &Dir{}
	for i, n := range names {
		d.Certs = append(d.Certs, &refcfg.CertCfg{Path: n + ".yaml", Subject: "CN=" + n, KeyAlg: "P-224", Issuer: issuers[i]})
	}
	g := Generate(d, nil, drive.Default)
	if !g.Res.OK() {
		x.Violation("C11/failing-issuer/settling-run-failed", fmt.Sprint(g.Res.Err(), g.Res.Panic))
		return
	}
	w := g.W
	e := d.Certs[c.N]
	how := "signature-algorithm-misfit"
	if c.Perm == 0 {
		e.SigAlg = "RSAwithSHA256" // every key here is EC
	} else {
		how = "uncompilable-extension"
		e.Exts = []refcfg.Ext{{Kind: refcfg.KCustom, CustomOID: "1.2.3.4", Raw: refcfg.Bin([]byte{1})}, {Kind: refcfg.KEKU, EKU: refcfg.Strs("1")}} // a one-arc OID cannot be encoded
	}
	w.Put(e.Path, e.YAML())
	before := w.Clone()
	res := drive.Run(w, dbStrat(c.Strat), nil)
	x.Transition(1)
	x.Nontrivial(fmt.Sprintf("failing-issuer %d %d %d", c.N, c.Strat, c.Perm))
	feat := fmt.Sprintf("entity=%s how=%s", names[c.N], how)
	if res.Panic != "" {
		x.Violation("C11/failing-issuer/panic/"+res.PanicSite, res.Panic)
		return
	}
	if res.OK() {
		if !res.Planned(names[c.N]) {
			x.Outcome("failing-issuer: configuration refused earlier or entity not planned")
			return
		}
		x.Violation("C11/failing-issuer/run-succeeded "+feat, fmt.Sprintf("strategy %05b: %s cannot be signed, yet the run reported success", c.Strat, names[c.N]))
		return
	}
	x.Outcome("failing-issuer: run failed as it must")
	// descendants of the failing entity (and the entity itself) keep their files
	below := map[string]bool{names[c.N]: true}
	for i := c.N + 1; i < 3; i++ {
		below[names[i]] = true
	}
	for _, df := range simfs.Diff(before, w) {
		for n := range below {
			if strings.HasSuffix(df, ":"+n+".pem") {
				x.Violation("C11/failing-issuer/written-below-an-issuer-that-was-not-regenerated "+feat, fmt.Sprintf("strategy %05b: %s failed to generate, yet %s", c.Strat, names[c.N], df))
			}
		}
	}
}

// c11CLISpell: the documented defaults (-m and -c on, the others off) and the flag spellings.
func c11CLISpell(x *engine.Ctx, c *c11Case) {
	base, err := c11GetBase()
	if err != nil {
		x.Cap(err.Error())
		return
	}
	worlds := [][]c11Ent{nil,
		{{Art: 1, Hash: 1, Time: 1}, {Art: 0}},                              // sub missing
		{{Art: 1, Hash: 1, Time: 1}, {Art: 1, Hash: 2, Time: 2}},            // sub changed
		{{Art: 1, Hash: 1, Time: 1}, {Art: 1, Hash: 1, CfgNew: 1, Time: 2}}, // sub outdated
	}
	ents := worlds[c.N]
	for i := range ents {
		ents[i].Expired = 2
	}
	type fl struct {
		long, short string
		bit         int
		def         bool
	}
	flags := []fl{{"generate-missing", "m", 1, true}, {"generate-expired", "e", 2, false}, {"generate-outdated", "o", 4, false}, {"generate-changed", "c", 8, true}, {"generate-all", "a", 16, false}}
	var n int64
	for spell := c.Strat; spell < 243; spell += 3 {
		var args []string
		eff := 0
		v := spell
		for k, f := range flags {
			mode := v % 3
			v /= 3
			on := f.def
			switch mode {
			case 1:
				on = true
				if (spell+k)%2 == 0 {
					args = append(args, "-"+f.short)
				} else {
					args = append(args, "--"+f.long)
				}
			case 2:
				on = false
				if (spell+k)%2 == 0 {
					args = append(args, "-"+f.short+"=false")
				} else {
					args = append(args, "--"+f.long+"=false")
				}
			}
			if on {
				eff |= f.bit
			}
		}
		w := simfs.New(simfs.TickPerWrite)
		cfgs := [][]byte{base.rootCfg, base.subCfg}
		pems := [][]byte{base.rootPem, base.subPem}
		for i, e := range ents {
			artTick := int64(100 + 10*e.Time)
			cfgTick := artTick - 1
			if e.CfgNew == 1 {
				cfgTick = artTick + 1
			}
			w.PutAt(fmt.Sprintf("e%d.yaml", i), cfgs[i], cfgTick)
			if v := c11Variant(pems[i], e.Art, e.Hash, ""); v != nil {
				w.PutAt(fmt.Sprintf("e%d.pem", i), v, artTick)
			}
		}
		before := w.Clone()
		res, err := drive.RunCLIArgs(w, args, "y\n")
		if err != nil {
			x.Cap("cli: " + err.Error())
			return
		}
		x.TraceValidated(1)
		n++
		want, why := c11Expect(ents, []int{-1, 0}, eff)
		changed := map[string]bool{}
		for _, df := range simfs.Diff(before, w) {
			changed[df] = true
		}
		for i := range ents {
			if want[i] == refcfg.Either {
				continue
			}
			p := fmt.Sprintf("e%d.pem", i)
			got := changed["content:"+p] || changed["created:"+p]
			if got != (want[i] == refcfg.Regen) {
				x.Violation(fmt.Sprintf("C11/cli/flag-defaults world=%d entity=%d expected-regen=%v", c.N, i, want[i] == refcfg.Regen), fmt.Sprintf("arguments %v mean strategy %05b (defaults: -m and -c on): model %v (%s), file rewritten=%v; exit=%d stdout=%q", args, eff, want[i], why[i], got, res.Exit, short(res.Stdout, 300)))
			}
		}
	}
	x.Eval(n - 1)
	x.NontrivialN(n)
	x.Outcome("cli flag spellings")
}

// c11Alphabet: per-entity letters for the forest layer (smaller for larger forests).
func c11Alphabet(tier string, n int) []c11Ent {
	full := []c11Ent{
		{Art: 1, Hash: 1},             // complete, nothing to do
		{Art: 0},                      // missing
		{Art: 1, Hash: 2},             // changed
		{Art: 2, Hash: 1},             // CSR-based, complete
		{Art: 1, Hash: 1, CfgNew: 1},  // outdated
		{Art: 1, Hash: 1, Expired: 3}, // expired, config end in future
	}
	switch {
	case n >= 4:
		return full[:3]
	case n == 3 && tier != "thorough":
		return full[:4]
	}
	return full
}

// timeOrders: all strict orders plus the all-equal assignment of artifact-time ranks.
func timeOrders(n int) [][]int {
	var out [][]int
	perm := make([]int, n)
	for i := range perm {
		perm[i] = i
	}
	var rec func(k int)
	rec = func(k int) {
		if k == n {
			out = append(out, append([]int{}, perm...))
			return
		}
		for i := k; i < n; i++ {
			perm[k], perm[i] = perm[i], perm[k]
			rec(k + 1)
			perm[k], perm[i] = perm[i], perm[k]
		}
	}
	rec(0)
	out = append(out, make([]int, n))
	return out
}

// ---------------------------------------------------------------- file layer

type c11Base struct {
	rootCfg, subCfg   []byte
	rootPem, subPem   []byte
	rootHash, subHash string
}

var c11BaseCache *c11Base

func c11GetBase() (*c11Base, error) {
	if c11BaseCache != nil {
		return c11BaseCache, nil
	}
	d := c11Dir()
	g := Generate(d, func(w *simfs.World) {
		w.Put("e0.pem", FixtureKeyPEM("P-224-0"))
		w.Put("e1.pem", FixtureKeyPEM("P-224-1"))
	}, drive.Default)
	if !g.Res.OK() {
		return nil, fmt.Errorf("base run failed: %v %s", g.Res.Err(), g.Res.Panic)
	}
	b := &c11Base{rootCfg: g.W.Files["e0.yaml"].Data, subCfg: g.W.Files["e1.yaml"].Data, rootPem: g.W.Files["e0.pem"].Data, subPem: g.W.Files["e1.pem"].Data}
	c11BaseCache = b
	return b, nil
}

func c11Dir() *Dir {
	return &Dir{Certs: []*refcfg.CertCfg{
		{Path: "e0.yaml", Subject: "CN=Root", KeyAlg: "P-224", Validity: &refcfg.Validity{From: "2020-01-01", Until: "2090-01-01"}},
		{Path: "e1.yaml", Subject: "CN=Sub", KeyAlg: "P-224", Issuer: "e0", Validity: &refcfg.Validity{From: "2020-01-01", Until: "2090-01-01"}},
	}}
}

// c11Variant derives an artifact file of the given kind / hash state from a complete one.
// c11HashPlace: where the hash line stands in the artifact files c11Variant builds: 0 first line (as gopki
// writes it), 1 behind a remark line, 2 behind the blocks. The line may stand anywhere in the file.
var c11HashPlace = 0

func c11Variant(pem []byte, art, hash int, keyFixture string) []byte {
	if art == 0 {
		return nil
	}
	pf := refx509.SplitPem(pem)
	var out, hashLine []byte
	switch hash {
	case 1:
		hashLine = []byte("#HASH:" + *pf.HashLine + "\n")
	case 2:
		h := []byte(*pf.HashLine)
		if h[0] == 'A' {
			h[0] = 'B'
		} else {
			h[0] = 'A'
		}
		hashLine = []byte("#HASH:" + string(h) + "\n")
	}
	switch c11HashPlace {
	case 0:
		out = append(out, hashLine...)
	case 1:
		out = append(append(out, []byte("# kept under version control, do not edit by hand\n")...), hashLine...)
	}
	if c11HashPlace == 2 {
		body := c11Variant0(pf, art)
		return append(body, hashLine...)
	}
	return append(out, c11Variant0(pf, art)...)
}

func c11Variant0(pf *refx509.PemFile, art int) []byte {
	var out []byte
	certB := refx509.EncodePem("CERTIFICATE", pf.CertDER)
	keyB := refx509.EncodePem("PRIVATE KEY", pf.KeyDER)
	switch art {
	case 1:
		out = append(append(out, certB...), keyB...)
	case 2:
		k, _ := refx509.ParsePKCS8(pf.KeyDER)
		out = append(append(out, certB...), refx509.EncodePem("CERTIFICATE REQUEST", refx509.BuildCSR(k, "req", nil))...)
	case 3:
		out = append(out, keyB...)
	case 4:
		out = append(out, certB...)
	}
	return out
}

func c11Files(x *engine.Ctx, c *c11Case) {
	c11HashPlace = c.HashPlace
	defer func() { c11HashPlace = 0 }()
	base, err := c11GetBase()
	if err != nil {
		x.Cap(err.Error())
		return
	}
	var n int64
	for rcn := 0; rcn < 3; rcn++ {
		for scn := 0; scn < 3; scn++ {
			for rel := 0; rel < 3; rel++ {
				for strat := 0; strat < 32; strat++ {
					if (rcn == 2 && c.RootArt == 0) || (scn == 2 && c.SubArt == 0) {
						continue // no artifact file to share a time stamp with
					}
					if x.Tier != "thorough" && (rcn+scn > 0) && (rel != 1 || strat&4 == 0 || strat&^13 != 0) {
						continue // quick: config-newer variants only with the strategies that read them
					}
					ents := []c11Ent{{Art: c.RootArt, Hash: c.RootHash, CfgNew: rcn, Expired: 2, Time: 1}, {Art: c.SubArt, Hash: c.SubHash, CfgNew: scn, Expired: 2, Time: 1}}
					switch rel {
					case 0:
						ents[1].Time = 2
					case 2:
						ents[1].Time = 0
					}
					if ents[0].Art == 0 {
						ents[0].Hash = 0
					}
					if ents[1].Art == 0 {
						ents[1].Hash = 0
					}
					c11FilesOne(x, base, ents, strat)
					n++
				}
			}
		}
	}
	x.Eval(n - 1)
	x.NontrivialN(n)
	x.Transition(n)
	x.Outcome("files")
}

func c11FilesOne(x *engine.Ctx, base *c11Base, ents []c11Ent, strat int) {
	w := simfs.New(simfs.TickPerWrite)
	cfgs := [][]byte{base.rootCfg, base.subCfg}
	pems := [][]byte{base.rootPem, base.subPem}
	for i, e := range ents {
		artTick := int64(100 + 10*e.Time)
		cfgTick := artTick - 1
		if e.CfgNew == 1 {
			cfgTick = artTick + 1
		} else if e.CfgNew == 2 {
			cfgTick = artTick // same time stamp: the config is not newer than the artifact
		}
		w.PutAt(fmt.Sprintf("e%d.yaml", i), cfgs[i], cfgTick)
		if v := c11Variant(pems[i], e.Art, e.Hash, ""); v != nil {
			w.PutAt(fmt.Sprintf("e%d.pem", i), v, artTick)
		}
	}
	w.Clock = 200
	replay := &c11Case{Kind: "files1", Ents: ents, Strat: strat}
	before := w.Clone()
	res := drive.Run(w, c11Strat(strat), nil)
	if res.OpenErr != nil || res.PlanErr != nil {
		x.ViolationCase("C11/files/run-error", fmt.Sprintf("%v", res.Err()), replay)
		return
	}
	// the plan is known even if BulkUpdate fails or panics later (C20 owns those crashes)
	c11CheckPlan(x, "files", ents, []int{-1, 0}, strat, res.Plan, replay)
	if res.Panic != "" || res.UpdateErr != nil {
		x.Outcome("files: update failed/panicked (C20)")
		return
	}
	// write order: issuer first; regenerated subject verifies under the issuer written in this run
	pos := map[string]int{}
	for i, r := range w.Log {
		pos[r.Path] = i
	}
	if p0, ok0 := pos["e0.pem"]; ok0 {
		if p1, ok1 := pos["e1.pem"]; ok1 && p1 < p0 {
			x.ViolationCase("C11/files/write-order", fmt.Sprintf("subject written before issuer: %v", w.Log), replay)
		}
	}
	if _, wrote1 := pos["e1.pem"]; wrote1 {
		a1 := ReadArtifact(w, "e1.yaml")
		a0 := ReadArtifact(w, "e0.yaml")
		if a1.Cert != nil && a0.Cert != nil {
			if err := VerifyChainLink(a1.Cert, a0.Cert); err != nil {
				x.ViolationCase("C11/files/subject-not-under-new-issuer", err.Error(), replay)
			}
		}
	}
	// nothing but planned artifacts written
	for _, df := range simfs.Diff(before, w) {
		ok := false
		for _, p := range res.Plan {
			if strings.HasSuffix(df, ":"+p.Alias+".pem") {
				ok = true
			}
		}
		if !ok {
			x.ViolationCase("C11/files/unplanned-write", df, replay)
		}
	}
}

// c11CLIOrder: "issuers are always generated before the entities they sign" on the binary, where the
// order of generation is not the order of names: a settled chain root -> mid -> leaf whose three file
// names are a permutation (c.N) of a-, b-, c-; then (c.Strat) the root's name is edited / the root's
// artifact is deleted / the intermediate's name is edited / the root's name is edited and the leaf's
// artifact deleted; one run with the default flags (answer y): exit 0, every certificate names and
// verifies under the certificate its issuer has now, and one more run has nothing to do.
func c11CLIOrder(x *engine.Ctx, c *c11Case) {
	perms := [][3]string{{"a", "b", "c"}, {"a", "c", "b"}, {"b", "a", "c"}, {"b", "c", "a"}, {"c", "a", "b"}, {"c", "b", "a"}}
	pm := perms[c.N%6]
	names := []string{pm[0] + "-root", pm[1] + "-mid", pm[2] + "-leaf"}
	d := &Dir{Certs: []*refcfg.CertCfg{
		{Path: names[0] + ".yaml", Subject: "CN=order root", KeyAlg: "P-224"},
		{Path: names[1] + ".yaml", Subject: "CN=order mid", KeyAlg: "P-224", Issuer: names[0]},
		{Path: names[2] + ".yaml", Subject: "CN=order leaf", KeyAlg: "P-256", Issuer: names[1]},
	}}
	g := Generate(d, func(w *simfs.World) {
		for i, n := range names {
			w.Put(n+".pem", FixtureKeyPEM([]string{"P-224-0", "P-224-1", "P-256-0"}[i]))
		}
	}, drive.Default)
	x.Nontrivial(fmt.Sprintf("cliorder %d %d", c.N, c.Strat))
	if !g.Res.OK() {
		x.Cap("cliorder: settling run failed: " + errStr(g.Res.Err()))
		return
	}
	w := g.W
	switch c.Strat {
	case 0:
		d.Certs[0].Subject = "CN=order root renamed"
		w.Put(d.Certs[0].Path, RenderCfg(d.Certs[0].Path, d.Certs[0].Tree()))
	case 1:
		w.Remove(names[0] + ".pem")
	case 2:
		d.Certs[1].Subject = "CN=order mid renamed"
		w.Put(d.Certs[1].Path, RenderCfg(d.Certs[1].Path, d.Certs[1].Tree()))
	case 3:
		d.Certs[0].Subject = "CN=order root renamed"
		w.Put(d.Certs[0].Path, RenderCfg(d.Certs[0].Path, d.Certs[0].Tree()))
		w.Remove(names[2] + ".pem")
	}
	res, err := drive.RunCLI(w, drive.Default, "y\n")
	if err != nil {
		x.Cap("cli: " + err.Error())
		return
	}
	x.TraceValidated(1)
	x.Transition(1)
	what := []string{"root renamed", "root artifact deleted", "intermediate renamed", "root renamed and leaf artifact deleted"}[c.Strat]
	if res.Exit != 0 {
		x.Violation("C11/cli-order/exit", fmt.Sprintf("names %v, %s: exit %d: %s", names, what, res.Exit, short(res.Stdout, 400)))
		return
	}
	var certs [3]*refx509.Cert
	for i := range names {
		a := ReadArtifact(w, d.Certs[i].Path)
		if a.Cert == nil {
			x.Violation("C11/cli-order/no-certificate", fmt.Sprintf("names %v, %s: %s has no certificate after the run", names, what, names[i]))
			return
		}
		certs[i] = a.Cert
	}
	for i := 1; i < 3; i++ {
		if err := VerifyChainLink(certs[i], certs[i-1]); err != nil {
			x.Violation("C11/cli-order/subject-not-under-new-issuer", fmt.Sprintf("names %v, %s: %s under %s: %v", names, what, names[i], names[i-1], err))
			return
		}
	}
	before := w.Clone()
	res2, err := drive.RunCLI(w, drive.Default, "n\n")
	if err != nil {
		x.Cap("cli: " + err.Error())
		return
	}
	x.TraceValidated(1)
	x.Transition(1)
	if df := simfs.Diff(before, w); len(df) != 0 || strings.Contains(res2.Stdout, "Proceed") {
		x.Violation("C11/cli-order/second-run-has-work", fmt.Sprintf("names %v, %s: the run after it wants to replace something (%v): %s", names, what, df, short(res2.Stdout, 300)))
	}
	x.Outcome("cli generation order")
}

// c11CLI: all 32 flag combinations on one world per reason, on the binary.
func c11CLI(x *engine.Ctx, c *c11Case) {
	base, err := c11GetBase()
	if err != nil {
		x.Cap(err.Error())
		return
	}
	worlds := [][]c11Ent{
		{{Art: 1, Hash: 1, Time: 1}, {Art: 1, Hash: 1, Time: 2}},            // settled
		{{Art: 1, Hash: 1, Time: 1}, {Art: 0}},                              // sub missing
		{{Art: 1, Hash: 1, Time: 1}, {Art: 1, Hash: 2, Time: 2}},            // sub changed
		{{Art: 1, Hash: 1, Time: 1}, {Art: 1, Hash: 1, CfgNew: 1, Time: 2}}, // sub outdated
		{{Art: 1, Hash: 1, Time: 2}, {Art: 1, Hash: 1, Time: 1}},            // issuer newer
		{{Art: 1, Hash: 2, Time: 1}, {Art: 1, Hash: 1, Time: 2}},            // root changed
	}
	ents := worlds[c.N]
	for i := range ents {
		ents[i].Expired = 2
	}
	for strat := 0; strat < 32; strat++ {
		w := simfs.New(simfs.TickPerWrite)
		cfgs := [][]byte{base.rootCfg, base.subCfg}
		pems := [][]byte{base.rootPem, base.subPem}
		for i, e := range ents {
			artTick := int64(100 + 10*e.Time)
			cfgTick := artTick - 1
			if e.CfgNew == 1 {
				cfgTick = artTick + 1
			}
			if c.Link && i == 1 {
				// the link itself is older than everything; what counts is the file it points to
				w.PutAt("store/e1.conf", cfgs[i], cfgTick)
				w.Symlinks = map[string]string{"e1.yaml": "store/e1.conf"}
			} else {
				w.PutAt(fmt.Sprintf("e%d.yaml", i), cfgs[i], cfgTick)
			}
			if v := c11Variant(pems[i], e.Art, e.Hash, ""); v != nil {
				w.PutAt(fmt.Sprintf("e%d.pem", i), v, artTick)
			}
		}
		before := w.Clone()
		res, err := drive.RunCLI(w, c11Strat(strat), "y\n")
		if err != nil {
			x.Cap("cli: " + err.Error())
			return
		}
		x.TraceValidated(1)
		want, why := c11Expect(ents, []int{-1, 0}, strat)
		changed := map[string]bool{}
		for _, df := range simfs.Diff(before, w) {
			changed[df] = true
		}
		for i := range ents {
			if want[i] == refcfg.Either {
				continue
			}
			p := fmt.Sprintf("e%d.pem", i)
			got := changed["content:"+p] || changed["created:"+p]
			if got != (want[i] == refcfg.Regen) {
				x.Violation(fmt.Sprintf("C11/cli/decision world=%d entity=%d expected-regen=%v", c.N, i, want[i] == refcfg.Regen), fmt.Sprintf("flags %v: model %v (%s), file rewritten=%v; exit=%d stdout=%q", drive.Flags(c11Strat(strat)), want[i], why[i], got, res.Exit, short(res.Stdout, 300)))
			}
		}
		if res.Exit != 0 {
			x.Violation("C11/cli/exit", fmt.Sprintf("exit %d: %s", res.Exit, short(res.Stdout, 300)))
		}
	}
	// defaults: no flags given = -m -c
	x.Eval(31)
	x.NontrivialN(32)
	x.Outcome("cli world")
}

func init() {
	register(&engine.Check{
		ID:          "C11",
		Level:       "model_checking",
		Rule:        "(0) the hash condition produced by real edits: a settled three-entity directory, one of 6 edits of the entity's or its profile's file (issuer moved to the other root, subject, serial, profile extension content, profile validity, own extension) or none x 8 strategies without generate-outdated/-all: regenerated iff generate-changed is on and something was edited, from the current files, nothing else touched. (1) db.PlanBulkUpdate on a synthetic db.Database: for an issuer/subject pair the full product of per-entity states (artifact {absent, cert+key, cert+CSR, key only, cert only} x stored hash {none, equal, different} x (certificate expired / valid / not yet valid) x (configured end before the certificate's end / after it but still past / future / far future) x config older / newer / same time stamp as the artifact) for both entities x issuer-vs-subject artifact time {<,=,>} x all 32 strategies; for every rooted forest on <=3 (quick) / <=4 (thorough) entities a 6-letter per-entity alphabet x all strict artifact-time orders + all-equal x 32 strategies (x 6 return-order permutations of roots/subscribers for n<=3). (2) the same pair states realised as files (hash line, PEM blocks, mtimes) on FsDb+simfs for all 225 artifact/hash combinations x config age x time relation x 32 strategies, followed by BulkUpdate (issuer written first, subject verifies under the issuer written in this run, nothing unplanned written). (3) the CLI binary with all 32 explicit flag combinations on one world per reason, and all 243 spellings of the five flags (unmentioned = default, given, given as =false; short and long forms) on three worlds, which pins the documented defaults (-m and -c on); a settled three-tier chain whose file names are each of the 6 permutations of a-, b-, c- (so that the order of names is not the order of issuing) x {root renamed, root artifact deleted, intermediate renamed, root renamed + leaf artifact deleted}: one default run of the binary, every certificate names and verifies under its issuer's current certificate, and the next run has nothing to do. (4) a settled chain whose root or intermediate is edited so that it is due but cannot be signed (misfitting signature algorithm / uncompilable extension) x 4 strategies: the run fails and no file at or below that entity changes. Oracle: the decision table transcribed from the statement with explicit don't-care cells. states = distinct abstract worlds, transitions = plans computed",
		Bound:       map[string]string{"forest": "quick<=3 thorough<=4", "file layer": "2-entity chain"},
		Assumptions: []string{"comparisons 'newer than its artifact' are not decided when the entity has no artifact file (don't-care)", "expiry is explored with certificates decades away from the wall clock"},
		Budget:      budgets(quickBudget, thoroughBudget),
		Enumerate:   c11Enumerate,
		NewCase:     func() any { return &c11Case{} },
		Exec: func(x *engine.Ctx, c any) {
			cc := c.(*c11Case)
			if cc.Kind == "files1" {
				base, err := c11GetBase()
				if err == nil {
					c11FilesOne(x, base, cc.Ents, cc.Strat)
				}
				return
			}
			x.State(fmt.Sprintf("%+v", *cc))
			t0 := time.Now()
			c11Exec(x, c)
			x.Info("ms_"+cc.Kind, time.Since(t0).Milliseconds())
		},
	})
}
