package checks

import (
	"bytes"
	"encoding/asn1"
	"fmt"
	"strings"

	"github.com/wokdav/gopki/generator"
	"github.com/wokdav/gopki/generator/cert"
	"github.com/wokdav/gopki/generator/config"
	"github.com/wokdav/gopki/generator/db"
	"github.com/wokdav/gopki/generator/db/filesystem"

	"verif/mc/drive"
	"verif/mc/engine"
	"verif/mc/refcfg"
	"verif/mc/refx509"
	"verif/mc/simfs"
)

// C05 — generated keys and signature identifiers match the configured algorithms.

type c05Case struct {
	Role      string `json:"role"`                // root | sub
	IssuerAlg string `json:"issuerAlg,omitempty"` // key type of the issuer (fixture key)
	KeyAlg    string `json:"keyAlg"`              // "" = omitted
	SigAlg    string `json:"sigAlg"`              // "" = omitted
	Gen       bool   `json:"gen"`                 // gopki generates the entity's key (else fixture key imported)
	// role "resign": one certificate body (generator.BuildCertBody) is signed with SigAlg and then again with Second
	Second string `json:"second,omitempty"`
}

func c05Family(alg string) string {
	if strings.HasPrefix(alg, "RSA") {
		return "RSA"
	}
	return "EC"
}

func c05Enumerate(tier string, yield func(any)) {
	// one certificate context keyed twice (cert package interface): every ordered pair over six key types
	for _, a := range []string{"P-256", "P-384", "brainpoolP256r1", "brainpoolP384t1", "RSA-1024", "RSA-2048"} {
		for _, b := range []string{"P-256", "P-384", "brainpoolP256r1", "brainpoolP384t1", "RSA-1024", "RSA-2048"} {
			if a != b {
				yield(&c05Case{Role: "rekey", KeyAlg: a, Second: b})
			}
		}
	}
	// one body signed twice through the generator API: every ordered pair of signature algorithms on an EC and an RSA key
	for _, k := range []string{"P-256", "RSA-2048", "brainpoolP384r1"} {
		for _, a := range refx509.SigAlgNames {
			for _, b := range refx509.SigAlgNames {
				if refx509.SigFamily(refx509.SigAlgByName[b]) == c05Family(k) {
					yield(&c05Case{Role: "resign", KeyAlg: k, SigAlg: a, Second: b})
				}
			}
		}
	}
	// one database object, an entity that names a profile, configured a second time in the same process (db.AddAndSign
	// with overwrite; and a plan that is not carried out, PutConfig with another key algorithm, plan, BulkUpdate)
	for _, k := range []string{"P-256", "RSA-1024"} {
		for _, a := range refx509.SigAlgNames {
			for _, b := range refx509.SigAlgNames {
				if a != b && refx509.SigFamily(refx509.SigAlgByName[a]) == c05Family(k) && refx509.SigFamily(refx509.SigAlgByName[b]) == c05Family(k) {
					yield(&c05Case{Role: "reconfig", KeyAlg: k, SigAlg: a, Second: b})
				}
			}
		}
	}
	for _, a := range []string{"P-224", "P-256", "P-384", "brainpoolP256r1", "brainpoolP256t1", "RSA-1024"} {
		for _, b := range []string{"P-224", "P-256", "P-384", "brainpoolP256r1", "brainpoolP256t1", "RSA-1024"} {
			if a != b {
				yield(&c05Case{Role: "replan", KeyAlg: a, Second: b})
			}
		}
	}
	// a first attempt that fails at signing (a signature algorithm of the other family), then the entity is configured
	// again with another key algorithm on the same database object: the key generated is of the algorithm configured last
	for _, a := range []string{"P-256", "P-384", "brainpoolP256r1", "RSA-1024"} {
		for _, b := range []string{"P-224", "P-384", "brainpoolP256t1", "RSA-1024"} {
			if a != b {
				yield(&c05Case{Role: "retry", KeyAlg: a, Second: b})
			}
		}
	}
	keyAlgs := append([]string{""}, refx509.KeyAlgNames...)
	sigAlgs := append([]string{""}, refx509.SigAlgNames...)
	genOK := func(role, k, s, issuer string) bool {
		switch k {
		case "RSA-8192":
			return tier == "thorough" && s == "" && role == "root"
		case "RSA-4096":
			if tier == "thorough" {
				return issuer == "" || issuer == "P-256" || issuer == "RSA-2048"
			}
			return s == "" && (issuer == "" || issuer == "RSA-2048")
		}
		return true
	}
	for _, k := range keyAlgs {
		for _, s := range sigAlgs {
			yield(&c05Case{Role: "root", KeyAlg: k, SigAlg: s, Gen: genOK("root", k, s, "")})
		}
	}
	for _, ia := range refx509.KeyAlgNames {
		for _, k := range keyAlgs {
			for _, s := range sigAlgs {
				yield(&c05Case{Role: "sub", IssuerAlg: ia, KeyAlg: k, SigAlg: s, Gen: genOK("sub", k, s, ia)})
			}
		}
	}
}

// c05Resign: the same certificate body signed twice through the generator API (a re-issue under another
// algorithm, or a retry after an attempt with an algorithm that does not fit the key). Every certificate that
// comes out names the algorithm it was asked for, inside and outside, and verifies.
func c05Resign(x *engine.Ctx, c *c05Case) {
	pf, err := cert.ReadPem(FixtureKeyPEM(FixtureForAlg(c.KeyAlg, 0)))
	if err != nil || pf.PrivateKey == nil {
		x.Cap(fmt.Sprintf("fixture key unreadable: %v", err))
		return
	}
	subj, _ := config.ParseRDNSequence("CN=resign")
	content := config.CertificateContent{Alias: "resign", Subject: subj, SerialNumber: 5,
		Validity: config.CertificateValidity{From: fixedTime(2020), Until: fixedTime(2030), IsStatic: true, IsSet: true}}
	ctx, err := generator.BuildCertBody(content, pf.PrivateKey, nil)
	if err != nil {
		x.Violation("C05/resign/build-failed", err.Error())
		return
	}
	x.Nontrivial(fmt.Sprintf("resign %s %s %s", c.KeyAlg, c.SigAlg, c.Second))
	for step, name := range []string{c.SigAlg, c.Second} {
		for i, n := range refx509.SigAlgNames {
			if n == name {
				content.SignatureAlgorithm = cert.SignatureAlgorithm(i)
			}
		}
		crt, err := generator.SignCertBody(ctx, content)
		fits := refx509.SigFamily(refx509.SigAlgByName[name]) == c05Family(c.KeyAlg)
		if !fits {
			if err == nil {
				x.Violation("C05/resign/mismatched-algorithm-accepted", fmt.Sprintf("key %s signed with %s", c.KeyAlg, name))
			}
			continue
		}
		if err != nil || crt == nil {
			x.Violation(fmt.Sprintf("C05/resign/sign-failed step=%d", step+1), fmt.Sprintf("key %s, %s after %s: %v", c.KeyAlg, name, c.SigAlg, err))
			return
		}
		der, err := asn1.Marshal(*crt)
		if err != nil {
			x.Violation("C05/resign/unencodable", err.Error())
			return
		}
		cc, err := refx509.ParseCert(der)
		if err != nil {
			x.Violation("C05/resign/undecodable", err.Error())
			return
		}
		want := refx509.SigAlgByName[name]
		if cc.OuterSig.OID != want || cc.InnerSig.OID != want || !bytes.Equal(cc.OuterSig.Raw, cc.InnerSig.Raw) {
			x.Violation(fmt.Sprintf("C05/resign/identifier step=%d", step+1), fmt.Sprintf("key %s: signing #%d asked for %s (%s) after %s; the certificate has tbsCertificate.signature %s (%x) and signatureAlgorithm %s (%x)", c.KeyAlg, step+1, name, want, c.SigAlg, cc.InnerSig.OID, cc.InnerSig.Raw, cc.OuterSig.OID, cc.OuterSig.Raw))
		}
		if err := cc.VerifyUnder(cc); err != nil {
			x.Violation(fmt.Sprintf("C05/resign/does-not-verify step=%d", step+1), fmt.Sprintf("key %s, %s after %s: %v", c.KeyAlg, name, c.SigAlg, err))
		}
	}
	x.Outcome("resigned")
}

// c05Rekey: one certificate context is given a key and then another one (cert package interface); the
// certificate signed afterwards names the algorithm and curve of the key it carries.
func c05Rekey(x *engine.Ctx, c *c05Case) {
	subj, _ := config.ParseRDNSequence("CN=rekey")
	ctx := cert.NewCertificateContext(subj, nil, fixedTime(2020), fixedTime(2030))
	var last *refx509.PrivateKey
	for _, alg := range []string{c.KeyAlg, c.Second} {
		pf, err := cert.ReadPem(FixtureKeyPEM(FixtureForAlg(alg, 0)))
		if err != nil || pf.PrivateKey == nil {
			x.Cap(fmt.Sprintf("fixture key unreadable: %v", err))
			return
		}
		if err := ctx.SetPrivateKey(pf.PrivateKey); err != nil {
			x.Violation("C05/rekey/set-key-failed", fmt.Sprintf("%s: %v", alg, err))
			return
		}
		last, _ = refx509.ParsePKCS8(FixtureKeyDER(FixtureForAlg(alg, 0)))
	}
	ctx.SetIssuer(cert.AsIssuer(*ctx))
	x.Nontrivial(fmt.Sprintf("rekey %s %s", c.KeyAlg, c.Second))
	sig := cert.ECDSAwithSHA256
	if c05Family(c.Second) == "RSA" {
		sig = cert.RSAwithSHA256
	}
	crt, err := ctx.Sign(sig)
	if err != nil || crt == nil {
		x.Violation("C05/rekey/sign-failed", fmt.Sprintf("%s then %s: %v", c.KeyAlg, c.Second, err))
		return
	}
	der, err := asn1.Marshal(*crt)
	if err != nil {
		x.Violation("C05/rekey/unencodable", err.Error())
		return
	}
	cc, err := refx509.ParseCert(der)
	if err != nil {
		x.Violation("C05/rekey/undecodable", err.Error())
		return
	}
	if last != nil && !bytes.Equal(cc.SPKIRaw, refx509.SPKIFor(last)) {
		x.Violation("C05/rekey/spki", fmt.Sprintf("context keyed with %s, then with %s: SubjectPublicKeyInfo is %x, the key it carries is described by %x", c.KeyAlg, c.Second, cc.SPKIRaw, refx509.SPKIFor(last)))
	}
	if err := cc.VerifyUnder(cc); err != nil {
		x.Violation("C05/rekey/does-not-verify", fmt.Sprintf("%s then %s: %v", c.KeyAlg, c.Second, err))
	}
	x.Outcome("rekeyed")
}

// c05Reconfig: library interface, one database object. "ent" names a profile (which contributes one extension).
// reconfig: the entity is signed with SigAlg, then its configuration is given again with Second and signed with
// overwrite - the certificate names Second. replan: the entity (no artifact yet) is planned under KeyAlg, the plan
// is dropped, the configuration is put again with key algorithm Second, planned and generated - key, SPKI and the
// default signature algorithm are those of Second.
func c05Reconfig(x *engine.Ctx, c *c05Case) {
	d := &Dir{Profiles: []*refcfg.ProfileCfg{{Path: "prof.yaml", Name: "p", Exts: []refcfg.Ext{{Kind: refcfg.KOCSP}}}},
		Certs: []*refcfg.CertCfg{{Path: "ent.yaml", Subject: "CN=reconfigured", KeyAlg: c.KeyAlg, SigAlg: c.SigAlg, Profile: "p"}}}
	w := simfs.New(simfs.TickPerWrite)
	d.Render(w)
	if c.Role == "reconfig" {
		w.Put("ent.pem", FixtureKeyPEM(FixtureForAlg(c.KeyAlg, 0)))
	}
	fsdb := filesystem.NewFilesystemDatabase(w)
	w.BeginRun(nil)
	if err := fsdb.Open(); err != nil {
		x.Violation("C05/"+c.Role+"/open-failed", err.Error())
		return
	}
	defer fsdb.Close()
	x.Nontrivial(fmt.Sprintf("%s %s %s %s", c.Role, c.KeyAlg, c.SigAlg, c.Second))
	cfg, err := fsdb.GetConfig("ent")
	if err != nil || cfg == nil {
		x.Violation("C05/"+c.Role+"/no-config", fmt.Sprint(err))
		return
	}
	var panicked string
	guard := func(f func()) {
		defer func() {
			if r := recover(); r != nil {
				panicked = fmt.Sprint(r)
			}
		}()
		f()
	}
	check := func(step int, wantKey, wantSig string) bool {
		a := ReadArtifact(w, "ent.yaml")
		if a.Cert == nil || a.Key == nil {
			x.Violation(fmt.Sprintf("C05/%s/no-certificate step=%d", c.Role, step), fmt.Sprintf("certificate=%v key=%v (%v)", a.Cert != nil, a.Key != nil, a.CertErr))
			return false
		}
		want := refx509.SigAlgByName[wantSig]
		if a.Cert.OuterSig.OID != want || a.Cert.InnerSig.OID != want {
			x.Violation(fmt.Sprintf("C05/%s/signature-identifier step=%d", c.Role, step), fmt.Sprintf("the configuration in force names %s (%s); the certificate has tbsCertificate.signature %s and signatureAlgorithm %s (configured before: %s)", wantSig, want, a.Cert.InnerSig.OID, a.Cert.OuterSig.OID, c.SigAlg))
		}
		if a.Key.Describe() != wantKey {
			x.Violation(fmt.Sprintf("C05/%s/key-algorithm step=%d", c.Role, step), fmt.Sprintf("the configuration in force names key algorithm %s, the stored key is %s (configured before: %s)", wantKey, a.Key.Describe(), c.KeyAlg))
		}
		if pk, err := a.Cert.PublicKey(); err != nil || !a.Key.SamePublic(pk) {
			x.Violation(fmt.Sprintf("C05/%s/spki-is-not-the-stored-key step=%d", c.Role, step), fmt.Sprint(err))
		}
		if err := a.Cert.VerifyUnder(a.Cert); err != nil {
			x.Violation(fmt.Sprintf("C05/%s/does-not-verify step=%d", c.Role, step), err.Error())
		}
		return true
	}
	sigIdx := func(name string) cert.SignatureAlgorithm {
		for i, n := range refx509.SigAlgNames {
			if n == name {
				return cert.SignatureAlgorithm(i)
			}
		}
		return 0
	}
	if c.Role == "reconfig" {
		var err1, err2 error
		guard(func() { _, err1 = db.AddAndSign(fsdb, *cfg, true) })
		x.Transition(1)
		if panicked != "" || err1 != nil {
			x.Violation("C05/reconfig/first-signing-failed", fmt.Sprintf("%v %s", err1, panicked))
			return
		}
		if !check(1, c.KeyAlg, c.SigAlg) {
			return
		}
		nc := *cfg
		nc.SignatureAlgorithm = sigIdx(c.Second)
		guard(func() { _, err2 = db.AddAndSign(fsdb, nc, true) })
		x.Transition(1)
		if panicked != "" || err2 != nil {
			x.Violation("C05/reconfig/second-signing-failed", fmt.Sprintf("%v %s", err2, panicked))
			return
		}
		check(2, c.KeyAlg, c.Second)
		x.Outcome("reconfigured")
		return
	}
	keyIdx := func(name string) cert.KeyAlgorithm {
		for i, n := range refx509.KeyAlgNames {
			if n == name {
				return cert.KeyAlgorithm(i)
			}
		}
		return 0
	}
	if c.Role == "retry" {
		// self-signed entity: a signature algorithm of the other key family cannot be used with its own key
		bad := *cfg
		bad.KeyAlgorithm = keyIdx(c.KeyAlg)
		bad.SignatureAlgorithm = sigIdx(map[string]string{"EC": "RSAwithSHA256", "RSA": "ECDSAwithSHA256"}[c05Family(c.KeyAlg)])
		var err1, err2 error
		guard(func() { _, err1 = db.AddAndSign(fsdb, bad, true) })
		x.Transition(1)
		if panicked != "" {
			x.Violation("C05/retry/panic", panicked)
			return
		}
		if err1 == nil {
			x.Violation("C05/retry/mismatched-algorithm-accepted", fmt.Sprintf("key %s signed with %v", c.KeyAlg, bad.SignatureAlgorithm))
			return
		}
		good := *cfg
		good.KeyAlgorithm = keyIdx(c.Second)
		good.SignatureAlgorithm = sigIdx(refcfg.DefaultSigAlg(c.Second))
		guard(func() { _, err2 = db.AddAndSign(fsdb, good, true) })
		x.Transition(1)
		if panicked != "" || err2 != nil {
			x.Violation("C05/retry/second-attempt-failed", fmt.Sprintf("%v %s", err2, panicked))
			return
		}
		check(2, c.Second, refcfg.DefaultSigAlg(c.Second))
		x.Outcome("retried")
		return
	}
	// replan
	var perr error
	guard(func() { _, perr = db.PlanBulkUpdate(fsdb, db.UpdateMissing) })
	if panicked != "" || perr != nil {
		x.Violation("C05/replan/first-plan-failed", fmt.Sprintf("%v %s", perr, panicked))
		return
	}
	nc := *cfg
	nc.KeyAlgorithm = cert.KeyAlgorithm(0)
	for i, n := range refx509.KeyAlgNames {
		if n == c.Second {
			nc.KeyAlgorithm = cert.KeyAlgorithm(i)
		}
	}
	nc.SignatureAlgorithm = sigIdx(refcfg.DefaultSigAlg(c.Second))
	if err := fsdb.PutConfig("ent", nc); err != nil {
		x.Violation("C05/replan/put-config-failed", err.Error())
		return
	}
	var n int
	guard(func() {
		var plan db.ChangeList
		plan, perr = db.PlanBulkUpdate(fsdb, db.UpdateMissing)
		if perr == nil {
			n, perr = db.BulkUpdate(fsdb, plan)
		}
	})
	x.Transition(2)
	if panicked != "" || perr != nil || n != 1 {
		x.Violation("C05/replan/second-plan-failed", fmt.Sprintf("generated %d: %v %s", n, perr, panicked))
		return
	}
	check(2, c.Second, refcfg.DefaultSigAlg(c.Second))
	x.Outcome("replanned")
}

func c05Exec(x *engine.Ctx, cc any) {
	c := cc.(*c05Case)
	if c.Role == "rekey" {
		c05Rekey(x, c)
		return
	}
	if c.Role == "resign" {
		c05Resign(x, c)
		return
	}
	if c.Role == "reconfig" || c.Role == "replan" || c.Role == "retry" {
		c05Reconfig(x, c)
		return
	}
	d := &Dir{}
	ent := &refcfg.CertCfg{Path: "ent.yaml", Subject: "CN=ent", KeyAlg: c.KeyAlg, SigAlg: c.SigAlg}
	signerFam := c05Family(c.KeyAlg)
	pre := func(w *simfs.World) {}
	if c.Role == "sub" {
		root := &refcfg.CertCfg{Path: "ca.yaml", Subject: "CN=ca", KeyAlg: c.IssuerAlg}
		d.Certs = append(d.Certs, root)
		ent.Issuer = "ca"
		signerFam = c05Family(c.IssuerAlg)
	}
	d.Certs = append(d.Certs, ent)
	pre = func(w *simfs.World) {
		if c.Role == "sub" {
			w.Put("ca.pem", FixtureKeyPEM(FixtureForAlg(c.IssuerAlg, 0)))
		}
		if !c.Gen {
			k := c.KeyAlg
			if k == "" {
				k = "P-256"
			}
			w.Put("ent.pem", FixtureKeyPEM(FixtureForAlg(k, 1)))
		}
	}
	sigName := c.SigAlg
	if sigName == "" {
		sigName = refcfg.DefaultSigAlg(c.KeyAlg)
	}
	fit := refx509.SigFamily(refx509.SigAlgByName[sigName]) == signerFam
	g := Generate(d, pre, drive.Default)
	if g.Res.Panic != "" {
		x.Violation("C05/panic/"+g.Res.PanicSite, g.Res.Panic)
		return
	}
	if !fit {
		x.Outcome("misfit (run must fail; C01 owns that)")
		return
	}
	x.Nontrivial(fmt.Sprintf("%s %s %s %s gen=%v", c.Role, c.IssuerAlg, c.KeyAlg, c.SigAlg, c.Gen))
	if !g.Res.OK() {
		x.Violation(fmt.Sprintf("C05/run-failed key=%s sig=%s", orOmitted(c.KeyAlg), orOmitted(c.SigAlg)), fmt.Sprintf("algorithms fit but the run failed: %v", g.Res.Err()))
		return
	}
	want := ""
	if c.Gen {
		want = wantKeyFor(ent)
	}
	diffs, a, err := g.CompareEntity(d, "ent", want)
	if err != nil {
		x.Violation("C05/no-certificate", err.Error())
		return
	}
	reportOwned(x, "C05", diffs)
	// "the certificate's signature algorithm identifier is the configured signatureAlgorithm": an identifier
	// whose parameters are not those of the algorithm, or whose two copies disagree, is not that identifier
	for _, df := range diffs {
		if df.Owner == "C02" && (strings.HasPrefix(df.Class, "C02/algid-params/") || df.Class == "C02/algid-inner-outer-differ") {
			x.Violation("C05/identifier/"+strings.TrimPrefix(df.Class, "C02/"), df.Detail)
		}
	}
	// private key block
	if a.Key == nil {
		x.Violation("C05/key/undecodable configured="+orOmitted(c.KeyAlg), fmt.Sprintf("PRIVATE KEY block: %v", a.KeyErr))
		return
	}
	if c.Gen {
		got := a.Key.Describe()
		ok := got == c.KeyAlg || (c.KeyAlg == "" && (got == "P-256" || got == "P-224"))
		if !ok {
			x.Violation(fmt.Sprintf("C05/key/configured=%s got=%s", orOmitted(c.KeyAlg), got), fmt.Sprintf("keyAlgorithm %s but the generated private key is %s", orOmitted(c.KeyAlg), got))
		}
	}
	if pk, err := a.Cert.PublicKey(); err != nil {
		x.Violation("C05/spki/undecodable gen="+fmt.Sprint(c.Gen), fmt.Sprintf("SubjectPublicKeyInfo of the certificate does not decode: %v", err))
	} else if !a.Key.SamePublic(pk) {
		x.Violation("C05/spki/not-the-private-keys-public-key", fmt.Sprintf("certificate carries a %s key that does not belong to the stored %s private key", pk.Describe(), a.Key.Describe()))
	}
	x.Outcome(fmt.Sprintf("ok %s gen=%v", c.Role, c.Gen))
}

func orOmitted(s string) string {
	if s == "" {
		return "omitted"
	}
	return s
}

func init() {
	register(&engine.Check{
		ID:          "C05",
		Level:       "exploration",
		Rule:        "15 keyAlgorithm values (14 names + omitted) x 9 signatureAlgorithm values (8 + omitted) for self-signed roots and for subordinates under an issuer of each of the 14 key types (issuer key from fixtures); gopki generates the entity's key except for the slow RSA sizes where a fixture key is imported (RSA-4096 generated once per role in quick, RSA-8192 only in thorough). Oracle: PKCS#8 block decodes to exactly that modulus length / curve, SPKI names it and carries the private key's public key, signature algorithm OID = configured or SHA-256 with the entity's own key family. non-trivial = distinct fitting combination that produced a certificate; through the generator API one certificate body signed twice (every ordered pair of the 8 signature algorithms on a P-256, a brainpoolP384r1 and an RSA-2048 key, a first attempt with an algorithm of the other family failing): every certificate names, inside and outside, the algorithm it was asked for and verifies; one certificate context keyed twice through the cert package (30 ordered pairs over six key types): the SubjectPublicKeyInfo describes the key the certificate carries; through the library with one database object: an entity that names a profile is signed, configured again with another signature algorithm of its family and signed with overwrite (all ordered pairs on an EC and an RSA key), and an entity is planned, configured again with another key algorithm (all ordered pairs over six) and then planned and generated ; and an entity whose first signing fails (signature algorithm of the other family) is configured again with another key algorithm (12 ordered pairs) - certificate and key are those of the configuration in force",
		Bound:       map[string]string{"grid": "15 x 9 x (1 + 14 issuers)"},
		Assumptions: []string{"combinations whose signature algorithm does not fit the signing key must fail (C01) and are only counted here"},
		Budget:      budgets(quickBudget, thoroughBudget),
		CaseTimeout: 0,
		Enumerate:   c05Enumerate,
		NewCase:     func() any { return &c05Case{} },
		Exec:        c05Exec,
	})
}
