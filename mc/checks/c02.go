package checks

import (
	"bytes"
	"crypto/ecdsa"
	"crypto/rsa"
	"crypto/x509"
	"fmt"
	"math"
	"strings"
	"time"

	"encoding/asn1"

	gcert "github.com/wokdav/gopki/generator/cert"
	gconfig "github.com/wokdav/gopki/generator/config"

	"verif/mc/drive"
	"verif/mc/engine"
	"verif/mc/refcfg"
	"verif/mc/refx509"
	"verif/mc/simfs"
)

// C02 — emitted certificates are canonical-DER, conformant X.509v3 structures.

type c02Case struct {
	A    int `json:"a"`    // index of first deviation (-1 = none)
	B    int `json:"b"`    // index of second deviation (-1 = none)
	C    int `json:"c"`    // third (thorough product of the small dimensions), -1 = none
	Draw int `json:"draw"` // k-th repetition with unconfigured serial (baseline only)
	// Resign > 0: library interface - one certificate context (cert package) is signed with signature algorithm
	// Resign-1 and then with each algorithm of the same family; every certificate is linted
	Resign int `json:"resign,omitempty"`
}

func c02Resign(x *engine.Ctx, c *c02Case) {
	first := refx509.SigAlgNames[c.Resign-1]
	keyFix := "P-256-0"
	if refx509.SigFamily(refx509.SigAlgByName[first]) == "RSA" {
		keyFix = "RSA-2048-0"
	}
	pf, err := gcert.ReadPem(FixtureKeyPEM(keyFix))
	if err != nil || pf.PrivateKey == nil {
		x.Cap(fmt.Sprintf("fixture key unreadable: %v", err))
		return
	}
	subj, _ := gconfig.ParseRDNSequence("CN=resign, O=C02")
	for j, second := range refx509.SigAlgNames {
		if refx509.SigFamily(refx509.SigAlgByName[second]) != refx509.SigFamily(refx509.SigAlgByName[first]) {
			continue
		}
		ctx := gcert.NewCertificateContext(subj, nil, fixedTime(2020), fixedTime(2030))
		if err := ctx.SetPrivateKey(pf.PrivateKey); err != nil {
			x.Violation("C02/resign/set-key-failed", err.Error())
			return
		}
		ctx.SetIssuer(gcert.AsIssuer(*ctx))
		x.Nontrivial(fmt.Sprintf("resign %s %s", first, second))
		for step, alg := range []int{c.Resign - 1, j} {
			crt, err := ctx.Sign(gcert.SignatureAlgorithm(alg))
			if err != nil || crt == nil {
				x.Violation("C02/resign/sign-failed", fmt.Sprintf("%s then %s, signing #%d: %v", first, second, step+1, err))
				break
			}
			der, err := asn1.Marshal(*crt)
			if err != nil {
				x.Violation("C02/resign/unencodable", err.Error())
				break
			}
			for _, is := range refx509.LintCert(der, func(int, string) bool { return false }) {
				x.Violation("C02/"+is.Class+" signed-twice", fmt.Sprintf("context signed with %s, then with %s; certificate #%d: %s", first, second, step+1, is.Detail))
			}
			if _, err := x509.ParseCertificate(der); err != nil {
				x.Violation("C02/x509-rejects signed-twice", fmt.Sprintf("context signed with %s, then with %s; certificate #%d: %v", first, second, step+1, err))
			}
		}
	}
	x.Outcome("signed twice")
}

type c02Dev struct {
	Dim   string
	Name  string
	Apply func(c *refcfg.CertCfg, aux *c02Aux)
}

type c02Aux struct {
	issuerAlg string // "" = self-signed
	keyFix    string // fixture for the entity's own key
	rawKnown  bool   // some known-OID extension carries a raw body
	foreign   string // issuer artifact made by another tool: DN origin (c01ForeignDN)
	zone      string // local time zone of the process ("" = UTC)
}

func c02AllKinds() []refcfg.Ext {
	t := true
	return []refcfg.Ext{
		{Kind: refcfg.KSKI, SKI: refcfg.S("hash")},
		{Kind: refcfg.KKU, Critical: &t, KU: refcfg.Strs("digitalSignature", "keyCertSign", "crlSign")},
		{Kind: refcfg.KSAN, SAN: &[]refcfg.GeneralName{{Type: "dns", Name: "a.example"}, {Type: "mail", Name: "a@example.com"}, {Type: "ip", Name: "10.0.0.1"}}},
		{Kind: refcfg.KBC, Critical: &t, BC: &refcfg.BasicConstraints{Ca: &t, PathLen: refcfg.I(3)}},
		{Kind: refcfg.KCP, CP: &[]refcfg.Policy{{Oid: "1.2.3.4"}, {Oid: "1.2.3.5", Qualifiers: &[]refcfg.Qualifier{{Cps: refcfg.S("http://cps.example")}, {Notice: &refcfg.UserNotice{Organization: refcfg.S("Org"), Numbers: &[]int{1, 2}, Text: refcfg.S("notice")}}}}}},
		{Kind: refcfg.KAIA, AIA: refcfg.Strs("http://ocsp.example")},
		{Kind: refcfg.KAKI, AKIHash: true},
		{Kind: refcfg.KEKU, EKU: refcfg.Strs("serverAuth", "clientAuth", "1.2.3.4.5")},
		{Kind: refcfg.KOCSP},
		{Kind: refcfg.KADM, ADM: &refcfg.Admission{Admissions: []refcfg.Admissions{{ProfessionInfos: []refcfg.ProfessionInfo{{ProfessionItems: []string{"Arzt"}, ProfessionOids: refcfg.Strs("1.2.276.0.76.4.30"), RegistrationNumber: refcfg.S("1-2-3")}}}}}},
		{Kind: refcfg.KCustom, CustomOID: "1.2.3.4.5.6", Raw: refcfg.Bin([]byte{1, 2, 3, 4})},
	}
}

func c02Devs() []c02Dev {
	var d []c02Dev
	add := func(dim, name string, f func(c *refcfg.CertCfg, aux *c02Aux)) { d = append(d, c02Dev{dim, name, f}) }
	// subject lengths around the 127/128 and 255/256 header transitions
	for _, l := range []int{1, 64, 100, 108, 109, 110, 111, 112, 113, 114, 115, 116, 117, 118, 119, 120, 121, 122, 123, 124, 125, 126, 127, 128, 129, 130, 200, 230, 236, 237, 238, 239, 240, 241, 242, 243, 244, 245, 246, 247, 248, 249, 250, 251, 252, 253, 254, 255, 256, 257, 300, 1000} {
		l := l
		add("subject", fmt.Sprintf("cn-len-%d", l), func(c *refcfg.CertCfg, _ *c02Aux) { c.Subject = "CN=" + strings.Repeat("x", l) })
	}
	add("subject", "eight-attributes", func(c *refcfg.CertCfg, _ *c02Aux) {
		c.Subject = "CN=a, OU=b, O=c, L=d, ST=e, C=DE, SERIALNUMBER=12, 1.2.3.4=custom"
	})
	add("subject", "non-ascii", func(c *refcfg.CertCfg, _ *c02Aux) { c.Subject = "CN=Zoë Ünïcode 日本, O=Örg" })
	add("subject", "outside-printable-repertoire", func(c *refcfg.CertCfg, _ *c02Aux) {
		c.Subject = "CN=under_score@host!, 1.2.3.4=my_attr@x, 2.5.4.97=Zoë*, SERIALNUMBER=a&b, C=DE"
	})
	// validity around the UTCTime / GeneralizedTime switch
	for _, v := range [][2]string{{"1950-01-01", "1951-01-01"}, {"1999-12-12", "2049-12-12"}, {"2049-12-31", "2050-01-01"}, {"2050-01-01", "2051-01-01"}, {"2049-11-11", "2200-12-12"}, {"2100-02-02", "2200-12-31"},
		// far dates: beyond what a 64-bit count of nanoseconds since 1970 holds (2262-04-11), and the "no expiry" date of RFC 5280
		{"2262-04-11", "2262-04-12"}, {"2024-01-01", "2263-01-01"}, {"2400-02-29", "9999-12-31"}, {"2024-06-01", "9999-12-31"}, {"1600-01-01", "1700-03-01"}} {
		v := v
		add("validity", v[0]+".."+v[1], func(c *refcfg.CertCfg, _ *c02Aux) { c.Validity = &refcfg.Validity{From: v[0], Until: v[1]} })
	}
	add("validity", "relative-300y", func(c *refcfg.CertCfg, _ *c02Aux) { c.Validity = &refcfg.Validity{Duration: "300y"} })
	add("validity", "relative-100y", func(c *refcfg.CertCfg, _ *c02Aux) { c.Validity = &refcfg.Validity{Duration: "100y"} })
	add("validity", "none", func(c *refcfg.CertCfg, _ *c02Aux) { c.Validity = nil })
	for _, s := range []int64{1, 127, 128, 255, 256, 1 << 31, math.MaxInt64} {
		s := s
		add("serial", fmt.Sprint(s), func(c *refcfg.CertCfg, _ *c02Aux) { c.Serial = &s })
	}
	// numbers beyond a signed 64-bit integer: refused, or carried as that non-negative number
	for _, t := range []string{"9223372036854775808", "18446744073709551615", "340282366920938463463374607431768211455"} {
		t := t
		add("serial", t, func(c *refcfg.CertCfg, _ *c02Aux) { c.Serial, c.SerialText = nil, t })
	}
	add("serial", "unconfigured", func(c *refcfg.CertCfg, _ *c02Aux) { c.Serial = nil })
	for _, u := range []struct {
		n string
		r *refcfg.Raw
	}{{"empty", refcfg.Empty()}, {"1B", refcfg.Bin([]byte{0x80})}, {"128B", refcfg.Bin(bytes.Repeat([]byte{0xa5}, 128))}, {"null", refcfg.Null()}} {
		u := u
		add("uid", "issuer-"+u.n, func(c *refcfg.CertCfg, _ *c02Aux) { c.IssuerUID = u.r })
		add("uid", "subject-"+u.n, func(c *refcfg.CertCfg, _ *c02Aux) { c.SubjectUID = u.r })
		add("uid", "both-"+u.n, func(c *refcfg.CertCfg, _ *c02Aux) { c.IssuerUID, c.SubjectUID = u.r, u.r })
	}
	add("uid", "issuer-3B-subject-5B", func(c *refcfg.CertCfg, _ *c02Aux) {
		c.IssuerUID, c.SubjectUID = refcfg.Bin([]byte{1, 2, 3}), refcfg.Bin([]byte{9, 8, 7, 6, 5})
	})
	add("uid", "issuer-empty-subject-1B", func(c *refcfg.CertCfg, _ *c02Aux) {
		c.IssuerUID, c.SubjectUID = refcfg.Empty(), refcfg.Bin([]byte{0x80})
	})
	// the process runs in a local time zone other than UTC (the certificate's times are UTC all the same)
	for _, z := range []string{"Europe/Berlin", "America/St_Johns", "Asia/Kathmandu", "Pacific/Kiritimati", "Pacific/Pago_Pago"} {
		z := z
		add("zone", z, func(_ *refcfg.CertCfg, aux *c02Aux) { aux.zone = z })
	}
	// key / signature algorithm pairs (self-signed: signature fits own key)
	for _, k := range refx509.KeyAlgNames {
		for _, s := range refx509.SigAlgNames {
			if refx509.SigFamily(refx509.SigAlgByName[s]) != c05Family(k) {
				continue
			}
			k, s := k, s
			add("alg", k+"+"+s, func(c *refcfg.CertCfg, aux *c02Aux) { c.KeyAlg, c.SigAlg, aux.keyFix = k, s, FixtureForAlg(k, 0) })
		}
	}
	// the entity brings an RSA key of its own whose modulus length is no multiple of 8 bits
	for _, f := range []string{"RSA-1023-0", "RSA-1025-0", "RSA-2047-0"} {
		f := f
		add("alg", "own-key-"+f, func(c *refcfg.CertCfg, aux *c02Aux) { c.KeyAlg, c.SigAlg, aux.keyFix = "RSA-2048", "RSAwithSHA256", f })
	}
	// subordinate under RSA / EC issuers
	for _, ia := range []string{"RSA-2048", "P-384", "brainpoolP256r1"} {
		ia := ia
		add("issuer", "under-"+ia, func(c *refcfg.CertCfg, aux *c02Aux) {
			aux.issuerAlg = ia
			c.Issuer = "ca"
			if c.SigAlg == "" || refx509.SigFamily(refx509.SigAlgByName[c.SigAlg]) != c05Family(ia) {
				c.SigAlg = refcfg.DefaultSigAlg(ia)
			}
		})
	}
	// subordinate under an imported issuer certificate whose name another tool encoded
	for _, o := range c01Origins[1:] {
		o := o
		if strings.HasPrefix(o, "printable-with-") || o == "empty-name" {
			continue // the issuer field repeats the foreign bytes (C01); their repertoire slip is not gopki's encoding
		}
		add("issuer", "under-foreign-"+o, func(c *refcfg.CertCfg, aux *c02Aux) {
			aux.issuerAlg, aux.foreign = "P-256", o
			c.Issuer = "ca"
			if c.SigAlg == "" || refx509.SigFamily(refx509.SigAlgByName[c.SigAlg]) != c05Family("P-256") {
				c.SigAlg = refcfg.DefaultSigAlg("P-256")
			}
		})
	}
	// extension sets
	kinds := c02AllKinds()
	for i := range kinds {
		e := kinds[i]
		add("ext", "single-"+e.Kind, func(c *refcfg.CertCfg, _ *c02Aux) { c.Exts = []refcfg.Ext{e} })
	}
	add("ext", "all-kinds", func(c *refcfg.CertCfg, _ *c02Aux) { c.Exts = c02AllKinds() })
	// list-valued bodies with several members of different lengths (a shorter one before a longer one and the reverse)
	add("ext", "aia-two-responders-short-long", func(c *refcfg.CertCfg, _ *c02Aux) {
		c.Exts = []refcfg.Ext{{Kind: refcfg.KAIA, AIA: refcfg.Strs("http://o.example", "http://ocsp.responder.example.org/a/longer/path")}}
	})
	add("ext", "aia-three-responders-long-short-equal", func(c *refcfg.CertCfg, _ *c02Aux) {
		c.Exts = []refcfg.Ext{{Kind: refcfg.KAIA, AIA: refcfg.Strs("http://ocsp.responder.example.org/a/longer/path", "http://o.example", "http://p.example")}}
	})
	add("ext", "san-five-names", func(c *refcfg.CertCfg, _ *c02Aux) {
		c.Exts = []refcfg.Ext{{Kind: refcfg.KSAN, SAN: &[]refcfg.GeneralName{{Type: "dns", Name: "a.example"}, {Type: "ip", Name: "0.0.0.0"}, {Type: "mail", Name: "someone.with.a.long.name@mail.example.org"}, {Type: "dns", Name: "b.example"}, {Type: "ip", Name: "255.255.255.255"}}}}
	})
	add("ext", "eku-five-usages", func(c *refcfg.CertCfg, _ *c02Aux) {
		c.Exts = []refcfg.Ext{{Kind: refcfg.KEKU, EKU: refcfg.Strs("serverAuth", "1.2.3.4.5.6.7.8.9.10.11.12", "clientAuth", "2.5", "OCSPSigning")}}
	})
	add("ext", "three-policies-mixed-qualifiers", func(c *refcfg.CertCfg, _ *c02Aux) {
		c.Exts = []refcfg.Ext{{Kind: refcfg.KCP, CP: &[]refcfg.Policy{
			{Oid: "1.2.3.4", Qualifiers: &[]refcfg.Qualifier{{Cps: refcfg.S("http://c.example")}, {Cps: refcfg.S("http://cps.example.org/a/much/longer/location")}}},
			{Oid: "1.2.3.4.5.6.7"},
			{Oid: "2.5.29.32.0", Qualifiers: &[]refcfg.Qualifier{{Notice: &refcfg.UserNotice{Text: refcfg.S("short")}}, {Notice: &refcfg.UserNotice{Organization: refcfg.S("An Organisation"), Numbers: &[]int{1, 20, 300}, Text: refcfg.S("a longer explicit text")}}}}}}}
	})
	// names across the 127/128 and 255/256 length-form boundaries inside GeneralName lists
	for _, l := range []int{127, 128, 129, 200, 255, 256, 300} {
		l := l
		add("ext", fmt.Sprintf("general-names-of-%d-octets", l), func(c *refcfg.CertCfg, _ *c02Aux) {
			host := strings.Repeat("h", l-len(".example"))
			c.Exts = []refcfg.Ext{
				{Kind: refcfg.KSAN, SAN: &[]refcfg.GeneralName{{Type: "dns", Name: host + ".example"}, {Type: "mail", Name: strings.Repeat("m", l-len("@e.example")) + "@e.example"}}},
				{Kind: refcfg.KAIA, AIA: refcfg.Strs("http://" + strings.Repeat("o", l-len("http://.example/")) + ".example/")},
			}
		})
	}
	add("ext", "empty-list", func(c *refcfg.CertCfg, _ *c02Aux) { c.Exts, c.ExtsPresent = nil, true })
	add("ext", "keyUsage-empty-set", func(c *refcfg.CertCfg, _ *c02Aux) { c.Exts = []refcfg.Ext{{Kind: refcfg.KKU, KU: refcfg.Strs()}} })
	add("ext", "keyUsage-only-first-bit", func(c *refcfg.CertCfg, _ *c02Aux) {
		c.Exts = []refcfg.Ext{{Kind: refcfg.KKU, KU: refcfg.Strs("digitalSignature")}}
	})
	add("ext", "critical-false-explicit", func(c *refcfg.CertCfg, _ *c02Aux) {
		f := false
		c.Exts = []refcfg.Ext{{Kind: refcfg.KAIA, Critical: &f, AIA: refcfg.Strs("http://o.example")}, {Kind: refcfg.KOCSP, Critical: &f}}
	})
	for _, l := range []int{127, 128, 255, 256, 65535, 65536} {
		l := l
		add("ext", fmt.Sprintf("custom-raw-%d", l), func(c *refcfg.CertCfg, _ *c02Aux) {
			c.Exts = []refcfg.Ext{{Kind: refcfg.KCustom, CustomOID: "1.2.3.4.5", Raw: refcfg.Bin(bytes.Repeat([]byte{0x5a}, l))}}
		})
	}
	// INTEGERs inside an extension around the octet boundaries (sign octet needed / not needed)
	for _, pl := range []int{1, 127, 128, 255, 256, 32767, 32768, 65535, 65536, 8388607, 8388608, math.MaxInt32} {
		pl := pl
		add("ext", fmt.Sprintf("basicConstraints-pathLen-%d", pl), func(c *refcfg.CertCfg, _ *c02Aux) {
			c.Exts = []refcfg.Ext{{Kind: refcfg.KBC, Critical: refcfg.B(true), BC: &refcfg.BasicConstraints{Ca: refcfg.B(true), PathLen: refcfg.I(pl)}}}
		})
	}
	add("ext", "large-oid-arcs", func(c *refcfg.CertCfg, _ *c02Aux) {
		c.Exts = []refcfg.Ext{{Kind: refcfg.KCustom, CustomOID: "2.999.127.128.16383.16384.2147483647", Raw: refcfg.Null()}}
	})
	return d
}

var c02DevList = c02Devs()

// dims whose full triple product is taken in thorough.
var c02SmallDims = map[string]bool{"validity": true, "serial": true, "uid": true, "issuer": true, "zone": true}

func c02Enumerate(tier string, yield func(any)) {
	for k := range refx509.SigAlgNames {
		yield(&c02Case{A: -1, B: -1, C: -1, Resign: k + 1})
	}
	n := len(c02DevList)
	yield(&c02Case{A: -1, B: -1, C: -1})
	draws := 200
	for k := 1; k < draws; k++ {
		yield(&c02Case{A: -1, B: -1, C: -1, Draw: k})
	}
	for i := 0; i < n; i++ {
		yield(&c02Case{A: i, B: -1, C: -1})
	}
	for i := 0; i < n; i++ {
		for j := i + 1; j < n; j++ {
			if c02DevList[i].Dim == c02DevList[j].Dim {
				continue
			}
			if tier != "thorough" && c02DevList[i].Dim == "subject" && c02DevList[j].Dim == "alg" && (i+j)%4 != 0 {
				continue // quick: thin the largest pair block (subject x alg); thorough takes all
			}
			yield(&c02Case{A: i, B: j, C: -1})
		}
	}
	if tier == "thorough" {
		for i := 0; i < n; i++ {
			for j := i + 1; j < n; j++ {
				for k := j + 1; k < n; k++ {
					a, b, c := c02DevList[i], c02DevList[j], c02DevList[k]
					if !c02SmallDims[a.Dim] || !c02SmallDims[b.Dim] || !c02SmallDims[c.Dim] || a.Dim == b.Dim || b.Dim == c.Dim || a.Dim == c.Dim {
						continue
					}
					yield(&c02Case{A: i, B: j, C: k})
				}
			}
		}
	}
}

func c02Exec(x *engine.Ctx, cc any) {
	c := cc.(*c02Case)
	if c.Resign > 0 {
		c02Resign(x, c)
		return
	}
	if x.Replay {
		// a random serial decides some classes: repeat a replayed case until it shows (bounded)
		for k := 0; k < 64 && c02Once(x, c) == 0; k++ {
		}
		return
	}
	c02Once(x, c)
}

func c02Once(x *engine.Ctx, c *c02Case) (violations int) {
	v := func(class, detail string) { violations++; x.Violation(class, detail) }
	cfg := &refcfg.CertCfg{Path: "ent.yaml", Subject: "CN=Base", KeyAlg: "P-256", Validity: &refcfg.Validity{From: "2020-01-01", Until: "2030-01-01"}}
	aux := &c02Aux{keyFix: "P-256-0"}
	var names []string
	for _, ix := range []int{c.A, c.B, c.C} {
		if ix >= 0 {
			c02DevList[ix].Apply(cfg, aux)
			names = append(names, c02DevList[ix].Dim+":"+c02DevList[ix].Name)
		}
	}
	// re-apply issuer deviation last so that the signature algorithm fits the issuer
	for _, ix := range []int{c.A, c.B, c.C} {
		if ix >= 0 && c02DevList[ix].Dim == "issuer" {
			c02DevList[ix].Apply(cfg, aux)
		}
	}
	if cfg.Issuer == "" && cfg.SigAlg != "" && refx509.SigFamily(refx509.SigAlgByName[cfg.SigAlg]) != c05Family(cfg.KeyAlg) {
		cfg.SigAlg = refcfg.DefaultSigAlg(cfg.KeyAlg)
	}
	d := &Dir{Certs: []*refcfg.CertCfg{cfg}}
	if aux.zone != "" {
		if loc, err := time.LoadLocation(aux.zone); err == nil {
			saved := time.Local
			time.Local = loc
			defer func() { time.Local = saved }()
		} else {
			x.Cap("zone not loadable: " + aux.zone)
		}
	}
	var foreignPem []byte
	if aux.issuerAlg != "" {
		ca := &refcfg.CertCfg{Path: "ca.yaml", Subject: "CN=Issuer, O=Test", KeyAlg: aux.issuerAlg}
		if aux.foreign != "" {
			p, subj, err := foreignIssuerPEM(aux.foreign, "P-256-1", false)
			if err != nil {
				x.Cap("cannot create foreign issuer: " + err.Error())
				return
			}
			foreignPem, ca.Subject = p, subj
		}
		d.Certs = append([]*refcfg.CertCfg{ca}, d.Certs...)
	}
	g := Generate(d, func(w *simfs.World) {
		w.Put("ent.pem", FixtureKeyPEM(aux.keyFix))
		if foreignPem != nil {
			w.Put("ca.pem", foreignPem)
		} else if aux.issuerAlg != "" {
			w.Put("ca.pem", FixtureKeyPEM(FixtureForAlg(aux.issuerAlg, 1)))
		}
	}, drive.Default)
	if g.Res.Panic != "" {
		v("C02/panic/"+g.Res.PanicSite, g.Res.Panic)
		return
	}
	a := ReadArtifact(g.W, cfg.Path)
	if !g.Res.OK() || a.Pem == nil || a.Pem.CertDER == nil {
		// configuration refused (e.g. a date the parser rejects): nothing to lint; owned by C04/C20
		x.Outcome("no certificate: " + g.Res.Summary())
		return
	}
	x.Nontrivial(strings.Join(names, " ") + fmt.Sprint(c.Draw))
	eff := cfg.Exts
	structured := func(i int, oid string) bool {
		if i >= len(eff) {
			return false
		}
		return eff[i].Raw == nil && eff[i].Kind != refcfg.KCustom && !(eff[i].Kind == refcfg.KSKI && eff[i].SKIBin != nil)
	}
	for _, is := range refx509.LintCert(a.Pem.CertDER, structured) {
		v("C02/"+is.Class, is.Detail+"  ["+strings.Join(names, " ")+"]")
	}
	if a.Cert != nil && cfg.SerialText != "" && a.Cert.Serial != nil && a.Cert.Serial.String() != cfg.SerialText {
		v("C02/readback/serial/beyond-int64", fmt.Sprintf("serialNumber %s configured, the certificate carries %s  [%s]", cfg.SerialText, a.Cert.Serial, strings.Join(names, " ")))
	}
	if a.Cert != nil {
		diffs, _, err := g.CompareEntity(d, "ent", "")
		if err == nil {
			violations += reportOwned(x, "C02", diffs)
			// "reads the same fields back": the unique ids and the serial belong to C03's wording as well
			// as to this one - here they are reported when a parser reads something else than was configured
			for _, df := range diffs {
				if df.Owner == "C03" && (strings.HasPrefix(df.Class, "C03/uid/") || strings.HasPrefix(df.Class, "C03/serial/")) {
					v("C02/readback/"+strings.TrimPrefix(df.Class, "C03/"), df.Detail+"  ["+strings.Join(names, " ")+"]")
				}
				// the two times: a parser reads back the configured dates (C04 owns the arithmetic; here the dates are given
				// outright, so a difference means the encoding does not carry the configured field)
				if df.Owner == "C04" && cfg.Validity != nil && cfg.Validity.From != "" && cfg.Validity.Until != "" {
					v("C02/readback/"+strings.TrimPrefix(df.Class, "C04/"), df.Detail+"  ["+strings.Join(names, " ")+"]")
				}
				// an INTEGER inside an extension (basicConstraints pathLen) that reads back as another number
				if df.Owner == "C07" && strings.HasPrefix(df.Class, "C07/basicConstraints/") && !strings.Contains(df.Class, "pathLen=0") {
					v("C02/readback/basicConstraints", df.Detail+"  ["+strings.Join(names, " ")+"]")
				}
			}
		}
	}
	// PEM: decoding then re-encoding each block reproduces the file text
	file := g.W.Files[ArtifactPath(cfg.Path)].Data
	var rebuilt []byte
	if a.Pem.HashLine != nil {
		rebuilt = append(rebuilt, []byte("#HASH:"+*a.Pem.HashLine+"\n")...)
	}
	for _, b := range a.Pem.Blocks {
		rebuilt = append(rebuilt, refx509.EncodePem(b.Type, b.Bytes)...)
	}
	if !bytes.Equal(rebuilt, file) {
		v("C02/pem/reencode-differs", fmt.Sprintf("file is %d bytes, re-encoded blocks give %d bytes", len(file), len(rebuilt)))
	}
	// second acceptor
	rawKnown := false
	for i := range eff {
		if eff[i].Raw != nil && eff[i].Kind != refcfg.KCustom {
			rawKnown = true
		}
	}
	if a.Cert != nil && !rawKnown && !strings.HasPrefix(cfg.KeyAlg, "brainpool") && !strings.HasPrefix(aux.issuerAlg, "brainpool") {
		sc, err := x509.ParseCertificate(a.Pem.CertDER)
		if err != nil {
			v("C02/x509-rejects/"+c02x509Class(err), fmt.Sprintf("crypto/x509: %v  [%s]", err, strings.Join(names, " ")))
		} else {
			x.Info("x509_accepted", 1)
			if sc.SerialNumber.Cmp(a.Cert.Serial) != 0 || !bytes.Equal(sc.RawSubject, a.Cert.SubjectRaw) || !bytes.Equal(sc.RawIssuer, a.Cert.IssuerRaw) ||
				!sc.NotBefore.Equal(a.Cert.NotBefore.T) || !sc.NotAfter.Equal(a.Cert.NotAfter.T) || sc.Version != 3 || len(sc.Extensions) != len(a.Cert.Exts) {
				v("C02/x509-disagrees", fmt.Sprintf("crypto/x509 reads serial=%v nb=%v na=%v version=%d exts=%d; reference decoder reads serial=%v nb=%v na=%v exts=%d", sc.SerialNumber, sc.NotBefore, sc.NotAfter, sc.Version, len(sc.Extensions), a.Cert.Serial, a.Cert.NotBefore.T, a.Cert.NotAfter.T, len(a.Cert.Exts)))
			}
			if pk, err := a.Cert.PublicKey(); err == nil {
				switch k := sc.PublicKey.(type) {
				case *rsa.PublicKey:
					if pk.RSA == nil || pk.RSA.N.Cmp(k.N) != 0 {
						v("C02/x509-disagrees-key", "rsa")
					}
				case *ecdsa.PublicKey:
					if pk.EC == nil || pk.EC.X.Cmp(k.X) != 0 {
						v("C02/x509-disagrees-key", "ec")
					}
				}
			}
		}
	}
	x.Outcome("linted")
	return
}

func c02x509Class(err error) string {
	s := err.Error()
	for _, k := range []string{"serial", "extension", "signature", "validity", "time", "public key", "issuer", "subject", "version", "unique"} {
		if strings.Contains(strings.ToLower(s), k) {
			return k
		}
	}
	return "other"
}

func init() {
	register(&engine.Check{
		ID:          "C02",
		Level:       "exploration",
		Rule:        fmt.Sprintf("baseline configuration +- up to 2 deviations drawn from %d values in 8 dimensions (incl. 5 local time zones of the process) (subject lengths across the 127/128 and 255/256 header transitions at every nesting level, validity across 1950/2049/2050/2200/2262/9999 and before 1700, 11 serial values (three beyond a signed 64-bit integer: refused or carried exactly), 12 unique-id settings, all 56 fitting key+signature algorithm pairs, 3 issuer key types, 25 extension sets incl. raw bodies of 127..65536 octets), all singles and all cross-dimension pairs, plus 200 unconfigured-serial draws; thorough adds every triple over the four small dimensions. Each certificate goes through a DER linter (minimal lengths, INTEGER, BOOLEAN, BIT STRING, OID, time forms, SET OF order, DEFAULT values absent, named-bit-list minimality), decode/re-encode, PEM re-encode, field comparison with the reference model, and crypto/x509 as second acceptor where it supports the curve; through the cert package one certificate context signed twice (every ordered pair of signature algorithms of a family), both certificates through the same lint and parser. non-trivial = distinct deviation set that produced a certificate", len(c02DevList)),
		Bound:       map[string]string{"deviations from baseline": "<=2 (thorough: 3 over validity/serial/uid/issuer)"},
		Assumptions: []string{"configurations with manipulations are excluded by the statement", "negative configured serials are outside C03's domain", "unconfigured serials are random: 200+ draws observe the length distribution, the bound (<=20 octets) is also argued from the constant in the source"},
		Budget:      budgets(quickBudget, thoroughBudget),
		Enumerate:   c02Enumerate,
		NewCase:     func() any { return &c02Case{} },
		Exec:        c02Exec,
	})
}
