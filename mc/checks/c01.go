package checks

import (
	"bytes"
	"crypto/ecdsa"
	"crypto/elliptic"
	"crypto/rand"
	"crypto/sha256"
	"crypto/x509"
	"fmt"
	"math/big"
	"strings"

	"github.com/wokdav/gopki/generator/db"

	"verif/mc/drive"
	"verif/mc/engine"
	"verif/mc/refcfg"
	"verif/mc/refder"
	"verif/mc/refx509"
	"verif/mc/simfs"
)

// C01 — every issued certificate verifies under, and names, its issuer's certificate.

type c01Case struct {
	Kind string `json:"kind"` // forest | algs | origin
	// forest
	N       int   `json:"n,omitempty"`
	Parent  []int `json:"parent,omitempty"`
	Layout  int   `json:"layout,omitempty"` // 0 file-derived flat, 1 explicit aliases, 2 nested directories
	Profile bool  `json:"profile,omitempty"`
	// algs
	IssuerAlg string `json:"issuerAlg,omitempty"`
	SubjAlg   string `json:"subjAlg,omitempty"`
	SigAlg    string `json:"sigAlg,omitempty"`
	Tier3     bool   `json:"tier3,omitempty"`
	// origin
	Origin     string `json:"origin,omitempty"`
	Compressed bool   `json:"compressed,omitempty"` // foreign issuer certificate stores its EC point compressed
	Fixture    string `json:"fixture,omitempty"`    // foreign issuer key ("" = P-256-0)
	// history: a settled 3-tier chain, one operation on entity Ent, then a default run
	Op  int `json:"op,omitempty"`
	Ent int `json:"ent,omitempty"`
	// optional second operation before the run (Op2 = index+1, 0 = none)
	Op2  int `json:"op2,omitempty"`
	Ent2 int `json:"ent2,omitempty"`
	// optional write fault in the run after the history: the FaultK-th write (FaultK-1) fails with FaultKind
	// (simfs.FaultErrNoWrite / FaultErrPrefix). A run that reports success must still leave a verifying chain.
	FaultK    int `json:"faultK,omitempty"`
	FaultKind int `json:"faultKind,omitempty"`
}

func acyclic(parent []int) bool {
	for i := range parent {
		j, steps := i, 0
		for j >= 0 && steps <= len(parent) {
			j = parent[j]
			steps++
		}
		if j >= 0 {
			return false
		}
	}
	return true
}

// forests enumerates all parent functions on n nodes without cycles.
func forests(n int, f func(parent []int)) {
	p := make([]int, n)
	var rec func(i int)
	rec = func(i int) {
		if i == n {
			if acyclic(p) {
				f(append([]int{}, p...))
			}
			return
		}
		for v := -1; v < n; v++ {
			if v == i {
				continue
			}
			p[i] = v
			rec(i + 1)
		}
	}
	rec(0)
}

var c01Origins = []string{"gopki-earlier-run", "stdlib-printable", "utf8-nonascii", "utf8-for-printable-value", "ia5-email", "multi-valued-rdn", "teletex",
	"printable-with-ampersand", "printable-with-asterisk", "bmpstring", "numeric-and-printable-mix", "empty-value", "utf8-and-printable-in-one-rdn", "empty-name"}

func c01Enumerate(tier string, yield func(any)) {
	maxN := 3
	if tier == "thorough" {
		maxN = 4
	}
	for n := 1; n <= maxN; n++ {
		forests(n, func(p []int) {
			for layout := 0; layout < 3; layout++ {
				for _, prof := range []bool{false, true} {
					yield(&c01Case{Kind: "forest", N: n, Parent: p, Layout: layout, Profile: prof})
				}
			}
		})
	}
	sigs := append([]string{""}, refx509.SigAlgNames...)
	subjAlgs := refx509.KeyAlgNames
	if tier != "thorough" {
		subjAlgs = []string{"RSA-1024", "RSA-4096", "P-256", "P-521", "brainpoolP384r1", "brainpoolP512t1"}
	}
	for _, ia := range refx509.KeyAlgNames {
		for _, sa := range subjAlgs {
			for _, s := range sigs {
				yield(&c01Case{Kind: "algs", IssuerAlg: ia, SubjAlg: sa, SigAlg: s, Profile: true})
			}
		}
	}
	// self-signed roots: 14 x 9
	for _, ia := range refx509.KeyAlgNames {
		for _, s := range sigs {
			yield(&c01Case{Kind: "algs", IssuerAlg: "", SubjAlg: ia, SigAlg: s})
		}
	}
	// three tiers
	for _, ia := range refx509.KeyAlgNames {
		for _, s := range sigs {
			yield(&c01Case{Kind: "algs", IssuerAlg: ia, SubjAlg: map[bool]string{true: "P-384", false: "RSA-2048"}[c05Family(ia) == "EC"], SigAlg: s, Tier3: true, Profile: true})
		}
	}
	for op := range c01HistoryOps {
		for ent := 0; ent < 3; ent++ {
			for _, prof := range []bool{false, true} {
				yield(&c01Case{Kind: "history", Op: op, Ent: ent, Profile: prof})
			}
		}
	}
	// a write error in the run after the operation: whatever the run reports, success means a verifying chain on disk
	for op := range c01HistoryOps {
		for ent := 0; ent < 3; ent++ {
			for k := 1; k <= 3; k++ {
				for _, kind := range []int{simfs.FaultErrNoWrite, simfs.FaultErrPrefix} {
					yield(&c01Case{Kind: "history", Op: op, Ent: ent, Profile: ent%2 == 0, FaultK: k, FaultKind: kind})
				}
			}
		}
	}
	// two operations before the run: every ordered pair
	for op := range c01HistoryOps {
		for ent := 0; ent < 3; ent++ {
			for op2 := range c01HistoryOps {
				for ent2 := 0; ent2 < 3; ent2++ {
					for _, prof := range []bool{false, true} {
						yield(&c01Case{Kind: "history", Op: op, Ent: ent, Op2: op2 + 1, Ent2: ent2, Profile: prof})
					}
				}
			}
		}
	}
	for _, o := range c01Origins {
		for _, prof := range []bool{false, true} {
			yield(&c01Case{Kind: "origin", Origin: o, Profile: prof})
			if o != "gopki-earlier-run" {
				yield(&c01Case{Kind: "origin", Origin: o, Profile: prof, Compressed: true})
			}
		}
	}
	// an issuer whose file holds only a key written by a tool that strips the leading zero octets of the scalar
	for _, curve := range []string{"P-224", "P-256", "P-384", "P-521", "brainpoolP256r1", "brainpoolP512t1"} {
		for _, prof := range []bool{false, true} {
			yield(&c01Case{Kind: "origin", Origin: "key-only-minimal-scalar", Profile: prof, Fixture: curve})
		}
	}
	for _, fx := range []string{"P-224-0", "P-384-0", "P-521-0"} {
		for _, prof := range []bool{false, true} {
			yield(&c01Case{Kind: "origin", Origin: "stdlib-printable", Profile: prof, Compressed: true, Fixture: fx})
		}
	}
}

func c01Profile() *refcfg.ProfileCfg {
	return &refcfg.ProfileCfg{Path: "kid-profile.yaml", Name: "kid", Exts: []refcfg.Ext{
		{Kind: refcfg.KSKI, SKI: refcfg.S("hash")},
		{Kind: refcfg.KAKI, AKIHash: true},
	}}
}

func c01Exec(x *engine.Ctx, cc any) {
	c := cc.(*c01Case)
	switch c.Kind {
	case "forest":
		c01Forest(x, c)
	case "algs":
		c01Algs(x, c)
	case "origin":
		c01Origin(x, c)
	case "history":
		c01History(x, c)
	}
}

var c01HistoryOps = []string{"delete-artifact", "replace-by-key-only", "strip-certificate", "edit-subject", "strip-key", "change-key-algorithm",
	"key-replaced-by-request+edit-child", "strip-key+edit-child+changed-only-run", "strip-key+delete-child", "add-child", "move-under-the-other-root",
	// the name is edited but the run that follows has generate-changed switched off (generate-missing only): the entity keeps a certificate
	// whose subject is not the configured one until something else makes it due
	"edit-subject+missing-only-run"}

// c01History: the directory is not fresh - one entity's artifact or config was touched since the
// last run. After the next successful default run every certificate must again verify under the
// CURRENT certificate of its issuer.
func c01History(x *engine.Ctx, c *c01Case) {
	d := &Dir{}
	prof := ""
	if c.Profile {
		d.Profiles = append(d.Profiles, c01Profile())
		prof = "kid"
	}
	names := []string{"root", "sub", "leaf"}
	for i, n := range names {
		cfg := &refcfg.CertCfg{Path: n + ".yaml", Subject: "CN=" + n, KeyAlg: "P-256", Profile: prof}
		if i > 0 {
			cfg.Issuer = names[i-1]
		}
		d.Certs = append(d.Certs, cfg)
	}
	// a second root that nothing hangs under yet: the target of a re-parenting edit
	d.Certs = append(d.Certs, &refcfg.CertCfg{Path: "other.yaml", Subject: "CN=other root", KeyAlg: "P-256", Profile: prof})
	g := Generate(d, nil, drive.Default)
	if !g.Res.OK() {
		x.Violation("C01/run-failed/history", fmt.Sprint(g.Res.Err()))
		return
	}
	w := g.W
	strat := drive.Default
	steps := [][2]int{{c.Op, c.Ent}}
	if c.Op2 > 0 {
		steps = append(steps, [2]int{c.Op2 - 1, c.Ent2})
	}
	for _, st := range steps {
		ok, s2 := c01ApplyOp(d, w, names, st[0], st[1])
		if !ok {
			x.Outcome("history: operation not applicable in this state")
			return
		}
		if s2 != 0 {
			strat = s2
		}
	}
	if strat&drive.Changed == 0 {
		for _, st := range steps {
			if c01HistoryOps[st[0]] == "move-under-the-other-root" {
				// with change detection switched off a re-parented entity keeps the certificate its former issuer signed;
				// which issuer it "has" is then the user's choice, not a chain gopki built in this run
				x.Outcome("history: re-parenting without change detection (not demanded)")
				return
			}
		}
	}
	g2 := &GenResult{W: w, Before: w.Clone(), RunStart: g.RunStart}
	var faults []simfs.Fault
	if c.FaultK > 0 {
		faults = []simfs.Fault{{K: c.FaultK - 1, Kind: c.FaultKind, Boundary: 2}}
	}
	g2.Res = drive.Run(w, strat, faults)
	g2.RunEnd = g.RunEnd + 5
	x.Nontrivial(fmt.Sprintf("history %d %d %d %d %v %d %d", c.Op, c.Ent, c.Op2, c.Ent2, c.Profile, c.FaultK, c.FaultKind))
	if g2.Res.Panic != "" {
		x.Violation("C01/panic/"+g2.Res.PanicSite, g2.Res.Panic)
		return
	}
	if !g2.Res.OK() {
		x.Outcome("history: run failed")
		return
	}
	opName := c01HistoryOps[c.Op]
	if c.Op2 > 0 {
		opName += " then " + c01HistoryOps[c.Op2-1]
	}
	if c.FaultK > 0 {
		opName += " write-error-in-the-run"
	}
	x.Outcome("history " + opName)
	for _, e := range d.Certs {
		diffs, _, err := g2.CompareEntity(d, AliasOf(e), "")
		if err != nil {
			x.Violation("C01/history/no-certificate op="+opName, err.Error())
			continue
		}
		for _, df := range diffs {
			if df.Owner == "C01" {
				x.Violation("C01/history/"+strings.TrimPrefix(df.Class, "C01/")+" op="+opName, fmt.Sprintf("after %s on %s (second operation on %s) and a default run, entity %s: %s", opName, names[c.Ent], names[c.Ent2], AliasOf(e), df.Detail))
			}
		}
	}
}

// c01ApplyOp performs one history operation on entity ent of the settled chain.
func c01ApplyOp(d *Dir, w *simfs.World, names []string, op, ent int) (ok bool, strat db.UpdateStrategy) {
	cfg := d.Certs[ent]
	art := ArtifactPath(cfg.Path)
	name := c01HistoryOps[op]
	if name == "add-child" {
		n := fmt.Sprintf("added%d", len(d.Certs))
		child := &refcfg.CertCfg{Path: n + ".yaml", Subject: "CN=" + n, KeyAlg: "P-256", Profile: cfg.Profile, Issuer: names[ent]}
		d.Certs = append(d.Certs, child)
		w.Put(child.Path, child.YAML())
		return true, 0
	}
	if name == "edit-subject" {
		cfg.Subject += " renamed"
		w.Put(cfg.Path, cfg.YAML())
		return true, 0
	}
	if name == "edit-subject+missing-only-run" {
		cfg.Subject += " renamed quietly"
		w.Put(cfg.Path, cfg.YAML())
		return true, drive.Missing
	}
	if name == "move-under-the-other-root" {
		if cfg.Issuer == "other" || AliasOf(cfg) == "other" {
			return false, 0
		}
		cfg.Issuer = "other" // also turns the root into a subordinate
		w.Put(cfg.Path, cfg.YAML())
		return true, 0
	}
	f := w.Files[art]
	if f == nil {
		return false, 0
	}
	pf := refx509.SplitPem(f.Data)
	if pf.HashLine == nil || pf.CertDER == nil || pf.KeyDER == nil {
		return false, 0
	}
	switch name {
	case "delete-artifact":
		w.Remove(art)
	case "replace-by-key-only":
		w.PutAt(art, FixtureKeyPEM("P-384-0"), 1) // an old file: older than everything else
	case "strip-certificate":
		w.Put(art, append([]byte("#HASH:"+*pf.HashLine+"\n"), refx509.EncodePem("PRIVATE KEY", pf.KeyDER)...))
	case "strip-key":
		w.Put(art, append([]byte("#HASH:"+*pf.HashLine+"\n"), refx509.EncodePem("CERTIFICATE", pf.CertDER)...))
	case "change-key-algorithm":
		cfg.KeyAlg = "P-521"
		w.Put(cfg.Path, cfg.YAML())
		w.Remove(art)
	case "key-replaced-by-request+edit-child", "strip-key+edit-child+changed-only-run", "strip-key+delete-child":
		// an issuer that keeps its certificate but has no private key any more, while something below it must be signed
		if ent == 2 {
			return false, 0
		}
		nb := append([]byte("#HASH:"+*pf.HashLine+"\n"), refx509.EncodePem("CERTIFICATE", pf.CertDER)...)
		if name == "key-replaced-by-request+edit-child" {
			k, _ := refx509.ParsePKCS8(pf.KeyDER)
			nb = append(nb, refx509.EncodePem("CERTIFICATE REQUEST", refx509.BuildCSR(k, "req", nil))...)
		}
		w.PutAt(art, nb, f.Tick) // same mtime: only the key is gone
		child := d.Certs[ent+1]
		if name == "strip-key+delete-child" {
			w.Remove(ArtifactPath(child.Path))
		} else {
			child.Subject += " renamed"
			w.Put(child.Path, child.YAML())
		}
		if name == "strip-key+edit-child+changed-only-run" {
			strat = drive.Changed
		}
	}
	return true, strat
}

// c01CheckAll verifies the C01 relation for every entity of d in g's world.
func c01CheckAll(x *engine.Ctx, d *Dir, g *GenResult, skip map[string]bool) {
	for _, cfg := range d.Certs {
		alias := AliasOf(cfg)
		if skip[alias] {
			continue
		}
		diffs, a, err := g.CompareEntity(d, alias, "")
		if err != nil {
			x.Violation("C01/no-certificate", err.Error())
			continue
		}
		reportOwned(x, "C01", diffs)
		// a child's authority key id equals its issuer's subject key id
		if cfg.Profile == "kid" && cfg.Issuer != "" {
			ia := ReadArtifact(g.W, d.Cert(cfg.Issuer).Path)
			if ia.Cert != nil {
				aki := a.Cert.ExtByOID("2.5.29.35")
				ski := ia.Cert.ExtByOID("2.5.29.14")
				if len(aki) == 1 && len(ski) == 1 && d.Cert(cfg.Issuer).Profile == "kid" {
					// AKI = SEQUENCE { [0] id }, SKI = OCTET STRING id
					st, e1 := refder.ReadAll(ski[0].Value)
					at, e2 := refder.ReadAll(aki[0].Value)
					if e1 == nil && e2 == nil {
						kids, _ := refder.Children(at.Content)
						if len(kids) != 1 || !bytes.Equal(kids[0].Content, st.Content) {
							x.Violation("C01/keyid/child-aki-differs-from-issuer-ski", fmt.Sprintf("%s: authorityKeyIdentifier %x, issuer %s subjectKeyIdentifier %x", alias, aki[0].Value, cfg.Issuer, ski[0].Value))
						}
					}
				}
			}
		}
	}
}

func c01Forest(x *engine.Ctx, c *c01Case) {
	d := &Dir{}
	if c.Profile {
		d.Profiles = append(d.Profiles, c01Profile())
	}
	alias := func(i int) string {
		if c.Layout == 1 {
			return fmt.Sprintf("alias-%d", i)
		}
		return fmt.Sprintf("n%d", i)
	}
	for i := 0; i < c.N; i++ {
		cfg := &refcfg.CertCfg{Subject: fmt.Sprintf("C=DE, O=Org %d, CN=Node %d", i, i), KeyAlg: "P-256"}
		switch c.Layout {
		case 0:
			cfg.Path = fmt.Sprintf("n%d.yaml", i)
		case 1:
			cfg.Path = fmt.Sprintf("file%d.yml", i)
			cfg.Alias = alias(i)
		case 2:
			cfg.Path = fmt.Sprintf("lvl%d/sub/n%d.yaml", i%2, i)
		}
		if c.Parent[i] >= 0 {
			cfg.Issuer = alias(c.Parent[i])
		}
		if c.Profile {
			cfg.Profile = "kid"
		}
		d.Certs = append(d.Certs, cfg)
	}
	g := Generate(d, nil, drive.Default)
	x.Nontrivial(fmt.Sprintf("forest %v %d %v", c.Parent, c.Layout, c.Profile))
	if g.Res.Panic != "" {
		x.Violation("C01/panic/"+g.Res.PanicSite, g.Res.Panic)
		return
	}
	if !g.Res.OK() {
		x.Violation("C01/run-failed/forest", fmt.Sprintf("valid forest %v: %v", c.Parent, g.Res.Err()))
		return
	}
	x.Outcome(fmt.Sprintf("forest n=%d ok", c.N))
	c01CheckAll(x, d, g, nil)
}

func c01Algs(x *engine.Ctx, c *c01Case) {
	d := &Dir{}
	if c.Profile {
		d.Profiles = append(d.Profiles, c01Profile())
	}
	prof := ""
	if c.Profile {
		prof = "kid"
	}
	ent := &refcfg.CertCfg{Path: "ent.yaml", Subject: "CN=Entity, O=Test", KeyAlg: c.SubjAlg, SigAlg: c.SigAlg, Profile: prof}
	signerAlg := c.SubjAlg
	if c.IssuerAlg != "" {
		ca := &refcfg.CertCfg{Path: "ca.yaml", Subject: "CN=Issuing CA, O=Test", KeyAlg: c.IssuerAlg, Profile: prof}
		d.Certs = append(d.Certs, ca)
		ent.Issuer = "ca"
		signerAlg = c.IssuerAlg
	}
	d.Certs = append(d.Certs, ent)
	var leaf *refcfg.CertCfg
	if c.Tier3 {
		// leaf under ent; its algorithm fits ent's key
		leaf = &refcfg.CertCfg{Path: "leaf.yaml", Subject: "CN=Leaf", KeyAlg: "P-256", Issuer: "ent", SigAlg: refcfg.DefaultSigAlg(c.SubjAlg), Profile: prof}
		d.Certs = append(d.Certs, leaf)
	}
	pre := func(w *simfs.World) {
		if c.IssuerAlg != "" {
			w.Put("ca.pem", FixtureKeyPEM(FixtureForAlg(c.IssuerAlg, 0)))
		}
		w.Put("ent.pem", FixtureKeyPEM(FixtureForAlg(c.SubjAlg, 1)))
		if leaf != nil {
			w.Put("leaf.pem", FixtureKeyPEM("P-256-0"))
		}
	}
	sigName := c.SigAlg
	if sigName == "" {
		sigName = refcfg.DefaultSigAlg(c.SubjAlg)
	}
	fit := refx509.SigFamily(refx509.SigAlgByName[sigName]) == c05Family(signerAlg)
	g := Generate(d, pre, drive.Default)
	x.Nontrivial(fmt.Sprintf("algs %s %s %s %v", c.IssuerAlg, c.SubjAlg, c.SigAlg, c.Tier3))
	if g.Res.Panic != "" {
		x.Violation("C01/panic/"+g.Res.PanicSite, g.Res.Panic)
		return
	}
	feat := fmt.Sprintf("signer-family=%s sig-family=%s", c05Family(signerAlg), refx509.SigFamily(refx509.SigAlgByName[sigName]))
	if !fit {
		x.Outcome("misfit " + feat)
		if g.Res.OK() {
			x.Violation("C01/misfit-accepted "+feat, fmt.Sprintf("signature algorithm %s does not fit the signing key (%s) but the run succeeded", sigName, signerAlg))
		}
		a := ReadArtifact(g.W, ent.Path)
		if a.Cert != nil {
			x.Violation("C01/misfit-certificate-written "+feat, fmt.Sprintf("a certificate was produced for %s signed with %s under a %s key", ent.Path, sigName, signerAlg))
		}
		return
	}
	if !g.Res.OK() {
		x.Violation("C01/run-failed/fitting-algorithms "+feat, fmt.Sprintf("issuer %s subject %s sig %s: %v", c.IssuerAlg, c.SubjAlg, sigName, g.Res.Err()))
		return
	}
	x.Outcome("fit " + feat)
	c01CheckAll(x, d, g, nil)
}

// c01ForeignDN builds the DN of an issuer certificate made by another tool.
func c01ForeignDN(origin string) (der []byte, subject string) {
	atv := func(oid string, val []byte) []byte { return refder.Seq(refder.MustOID(oid), val) }
	rdn := func(atvs ...[]byte) []byte { return refder.SetOf(atvs...) }
	switch origin {
	case "stdlib-printable":
		return refder.Seq(rdn(atv("2.5.4.6", refder.EncPrintable("DE"))), rdn(atv("2.5.4.3", refder.EncPrintable("Imported CA")))), "CN=Imported CA, C=DE"
	case "utf8-nonascii":
		return refder.Seq(rdn(atv("2.5.4.6", refder.EncPrintable("DE"))), rdn(atv("2.5.4.3", refder.EncUTF8("Zoë's CA")))), "CN=Zoë's CA, C=DE"
	case "utf8-for-printable-value":
		// what openssl writes by default: UTF8String even for printable text
		return refder.Seq(rdn(atv("2.5.4.6", refder.EncPrintable("DE"))), rdn(atv("2.5.4.10", refder.EncUTF8("Imported Org"))), rdn(atv("2.5.4.3", refder.EncUTF8("Imported CA")))), "CN=Imported CA, O=Imported Org, C=DE"
	case "ia5-email":
		return refder.Seq(rdn(atv("2.5.4.3", refder.EncPrintable("Imported CA"))), rdn(atv("1.2.840.113549.1.9.1", refder.EncIA5("ca@example.com")))), "1.2.840.113549.1.9.1=ca@example.com, CN=Imported CA"
	case "multi-valued-rdn":
		return refder.Seq(rdn(atv("2.5.4.3", refder.EncPrintable("Imported CA")), atv("2.5.4.11", refder.EncPrintable("Unit")))), "CN=Imported CA"
	case "printable-with-ampersand":
		// outside the strict repertoire but common in real CA names; parsers accept it
		return refder.Seq(rdn(atv("2.5.4.10", refder.EncPrintable("AT&T Services"))), rdn(atv("2.5.4.3", refder.EncPrintable("Imported CA")))), "CN=Imported CA, O=AT&T Services"
	case "printable-with-asterisk":
		return refder.Seq(rdn(atv("2.5.4.3", refder.EncPrintable("*.ca.example.com")))), "CN=*.ca.example.com"
	case "bmpstring":
		return refder.Seq(rdn(atv("2.5.4.3", refder.Enc(0, refder.TagBMP, false, []byte{0, 'C', 0, 'A'})))), "CN=CA"
	case "numeric-and-printable-mix":
		return refder.Seq(rdn(atv("2.5.4.5", refder.Enc(0, 18, false, []byte("12345")))), rdn(atv("2.5.4.3", refder.EncPrintable("Imported CA")))), "CN=Imported CA, SERIALNUMBER=12345"
	case "empty-name":
		// a certificate whose subject is the empty sequence (30 00): what it issues names exactly that
		return refder.Seq(), "CN=Imported CA"
	case "empty-value":
		return refder.Seq(rdn(atv("2.5.4.10", refder.EncUTF8(""))), rdn(atv("2.5.4.3", refder.EncPrintable("Imported CA")))), "CN=Imported CA"
	case "utf8-and-printable-in-one-rdn":
		return refder.Seq(rdn(atv("2.5.4.3", refder.EncUTF8("Imported CA")), atv("2.5.4.11", refder.EncPrintable("Unit")))), "CN=Imported CA"
	case "teletex":
		return refder.Seq(rdn(atv("2.5.4.3", refder.Enc(0, refder.TagT61, false, []byte("Imported CA"))))), "CN=Imported CA"
	}
	return nil, ""
}

// foreignIssuerPEM is a CA artifact made by another tool (crypto/x509): a
// self-signed certificate with the DN of the given origin over a fixture key,
// followed by that key. compressed stores the EC point in compressed form.
func foreignIssuerPEM(origin, fixture string, compressed bool) (pemBytes []byte, subject string, err error) {
	dn, subj := c01ForeignDN(origin)
	keyDER := FixtureKeyDER(fixture)
	signer, err := x509.ParsePKCS8PrivateKey(keyDER)
	if err != nil {
		return nil, "", err
	}
	tmpl := &x509.Certificate{SerialNumber: big.NewInt(4711), RawSubject: dn, NotBefore: fixedTime(2020), NotAfter: fixedTime(2040),
		IsCA: true, BasicConstraintsValid: true, KeyUsage: x509.KeyUsageCertSign}
	certDER, err := x509.CreateCertificate(rand.Reader, tmpl, tmpl, signerPublic(signer), signer)
	if err != nil {
		return nil, "", err
	}
	if compressed {
		ek, ok := signer.(*ecdsa.PrivateKey)
		if !ok {
			return nil, "", fmt.Errorf("compressed points need an EC fixture")
		}
		certDER, err = compressedPointCert(dn, ek)
		if err != nil {
			return nil, "", err
		}
	}
	return append(refx509.EncodePem("CERTIFICATE", certDER), refx509.EncodePem("PRIVATE KEY", keyDER)...), subj, nil
}

// compressedPointCert is a self-signed v3 CA certificate (ecdsa-with-SHA256)
// whose subjectPublicKey carries the point in compressed form (SEC1 2.3.3),
// which RFC 5480 allows and other tools emit.
func compressedPointCert(dn []byte, k *ecdsa.PrivateKey) ([]byte, error) {
	curveOID := map[string]string{"P-224": "1.3.132.0.33", "P-256": "1.2.840.10045.3.1.7", "P-384": "1.3.132.0.34", "P-521": "1.3.132.0.35"}[k.Curve.Params().Name]
	if curveOID == "" {
		return nil, fmt.Errorf("no curve oid for %s", k.Curve.Params().Name)
	}
	pt := elliptic.MarshalCompressed(k.Curve, k.X, k.Y)
	alg := refder.Seq(refder.MustOID("1.2.840.10045.4.3.2"))
	utc := func(y int) []byte {
		return refder.Enc(0, refder.TagUTCTime, false, []byte(fmt.Sprintf("%02d0101000000Z", y%100)))
	}
	bc := refder.Seq(refder.MustOID("2.5.29.19"), refder.EncBool(true), refder.EncOctets(refder.Seq(refder.EncBool(true))))
	tbs := refder.Seq(
		refder.Explicit(0, refder.EncInt64(2)),
		refder.EncInt64(4712),
		alg, dn,
		refder.Seq(utc(2020), utc(2040)),
		dn,
		refder.Seq(refder.Seq(refder.MustOID("1.2.840.10045.2.1"), refder.MustOID(curveOID)), refder.EncBitString(pt, 0)),
		refder.Explicit(3, refder.Seq(bc)),
	)
	h := sha256.Sum256(tbs)
	sig, err := ecdsa.SignASN1(rand.Reader, k, h[:])
	if err != nil {
		return nil, err
	}
	return refder.Seq(tbs, alg, refder.EncBitString(sig, 0)), nil
}

func c01Origin(x *engine.Ctx, c *c01Case) {
	d := &Dir{}
	prof := ""
	if c.Profile {
		d.Profiles = append(d.Profiles, c01Profile())
		prof = "kid"
	}
	ca := &refcfg.CertCfg{Path: "ca.yaml", Subject: "CN=Imported CA", KeyAlg: "P-256"}
	child := &refcfg.CertCfg{Path: "child.yaml", Subject: "CN=Child", KeyAlg: "P-256", Issuer: "ca", Profile: prof}
	x.Nontrivial("origin " + c.Origin + fmt.Sprint(c.Profile, c.Compressed, c.Fixture))
	var g *GenResult
	if c.Origin == "key-only-minimal-scalar" {
		ci := refx509.CurveByName(c.Fixture)
		l := (ci.Curve.Params().N.BitLen() + 7) / 8
		dd := new(big.Int).Sub(new(big.Int).Lsh(big.NewInt(1), uint(8*(l-1))), big.NewInt(0x1234567)) // one leading zero octet
		keyDER := refx509.BuildECPKCS8(ci, dd, refx509.ECEncoding{OuterOID: true, ScalarLen: len(dd.Bytes())})
		ca.KeyAlg, ca.Profile = c.Fixture, prof
		d.Certs = []*refcfg.CertCfg{ca, child}
		g = Generate(d, func(w *simfs.World) { w.Put("ca.pem", refx509.EncodePem("PRIVATE KEY", keyDER)) }, drive.Default)
	} else if c.Origin == "gopki-earlier-run" {
		ca.Profile = prof
		d.Certs = []*refcfg.CertCfg{ca}
		g1 := Generate(d, nil, drive.Default)
		if !g1.Res.OK() {
			x.Violation("C01/run-failed/origin", fmt.Sprint(g1.Res.Err()))
			return
		}
		d.Certs = append(d.Certs, child)
		w := g1.W
		w.Put(child.Path, child.YAML())
		g = &GenResult{W: w, Before: w.Clone()}
		g.Res = drive.Run(w, drive.Default, nil)
		g.RunStart, g.RunEnd = g1.RunStart, g1.RunEnd+2
	} else {
		fx := c.Fixture
		if fx == "" {
			fx = "P-256-0"
		}
		ca.KeyAlg = strings.TrimSuffix(fx, "-0")
		caPem, subj, err := foreignIssuerPEM(c.Origin, fx, c.Compressed)
		if err != nil {
			x.Cap("cannot create foreign issuer: " + err.Error())
			return
		}
		ca.Subject = subj
		d.Certs = []*refcfg.CertCfg{ca, child}
		g = Generate(d, func(w *simfs.World) {
			w.Put("ca.pem", caPem)
		}, drive.Default)
	}
	if g.Res.Panic != "" {
		x.Violation("C01/panic/"+g.Res.PanicSite, g.Res.Panic)
		return
	}
	if !g.Res.OK() {
		x.Violation("C01/run-failed/origin="+c.Origin, fmt.Sprint(g.Res.Err()))
		return
	}
	if c.Origin != "gopki-earlier-run" && g.Res.Planned("ca") {
		x.Outcome("imported issuer was regenerated")
	}
	x.Outcome("origin " + c.Origin)
	// only the child is gopki's work when the issuer is foreign
	skip := map[string]bool{}
	if c.Origin != "gopki-earlier-run" && c.Origin != "key-only-minimal-scalar" {
		skip["ca"] = true
	}
	c01CheckAll(x, d, g, skip)
}

func init() {
	register(&engine.Check{
		ID:          "C01",
		Level:       "exploration",
		Rule:        "(a) every rooted forest on <=3 (quick) / <=4 (thorough) entities x 3 alias/directory layouts x with/without a profile adding subjectKeyIdentifier+authorityKeyIdentifier hash; (b) issuer key algorithm (14) x subject key algorithm (6 representatives quick / 14 thorough) x signature algorithm (8 + omitted) two-tier worlds with fixture keys, the 14 x 9 self-signed roots, and a three-tier chain per issuer kind x 9; (c) 66 one-operation histories (each also with a write error at the 1st/2nd/3rd write of the following run, after which a run that reports success must still leave a verifying chain) and all 2178 ordered two-operation histories on a settled 3-tier chain next to a second root (add a child under the entity / move the entity under the other root / delete artifact / replace by an old key-only file / strip certificate / edit subject / strip key / change key algorithm / issuer key replaced by a request + child edited / issuer key stripped + child edited + generate-changed only / issuer key stripped + child artifact deleted, on each entity, with and without key-id profile) followed by a default run, after which every certificate must verify under its issuer's current certificate; (d) issuer artifact origin {earlier gopki run, a key-only file whose scalar is written without its leading zero octet (6 curves), foreign certificate with PrintableString / UTF8String non-ASCII / UTF8String for a printable value / IA5String e-mail / multi-valued RDN / TeletexString / PrintableString with & or * / BMPString / NumericString / empty value / mixed string types in one RDN}. Oracle per written certificate: signature verifies with the algorithm its signatureAlgorithm names under the SPKI of the issuer's current certificate file, issuer DN bytes = that certificate's subject DN bytes, hash key ids = SHA-1 of the respective key bits, child AKI = issuer SKI; misfit of algorithm and signing key => run fails and no certificate. non-trivial = distinct case executed",
		Bound:       map[string]string{"forest size": "quick<=3 thorough<=4"},
		Assumptions: []string{"configurations with manipulations are C19's", "Go's crypto/ecdsa, crypto/rsa and the keybase brainpool curve parameters are trusted for verification"},
		Budget:      budgets(quickBudget, thoroughBudget),
		Enumerate:   c01Enumerate,
		NewCase:     func() any { return &c01Case{} },
		Exec:        c01Exec,
	})
}
