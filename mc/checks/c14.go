package checks

import (
	"bytes"
	"crypto/x509"
	"fmt"
	"math/big"
	"strings"

	"github.com/wokdav/gopki/generator/cert"
	"github.com/wokdav/gopki/generator/db"
	"github.com/wokdav/gopki/generator/db/filesystem"

	"verif/mc/drive"
	"verif/mc/engine"
	"verif/mc/refcfg"
	"verif/mc/refx509"
	"verif/mc/simfs"
)

// C14 — existing private keys and CSRs are reused, never replaced or invented.

type c14Case struct {
	Origin string `json:"origin"` // gopki | stdlib | hand
	KeyFix string `json:"keyFix"` // fixture name
	Layout int    `json:"layout,omitempty"`
	CSR    bool   `json:"csr,omitempty"`    // CSR variant: the leaf holds a request made from KeyFix
	Seq    []int  `json:"seq"`              // trigger sequence
	Deco   int    `json:"deco,omitempty"`   // how the hand-made file is decorated around the PEM block (c14Decos)
	Swap   bool   `json:"swap,omitempty"`   // after the sequence: the key block in the file is replaced by hand with another key of the same kind, then regenerated twice
	Bundle bool   `json:"bundle,omitempty"` // after the sequence: the file is rewritten with the certificate block three times in front of the key (a chain-style bundle), then regenerated
	NoStat bool   `json:"noStat,omitempty"` // the file system's Stat call fails for the entity's artifact file in every run (the file itself opens and reads)
	Reopen bool   `json:"reopen,omitempty"` // every run of the case goes through one database object that is opened again each time
	Prof   bool   `json:"prof,omitempty"`   // the entity under test names a profile that contributes validity and an extension
	Place  int    `json:"place,omitempty"`  // 0 flat directory, alias = file stem; 1 configs in sub-directories with explicit aliases that differ from their file stems
}

var c14Triggers = []string{"edit-subject", "touch+outdated", "generate-all", "strip-certificate", "expire", "renew+expired-flag", "regenerate-issuer", "keyalg-to-rsa", "keyalg-to-ec", "strip-hash"}

var c14Decos = []string{"plain", "trailing-blank-line", "trailing-remark", "leading-bag-attributes", "crlf-line-ends", "blank-lines-around", "key-then-request-of-the-same-key", "request-of-the-same-key-then-key", "hash-line-after-the-block", "key-then-the-same-key-in-traditional-form", "key-then-encrypted-key-block"}

func c14Decorate(pem []byte, deco int) []byte {
	switch c14Decos[deco] {
	case "trailing-blank-line":
		return append(append([]byte{}, pem...), '\n')
	case "trailing-remark":
		return append(append([]byte{}, pem...), []byte("exported for the test PKI, do not use in production\n")...)
	case "leading-bag-attributes":
		return append([]byte("Bag Attributes\n    friendlyName: test key\n    localKeyID: 01 02 03 04\nKey Attributes: <No Attributes>\n"), pem...)
	case "crlf-line-ends":
		return bytes.ReplaceAll(pem, []byte("\n"), []byte("\r\n"))
	case "blank-lines-around":
		return append(append([]byte("\n\n"), pem...), []byte("\n\n")...)
	case "hash-line-after-the-block":
		// the hash remark may stand anywhere in the file; here it follows the key or request (an older hash)
		return append(append([]byte{}, pem...), []byte("#HASH:AAECAwQFBgcICQoLDA0ODxAREhM=\n")...)
	}
	return pem
}

var c14Layouts = []refx509.ECEncoding{
	{OuterOID: true},
	{OuterOID: true, Public: true},
	{InnerOID: true},
	{InnerOID: true, Public: true},
	{OuterOID: true, InnerOID: true, Public: true},
	{OuterOID: true, Public: true, Compressed: true},
	{OuterOID: true, V2: true},
	{OuterOID: true, Public: true, V2: true},
}

func c14Enumerate(tier string, yield func(any)) {
	maxLen := 2
	if tier == "thorough" {
		maxLen = 3
	}
	var seqs [][]int
	lists(len(c14Triggers), maxLen, func(l []int) { seqs = append(seqs, append([]int{}, l...)) })
	// quick: the full trigger-sequence set for representative origins of every kind, sequences of
	// length <=1 for the rest; thorough: the full set (length <=3) for every origin
	repr := map[string]bool{"gopki/RSA-1024-0": true, "gopki/RSA-2048-0": true, "gopki/P-256-0": true, "gopki/P-521-0": true, "gopki/brainpoolP256r1-0": true, "gopki/brainpoolP512t1-0": true,
		"stdlib/RSA-2048-1": true, "stdlib/P-384-1": true, "hand/P-256-1": true, "hand/brainpoolP384r1-1": true,
		"csr/RSA-2048-0": true, "csr/P-256-0": true, "csr/brainpoolP256r1-0": true, "minimal-scalar/P-256": true, "minimal-scalar/brainpoolP512r1": true}
	emit := func(c c14Case) {
		for _, s := range seqs {
			if tier != "thorough" && len(s) > 1 && !repr[c.Origin+"/"+c.KeyFix] {
				continue
			}
			cc := c
			cc.Seq = s
			yield(&cc)
		}
		// the same entity kept in a sub-directory under an explicit alias that differs from its file stem
		for _, s := range seqs {
			if len(s) > 1 {
				continue
			}
			cc := c
			cc.Seq, cc.Place = s, 1
			yield(&cc)
		}
		// files assembled by hand or exported by other tools carry text around the blocks
		for deco := 1; deco < len(c14Decos); deco++ {
			if c.CSR && (deco == 6 || deco == 7 || deco >= 9) {
				continue // the request variant has no key to put next to it
			}
			for _, s := range seqs {
				// the decoration only matters for the first import: no trigger, edit-subject, generate-all
				if len(s) > 1 || (len(s) == 1 && s[0] != 0 && s[0] != 2) {
					continue
				}
				cc := c
				cc.Seq, cc.Deco = s, deco
				yield(&cc)
			}
		}
	}
	for _, alg := range refx509.KeyAlgNames {
		if alg == "RSA-8192" && tier != "thorough" {
			continue
		}
		emit(c14Case{Origin: "gopki", KeyFix: FixtureForAlg(alg, 0)})
	}
	for _, alg := range []string{"RSA-1024", "RSA-2048", "RSA-4096", "P-224", "P-256", "P-384", "P-521"} {
		emit(c14Case{Origin: "stdlib", KeyFix: FixtureForAlg(alg, 1)})
	}
	// re-keying by hand: the key block of a generated artifact is replaced with another key of the same kind
	for _, alg := range refx509.KeyAlgNames {
		if alg == "RSA-8192" && tier != "thorough" {
			continue
		}
		for _, seq := range [][]int{{}, {0}} {
			yield(&c14Case{Origin: "gopki", KeyFix: FixtureForAlg(alg, 0), Seq: seq, Swap: true})
		}
		yield(&c14Case{Origin: "gopki", KeyFix: FixtureForAlg(alg, 0), Seq: []int{}, Bundle: true})
		if alg == "P-256" || alg == "RSA-2048" || alg == "brainpoolP256r1" {
			// the same re-keying with one database object that is opened again for every run
			for _, seq := range [][]int{{}, {0}} {
				yield(&c14Case{Origin: "gopki", KeyFix: FixtureForAlg(alg, 0), Seq: seq, Swap: true, Reopen: true})
			}
		}
		// the entity under test names a profile
		for _, seq := range [][]int{{}, {0}, {2}} {
			yield(&c14Case{Origin: "gopki", KeyFix: FixtureForAlg(alg, 0), Seq: seq, Prof: true})
		}
		if alg == "P-256" || alg == "RSA-2048" || alg == "brainpoolP256r1" {
			// an environment answer: the metadata call on the artifact file fails, reading it works
			for _, seq := range [][]int{{}, {0}, {2}, {0, 2}, {6}} {
				yield(&c14Case{Origin: "gopki", KeyFix: FixtureForAlg(alg, 0), Seq: seq, NoStat: true})
				yield(&c14Case{Origin: "csr", KeyFix: FixtureForAlg(alg, 0), CSR: true, Seq: seq, NoStat: true})
			}
		}
		if alg == "P-256" || alg == "RSA-2048" || alg == "brainpoolP256r1" {
			for _, seq := range [][]int{{}, {0}, {2}, {0, 2}} {
				yield(&c14Case{Origin: "csr", KeyFix: FixtureForAlg(alg, 0), CSR: true, Seq: seq, Prof: true})
			}
		}
		if alg == "P-256" || alg == "RSA-2048" {
			yield(&c14Case{Origin: "csr", KeyFix: FixtureForAlg(alg, 0), CSR: true, Seq: []int{}, Bundle: true})
		}
	}
	for i := range refx509.Curves {
		for l := range c14Layouts {
			emit(c14Case{Origin: "hand", KeyFix: refx509.Curves[i].Name + "-1", Layout: l})
		}
	}
	for _, alg := range []string{"RSA-1024", "RSA-2048", "RSA-4096"} {
		emit(c14Case{Origin: "rsa-v2", KeyFix: FixtureForAlg(alg, 1)})
	}
	for _, alg := range []string{"RSA-2048", "P-256", "P-521", "brainpoolP256r1", "brainpoolP512t1", "RSA-1024", "P-224", "brainpoolP384r1"} {
		emit(c14Case{Origin: "csr", KeyFix: FixtureForAlg(alg, 0), CSR: true})
	}
	// an entity without issuer whose file holds only a request: it cannot be self-signed, and no key may be invented for it
	for _, alg := range []string{"P-256", "RSA-2048", "brainpoolP256r1"} {
		for _, seq := range [][]int{{}, {2}} {
			yield(&c14Case{Origin: "csr-root", KeyFix: FixtureForAlg(alg, 0), CSR: true, Seq: seq})
		}
	}
	// keys of tools that write the scalar without its leading zero octets (old OpenSSL)
	for i := range refx509.Curves {
		for l := 0; l < 2; l++ {
			emit(c14Case{Origin: "minimal-scalar", KeyFix: refx509.Curves[i].Name, Layout: l})
		}
	}
}

// c14KeyPEM renders the key block the way the origin would.
func c14KeyPEM(c *c14Case) ([]byte, *refx509.PrivateKey, error) {
	if c.Origin == "minimal-scalar" {
		ci := refx509.CurveByName(c.KeyFix)
		l := (ci.Curve.Params().N.BitLen() + 7) / 8
		// a scalar with one (Layout 0) or two (Layout 1) leading zero octets, written without them
		d := new(big.Int).Sub(new(big.Int).Lsh(big.NewInt(1), uint(8*(l-1-c.Layout))), big.NewInt(0x1234567))
		der := refx509.BuildECPKCS8(ci, d, refx509.ECEncoding{OuterOID: true, Public: c.Layout == 1, ScalarLen: len(d.Bytes())})
		full := refx509.BuildECPKCS8(ci, d, refx509.ECEncoding{OuterOID: true})
		k, err := refx509.ParsePKCS8(full)
		return refx509.EncodePem("PRIVATE KEY", der), k, err
	}
	der := FixtureKeyDER(c.KeyFix)
	k, err := refx509.ParsePKCS8(der)
	if err != nil {
		return nil, nil, err
	}
	switch c.Origin {
	case "gopki":
		var sk any
		if k.RSA != nil {
			sk = k.RSA
		} else {
			sk = k.EC
		}
		var buf bytes.Buffer
		if err := cert.WritePrivateKeyToPem(sk, &buf); err != nil {
			return nil, nil, err
		}
		return buf.Bytes(), k, nil
	case "stdlib":
		var sk any
		if k.RSA != nil {
			k.RSA.Precompute()
			sk = k.RSA
		} else {
			sk = k.EC
		}
		b, err := x509.MarshalPKCS8PrivateKey(sk)
		if err != nil {
			return nil, nil, err
		}
		return refx509.EncodePem("PRIVATE KEY", b), k, nil
	case "hand":
		return refx509.EncodePem("PRIVATE KEY", refx509.BuildECPKCS8(k.Curve, k.EC.D, c14Layouts[c.Layout])), k, nil
	case "rsa-v2":
		return refx509.EncodePem("PRIVATE KEY", refx509.BuildRSAPKCS8V2(k.RSA)), k, nil
	}
	return refx509.EncodePem("PRIVATE KEY", der), k, nil
}

// c14CSRRoot: root.yaml without issuer, root.pem = CERTIFICATE REQUEST only, plus an ordinary child.
func c14CSRRoot(x *engine.Ctx, c *c14Case) {
	key, err := refx509.ParsePKCS8(FixtureKeyDER(c.KeyFix))
	if err != nil {
		x.Cap("fixture: " + err.Error())
		return
	}
	reqPEM := refx509.EncodePem("CERTIFICATE REQUEST", refx509.BuildCSR(key, "root request", nil))
	d := &Dir{Certs: []*refcfg.CertCfg{{Path: "root.yaml", Subject: "CN=Request Root", KeyAlg: key.Describe()}, {Path: "child.yaml", Subject: "CN=Child", Issuer: "root", KeyAlg: "P-224"}}}
	w := simfs.New(simfs.TickPerWrite)
	d.Render(w)
	w.Put("root.pem", reqPEM)
	x.Nontrivial(fmt.Sprintf("csr-root %s %v", c.KeyFix, c.Seq))
	x.State(fmt.Sprintf("csr-root %s %v", c.KeyFix, c.Seq))
	strats := []db.UpdateStrategy{drive.Default}
	if len(c.Seq) > 0 {
		strats = append(strats, drive.All)
	}
	for _, st := range strats {
		res := drive.Run(w, st, nil)
		x.Transition(1)
		if res.Panic != "" {
			x.Violation("C14/csr-root/panic/"+res.PanicSite, res.Panic)
			return
		}
		f := w.Files["root.pem"]
		if f == nil {
			x.Violation("C14/csr-root/file-removed", "root.pem is gone")
			return
		}
		pf := refx509.SplitPem(f.Data)
		if pf.NumKeys > 0 {
			x.Violation("C14/csr-root/private-key-invented", fmt.Sprintf("strategy %05b (run ok=%v): a PRIVATE KEY block was written next to the request of an entity that has no key", int(st), res.OK()))
			return
		}
		if pf.NumReqs != 1 || !bytes.Contains(f.Data, bytes.TrimSpace(reqPEM)) {
			x.Violation("C14/csr-root/request-dropped-or-changed", fmt.Sprintf("strategy %05b (run ok=%v): the request is no longer in the file unchanged", int(st), res.OK()))
			return
		}
		if pf.CertDER != nil {
			// a certificate for a request-only root could only be self-signed with a key nobody has
			cc, err := refx509.ParseCert(pf.CertDER)
			if err == nil && !bytes.Equal(cc.SPKIRaw, refx509.SPKIFor(key)) {
				x.Violation("C14/csr-root/certificate-not-for-the-request-key", "the certificate written for the request-only root carries another public key")
				return
			}
		}
	}
	x.Outcome("csr-root: request kept, no key written")
}

func c14Exec(x *engine.Ctx, cc any) {
	c := cc.(*c14Case)
	if c.Origin == "csr-root" {
		c14CSRRoot(x, c)
		return
	}
	keyPEM, key, err := c14KeyPEM(c)
	if err != nil {
		x.Cap("fixture: " + err.Error())
		return
	}
	fam := "EC"
	if key.RSA != nil {
		fam = "RSA"
	}
	root := &refcfg.CertCfg{Path: "root.yaml", Subject: "CN=Root", KeyAlg: "P-256"}
	mid := &refcfg.CertCfg{Path: "mid.yaml", Subject: "CN=Mid", Issuer: "root", KeyAlg: key.Describe(), SigAlg: "ECDSAwithSHA256",
		Validity: &refcfg.Validity{From: "2020-02-02", Until: "2080-02-02"}}
	leaf := &refcfg.CertCfg{Path: "leaf.yaml", Subject: "CN=Leaf", Issuer: "mid", KeyAlg: "P-224", SigAlg: map[string]string{"EC": "ECDSAwithSHA256", "RSA": "RSAwithSHA256"}[fam],
		Validity: &refcfg.Validity{From: "2020-02-02", Until: "2080-02-02"}}
	target := mid // the entity whose key material is under test
	var reqPEM []byte
	var reqSPKI []byte
	if c.CSR {
		// CSR variant: mid has an ordinary generated P-256 key, the leaf holds only a request
		mid.KeyAlg = "P-256"
		leaf.SigAlg = "ECDSAwithSHA256"
		leaf.KeyAlg = key.Describe()
		reqDER := refx509.BuildCSR(key, "leaf request", nil)
		reqPEM = refx509.EncodePem("CERTIFICATE REQUEST", reqDER)
		reqSPKI = refx509.SPKIFor(key)
		target = leaf
	}
	if c.Place == 1 {
		mid.Path, mid.Alias = "ca/intermediate-config.yaml", "mid"
		leaf.Path, leaf.Alias = "ca/ee/end.entity.yaml", "leaf"
	}
	d := &Dir{Certs: []*refcfg.CertCfg{root, mid, leaf}}
	if c.Prof {
		d.Profiles = []*refcfg.ProfileCfg{{Path: "profiles/p.yaml", Name: "p", Validity: &refcfg.Validity{From: "2021-03-03", Until: "2079-03-03"},
			Exts: []refcfg.Ext{{Kind: refcfg.KKU, Critical: refcfg.B(true), KU: refcfg.Strs("digitalSignature", "keyCertSign")}}}}
		target.Profile, target.Validity = "p", nil
	}
	w := simfs.New(simfs.TickPerWrite)
	d.Render(w)
	w.Put("root.pem", FixtureKeyPEM("P-256-0"))
	if c.CSR {
		w.Put(ArtifactPath(leaf.Path), c14Decorate(reqPEM, c.Deco))
	} else {
		content := c14Decorate(keyPEM, c.Deco)
		switch c14Decos[c.Deco] {
		case "key-then-request-of-the-same-key":
			content = append(append([]byte{}, keyPEM...), refx509.EncodePem("CERTIFICATE REQUEST", refx509.BuildCSR(key, "request next to its key", nil))...)
		case "request-of-the-same-key-then-key":
			content = append(refx509.EncodePem("CERTIFICATE REQUEST", refx509.BuildCSR(key, "request next to its key", nil)), keyPEM...)
		case "key-then-the-same-key-in-traditional-form":
			// what `openssl pkey -traditional` appends: a block gopki does not read, behind the one it does
			var trad []byte
			if key.RSA != nil {
				trad = refx509.EncodePem("RSA PRIVATE KEY", x509.MarshalPKCS1PrivateKey(key.RSA))
			} else if b, err := x509.MarshalECPrivateKey(key.EC); err == nil {
				trad = refx509.EncodePem("EC PRIVATE KEY", b)
			} else {
				trad = refx509.EncodePem("EC PRIVATE KEY", []byte{0x30, 0x03, 0x02, 0x01, 0x01})
			}
			content = append(append([]byte{}, keyPEM...), trad...)
		case "key-then-encrypted-key-block":
			content = append(append([]byte{}, keyPEM...), refx509.EncodePem("ENCRYPTED PRIVATE KEY", bytes.Repeat([]byte{0x30, 0x82, 0x01, 0x02}, 40))...)
		}
		w.Put(ArtifactPath(mid.Path), content)
	}
	desc := fmt.Sprintf("origin=%s key=%s layout=%d csr=%v file=%s place=%d rekey=%v bundle=%v profile=%v reopen=%v", c.Origin, c.KeyFix, c.Layout, c.CSR, c14Decos[c.Deco], c.Place, c.Swap, c.Bundle, c.Prof, c.Reopen)
	feat := fmt.Sprintf("origin=%s family=%s", c.Origin, map[bool]string{true: "RSA", false: curveFamily(key.Describe())}[key.RSA != nil])
	if c.Deco > 0 {
		feat += " file=" + c14Decos[c.Deco]
	}
	if c.Place > 0 {
		feat += " explicit-alias-in-subdirectory"
	}
	if c.Origin == "hand" && c.Layout < len(c14Layouts) {
		l := c14Layouts[c.Layout]
		feat += fmt.Sprintf(" outer-oid=%v inner-oid=%v public=%v v2=%v", l.OuterOID, l.InnerOID, l.Public, l.V2)
	}
	check := func(step string) bool {
		ok := true
		v := func(class, detail string) {
			ok = false
			x.Violation("C14/"+class+" "+feat, fmt.Sprintf("%s after %s (sequence %v): %s", desc, step, c14SeqNames(c.Seq), detail))
		}
		ar, am, al := ReadArtifact(w, root.Path), ReadArtifact(w, mid.Path), ReadArtifact(w, leaf.Path)
		if ar.Cert == nil || am.Cert == nil || al.Cert == nil {
			v("missing-certificate", fmt.Sprintf("root=%v mid=%v leaf=%v", ar.Cert != nil, am.Cert != nil, al.Cert != nil))
			return false
		}
		at := am
		if c.CSR {
			at = al
		}
		if c.CSR {
			if at.Pem.NumKeys != 0 {
				v("csr/private-key-invented", "a PRIVATE KEY block appeared in the file of a request-based entity")
			}
			if at.Pem.ReqDER == nil {
				v("csr/request-dropped", "the CERTIFICATE REQUEST block is gone")
			} else if !bytes.Equal(refx509.EncodePem("CERTIFICATE REQUEST", at.Pem.ReqDER), reqPEM) {
				v("csr/request-changed", "the CERTIFICATE REQUEST block is not byte-identical")
			}
			if !bytes.Equal(at.Cert.SPKIRaw, reqSPKI) {
				v("csr/certificate-not-for-request-key", fmt.Sprintf("certificate SPKI %x, request SPKI %x", at.Cert.SPKIRaw, reqSPKI))
			}
		} else {
			if at.Key == nil {
				v("key-lost", fmt.Sprintf("no decodable private key: %v", at.KeyErr))
				return false
			}
			if at.Key.Ident() != key.Ident() {
				v("key-replaced", fmt.Sprintf("stored key is now %s, was %s", at.Key.Describe(), key.Describe()))
			}
			if pk, err := at.Cert.PublicKey(); err != nil || !key.SamePublic(pk) {
				v("certificate-not-for-existing-key", fmt.Sprintf("certificate carries another public key (%v)", err))
			}
		}
		if err := VerifyChainLink(am.Cert, ar.Cert); err != nil {
			v("chain-broken mid-under-root", err.Error())
		}
		if err := VerifyChainLink(al.Cert, am.Cert); err != nil {
			v("chain-broken leaf-under-mid", err.Error())
		}
		return ok
	}
	var shared db.Database
	if c.Reopen {
		shared = filesystem.NewFilesystemDatabase(w)
	}
	run := func(strat int, step string) bool {
		var res drive.Result
		if shared != nil {
			res = drive.RunOn(shared, w, drive.Default|dbStrat(strat), nil)
		} else {
			res = drive.Run(w, drive.Default|dbStrat(strat), nil)
		}
		x.Transition(1)
		if res.Panic != "" {
			x.Violation("C14/panic/"+res.PanicSite+" "+feat, fmt.Sprintf("%s after %s: %s", desc, step, res.Panic))
			return false
		}
		if !res.OK() {
			x.Violation("C14/run-failed "+feat+" step="+strings.SplitN(step, " ", 2)[0], fmt.Sprintf("%s after %s (sequence %v): %v", desc, step, c14SeqNames(c.Seq), res.Err()))
			return false
		}
		return check(step)
	}
	if c.NoStat {
		w.StatFaults = map[string]bool{ArtifactPath(target.Path): true}
		desc += " stat-of-the-artifact-fails"
		feat += " stat-of-the-artifact-fails"
	}
	x.Nontrivial(desc + fmt.Sprint(c.Seq))
	x.State(desc + fmt.Sprint(c.Seq))
	if !run(0, "initial run") {
		return
	}
	subjN := 0
	for i, t := range c.Seq {
		step := fmt.Sprintf("%s (#%d)", c14Triggers[t], i)
		extra := 0
		switch c14Triggers[t] {
		case "edit-subject":
			subjN++
			target.Subject = fmt.Sprintf("CN=%s edited %d", Stem(target.Path), subjN)
			w.Put(target.Path, target.YAML())
		case "touch+outdated":
			w.Touch(target.Path)
			extra = 4
		case "generate-all":
			extra = 16
		case "strip-certificate":
			p := ArtifactPath(target.Path)
			pf := refx509.SplitPem(w.Files[p].Data)
			var nb []byte
			if pf.HashLine != nil {
				nb = append(nb, []byte("#HASH:"+*pf.HashLine+"\n")...)
			}
			for _, b := range pf.Blocks {
				if b.Type != "CERTIFICATE" {
					nb = append(nb, refx509.EncodePem(b.Type, b.Bytes)...)
				}
			}
			w.Put(p, nb)
		case "expire":
			target.Validity = &refcfg.Validity{From: "2000-01-01", Until: "2001-01-01"}
			w.Put(target.Path, target.YAML())
		case "renew+expired-flag":
			target.Validity = &refcfg.Validity{From: "2020-02-02", Until: "2081-03-03"}
			w.Put(target.Path, target.YAML())
			extra = 2
		case "regenerate-issuer":
			subjN++
			root.Subject = fmt.Sprintf("CN=Root edited %d", subjN)
			w.Put(root.Path, root.YAML())
		case "keyalg-to-rsa":
			target.KeyAlg = "RSA-1024"
			w.Put(target.Path, target.YAML())
		case "keyalg-to-ec":
			target.KeyAlg = "P-384"
			w.Put(target.Path, target.YAML())
		case "strip-hash":
			p := ArtifactPath(target.Path)
			data := w.Files[p].Data
			if i := bytes.Index(data, []byte("-----BEGIN")); i > 0 {
				w.Put(p, data[i:])
			}
		}
		if !run(extra, step) {
			return
		}
	}
	if c.Bundle {
		// bundle layout of other tools: several certificate blocks in front of the key (here the same one thrice,
		// so that whichever block is taken for the entity's certificate, it is its certificate)
		p := ArtifactPath(target.Path)
		pf := refx509.SplitPem(w.Files[p].Data)
		var nb []byte
		if pf.HashLine != nil {
			nb = append(nb, []byte("#HASH:"+*pf.HashLine+"\n")...)
		}
		for k := 0; k < 3; k++ {
			nb = append(nb, refx509.EncodePem("CERTIFICATE", pf.CertDER)...)
		}
		for _, b := range pf.Blocks {
			if b.Type != "CERTIFICATE" {
				nb = append(nb, refx509.EncodePem(b.Type, b.Bytes)...)
			}
		}
		w.Put(p, nb)
		feat += " certificate-blocks-in-front-of-the-key"
		if !run(16, "bundle layout + generate-all") {
			return
		}
	}
	if c.Swap && !c.CSR {
		// the user replaces the key block by hand (re-keying): from now on this is the entity's key
		other := strings.TrimSuffix(strings.TrimSuffix(c.KeyFix, "-0"), "-1") + map[bool]string{true: "-1", false: "-0"}[strings.HasSuffix(c.KeyFix, "-0")]
		nk, err := refx509.ParsePKCS8(FixtureKeyDER(other))
		if err != nil {
			x.Cap("fixture: " + err.Error())
			return
		}
		p := ArtifactPath(target.Path)
		pf := refx509.SplitPem(w.Files[p].Data)
		var nb []byte
		if pf.HashLine != nil {
			nb = append(nb, []byte("#HASH:"+*pf.HashLine+"\n")...)
		}
		for _, b := range pf.Blocks {
			if strings.HasSuffix(b.Type, "PRIVATE KEY") {
				nb = append(nb, FixtureKeyPEM(other)...)
			} else {
				nb = append(nb, refx509.EncodePem(b.Type, b.Bytes)...)
			}
		}
		w.Put(p, nb)
		key = nk
		feat += " key-block-replaced-by-hand"
		if !run(16, "key block replaced by hand + generate-all") {
			return
		}
		target.Subject = "CN=after the re-keying"
		w.Put(target.Path, target.YAML())
		if !run(0, "edit-subject after the re-keying") {
			return
		}
	}
	x.Outcome(fmt.Sprintf("reused over %d regenerations", len(c.Seq)+1))
}

func c14SeqNames(s []int) []string {
	var out []string
	for _, t := range s {
		out = append(out, c14Triggers[t])
	}
	return out
}

func init() {
	register(&engine.Check{
		ID:          "C14",
		Level:       "model_checking",
		Rule:        "chain root -> mid -> leaf where mid owns a pre-existing key (so children exist), in a flat directory with file-derived aliases and (trigger sequences of length <=1) in sub-directories with explicit aliases that differ from the file stems. Key origins: each of the 14 algorithms written by gopki's own PKCS#8 writer, standard-library PKCS#8 for RSA 1024/2048/4096 and the NIST curves, reference-built PKCS#8 for all 10 curves in 6 layouts (curve OID outer only, outer + public key, inner only, inner + public key, both + public key, outer + compressed public key, and the RFC 5958 version-2 container with trailing public key, with and without the inner public key), the version-2 container for three RSA sizes, PKCS#8 for all 10 curves whose scalar is written without its one or two leading zero octets; CSR variant: the leaf holds only a request made from 8 key types. Each origin also with the file decorated the way hand-assembled or exported files are (trailing blank line, trailing remark, leading Bag-Attributes text, CRLF line ends, blank lines around, a #HASH line behind the block, the key followed by a traditional-form or an encrypted key block) followed by no trigger, edit-subject or generate-all. From each, every trigger sequence of length <=2 for 15 representative origins and <=1 for the others (quick) / <=3 for every origin (thorough) over {edit subject, touch + generate-outdated, generate-all, strip certificate block, expire (dates in the past), renew + generate-expired, regenerate issuer, change keyAlgorithm to RSA, to another curve, strip hash line}. For three key types, key-holding and request-based, every run of 5 trigger sequences with the file system's Stat call failing for the entity's artifact file (the file opens and reads). For every key algorithm also: the entity (key-holding, and request-based for three key types) names a profile that contributes validity and an extension; the artifact rewritten with its certificate block three times in front of the key or request (bundle layout) and regenerated; after the first run(s) the key block is replaced by hand with another key of the same kind, then generate-all and an edit (the new key is the entity's key from then on; for three key types also with one database object that is opened again for every run). After every run: stored key is the same key, certificate SPKI is its public key, mid verifies under root and leaf under mid with byte-equal issuer DN; CSR variant: SPKI bytes = request SPKI, request block byte-identical, no PRIVATE KEY block. states = (origin, trigger prefix), transitions = runs",
		Bound:       map[string]string{"trigger sequence": "quick<=2 thorough<=3"},
		Assumptions: []string{"key identity is compared on the private scalar / (N, D)"},
		Budget:      budgets(quickBudget, thoroughBudget),
		Enumerate:   c14Enumerate,
		NewCase:     func() any { return &c14Case{} },
		Exec:        c14Exec,
	})
}
