package checks

import (
	"bytes"
	"fmt"
	"strings"

	"verif/mc/drive"
	"verif/mc/engine"
	"verif/mc/refcfg"
	"verif/mc/refder"
	"verif/mc/simfs"
)

// C16 — admission extension is the CommonPKI AdmissionSyntax of the configured content.

type c16Case struct {
	Kind string `json:"kind"` // unit | shape
	// unit: one admission x one profession info, full product of optional members
	TopAuth int `json:"topAuth,omitempty"` // 0 none, 1 ip, 2 dns, 3 mail, 4 url
	AdmAuth int `json:"admAuth,omitempty"`
	AdmNA   int `json:"admNA,omitempty"`  // bit mask over {oid,url,text}
	ProfNA  int `json:"profNA,omitempty"` // bit mask
	Oids    int `json:"oids,omitempty"`   // 0 none, 1, 2
	Reg     int `json:"reg,omitempty"`    // 0 none, 1 set
	Add     int `json:"add,omitempty"`    // 0 none, 1 binary, 2 null, 3 empty, 4 long binary
	Items   int `json:"items,omitempty"`  // index into item sets
	// shape: NA admissions x NP profession infos with the variant unit at (PA, PP)
	NA int `json:"na,omitempty"`
	NP int `json:"np,omitempty"`
	PA int `json:"pa,omitempty"`
	PP int `json:"pp,omitempty"`
	// pair: a second variant unit (index into c16Variants) at (QA, QP); full: every unit populated
	Member string `json:"member,omitempty"` // long: which string-valued member gets a value of Len bytes
	Len    int    `json:"len,omitempty"`
	V1     int    `json:"v1,omitempty"`
	V2     int    `json:"v2,omitempty"`
	QA     int    `json:"qa,omitempty"`
	QP     int    `json:"qp,omitempty"`
}

func c16GN(kind int, where string) *refcfg.GeneralName {
	switch kind {
	case 1:
		return &refcfg.GeneralName{Type: "ip", Name: "192.168.7.250"}
	case 2:
		return &refcfg.GeneralName{Type: "dns", Name: "www." + where + ".example.org"}
	case 3:
		return &refcfg.GeneralName{Type: "mail", Name: where + "@example.org"}
	case 4:
		return &refcfg.GeneralName{Type: "url", Name: "http://" + where + ".example.org/auth"}
	// spellings that a normalising library would rewrite: the name is carried as written
	case 5:
		return &refcfg.GeneralName{Type: "url", Name: "LDAP://" + where + ".Example.ORG/CN=Kammer,DC=example?certificateRevocationList#"}
	case 6:
		return &refcfg.GeneralName{Type: "url", Name: "URN:oid:1.2.276.0.76.4.49"}
	case 7:
		return &refcfg.GeneralName{Type: "dns", Name: "WWW." + where + ".Example.ORG"}
	case 8:
		return &refcfg.GeneralName{Type: "mail", Name: "Mixed.Case+tag@" + where + ".Example.ORG"}
	case 9:
		return &refcfg.GeneralName{Type: "url", Name: "http://" + where + ".example.org/a%20b/%7Euser?x=%41&y=1#frag"}
	case 10:
		return &refcfg.GeneralName{Type: "ip", Name: "0.0.0.0"}
	// octets written with leading zeros are decimal numbers all the same
	case 11:
		return &refcfg.GeneralName{Type: "ip", Name: "010.020.001.077"}
	case 12:
		return &refcfg.GeneralName{Type: "ip", Name: "192.168.08.009"}
	}
	return nil
}

func c16NA(mask int, where string) *refcfg.NamingAuthority {
	if mask == 0 {
		return nil
	}
	n := &refcfg.NamingAuthority{}
	if mask&1 != 0 {
		n.Oid = refcfg.S("1.2.276.0.76.3.1." + map[string]string{"adm": "1", "prof": "2"}[where])
	}
	if mask&2 != 0 {
		n.Url = refcfg.S("HTTP://" + where + ".Naming.Example/a%20b#") // carried as written, not normalised
	}
	if mask&4 != 0 {
		n.Text = refcfg.S("Näming Authority " + where)
	}
	return n
}

var c16ItemSets = [][]string{{"Arzt"}, {"Ärztin/Arzt", "Apotheker"}, {"B", "日本", "A"}, {"", "Arzt"}, {""}} // the last two: an item that is the empty text is an item

func c16Unit(c *c16Case) (refcfg.Admissions, refcfg.ProfessionInfo) { return c16UnitAt(c, 0) }

// c16UnitAt: pos > 0 makes every value position-dependent, so that members of different
// units can never be confused with each other
func c16UnitAt(c *c16Case, pos int) (refcfg.Admissions, refcfg.ProfessionInfo) {
	pi := refcfg.ProfessionInfo{NamingAuthority: c16NA(c.ProfNA, "prof"), ProfessionItems: c16ItemSets[c.Items]}
	base := 30 + 10*pos
	switch c.Oids {
	case 1:
		pi.ProfessionOids = refcfg.Strs(fmt.Sprintf("1.2.276.0.76.4.%d", base))
	case 2:
		// written in descending order: a SEQUENCE OF keeps the order of the configuration
		pi.ProfessionOids = refcfg.Strs(fmt.Sprintf("1.2.276.0.76.4.%d", base+1), fmt.Sprintf("1.2.276.0.76.4.%d", base))
	case 3:
		pi.ProfessionOids = refcfg.Strs(fmt.Sprintf("1.2.276.0.76.4.%d", base+2), fmt.Sprintf("1.2.276.0.76.4.%d", base), fmt.Sprintf("2.999.%d", base+1))
	}
	if pos > 0 {
		items := []string{}
		for _, it := range c16ItemSets[c.Items] {
			items = append(items, fmt.Sprintf("%s #%d", it, pos))
		}
		pi.ProfessionItems = items
		if pi.NamingAuthority != nil && pi.NamingAuthority.Text != nil {
			pi.NamingAuthority.Text = refcfg.S(fmt.Sprintf("%s #%d", *pi.NamingAuthority.Text, pos))
		}
		if pi.NamingAuthority != nil && pi.NamingAuthority.Oid != nil {
			pi.NamingAuthority.Oid = refcfg.S(fmt.Sprintf("%s.%d", *pi.NamingAuthority.Oid, pos))
		}
	}
	if c.Reg == 1 {
		pi.RegistrationNumber = refcfg.S(fmt.Sprintf("1-2-3-4-%d", 5+pos))
	}
	switch c.Add {
	case 1:
		pi.AddProfessionInfo = refcfg.Bin([]byte{1, 2, 3, 4})
	case 2:
		pi.AddProfessionInfo = refcfg.Null()
	case 3:
		pi.AddProfessionInfo = refcfg.Empty()
	case 4:
		pi.AddProfessionInfo = refcfg.Bin(bytes.Repeat([]byte{0xab}, 1000))
	}
	if pos > 0 && c.Add == 1 {
		pi.AddProfessionInfo = refcfg.Bin([]byte{1, 2, 3, byte(pos)})
	}
	ad := refcfg.Admissions{AdmissionAuthority: c16GN(c.AdmAuth, fmt.Sprintf("adm%d", pos)), NamingAuthority: c16NA(c.AdmNA, "adm")}
	if pos > 0 && ad.NamingAuthority != nil && ad.NamingAuthority.Url != nil {
		ad.NamingAuthority.Url = refcfg.S(fmt.Sprintf("%s/%d", *ad.NamingAuthority.Url, pos))
	}
	return ad, pi
}

var c16Variants = []c16Case{
	{AdmAuth: 1}, {AdmAuth: 2}, {AdmAuth: 3}, {AdmAuth: 4}, {AdmNA: 1}, {AdmNA: 2}, {AdmNA: 4}, {AdmNA: 7},
	{ProfNA: 1}, {ProfNA: 2}, {ProfNA: 4}, {ProfNA: 7}, {Oids: 1}, {Oids: 2}, {Oids: 3}, {Reg: 1}, {Add: 1}, {Add: 2}, {Add: 3}, {Items: 1}, {Items: 2},
	{TopAuth: 2, AdmAuth: 3, AdmNA: 7, ProfNA: 7, Oids: 2, Reg: 1, Add: 1, Items: 2},
}

var c16LongMembers = []string{"top-dns", "top-mail", "top-url", "adm-dns", "adm-mail", "adm-url", "admna-url", "admna-text", "admna-oid", "profna-url", "profna-text", "item", "reg", "add", "profoid", "many-items", "many-oids"}

func c16Enumerate(tier string, yield func(any)) {
	// DER length-form boundaries of every string-valued member (and of the wrappers around it)
	for _, m := range c16LongMembers {
		for _, l := range []int{100, 118, 119, 120, 121, 122, 123, 124, 125, 126, 127, 128, 129, 130, 200, 250, 251, 252, 253, 254, 255, 256, 257, 300, 1000} {
			yield(&c16Case{Kind: "long", Member: m, Len: l})
		}
	}
	c16EnumerateMore(tier, yield)
	naMasks := []int{0, 1, 2, 3, 4, 5, 6, 7}
	for top := 0; top < 5; top++ {
		for aa := 0; aa < 5; aa++ {
			for _, ana := range naMasks {
				for _, pna := range naMasks {
					for oids := 0; oids < 3; oids++ {
						for reg := 0; reg < 2; reg++ {
							for add := 0; add < 5; add++ {
								yield(&c16Case{Kind: "unit", TopAuth: top, AdmAuth: aa, AdmNA: ana, ProfNA: pna, Oids: oids, Reg: reg, Add: add, Items: (top + aa + oids + add) % len(c16ItemSets)})
							}
						}
					}
				}
			}
		}
	}
	// authority names in spellings that a normalising library would rewrite (and the all-zero address)
	for top := 0; top <= 12; top++ {
		for aa := 0; aa <= 12; aa++ {
			if top < 5 && aa < 5 {
				continue
			}
			yield(&c16Case{Kind: "unit", TopAuth: top, AdmAuth: aa, AdmNA: 7, ProfNA: 7, Oids: 1, Reg: 1, Add: 1})
		}
	}
	// a profession info without any member among 1..3: the number of profession infos is kept
	for np := 1; np <= 3; np++ {
		for pp := 0; pp < np; pp++ {
			yield(&c16Case{Kind: "count", NP: np, PP: pp})
		}
	}
	// one run, three entities, the same authority text under the kinds dns, mail and url (top level / admission level)
	// every text member with white space at its ends or inside: the text is carried as written
	for m := 0; m < 4; m++ {
		for v := range c16SpaceTexts {
			yield(&c16Case{Kind: "spaces", NP: m, PP: v})
		}
	}
	yield(&c16Case{Kind: "samename", PP: 0})
	yield(&c16Case{Kind: "samename", PP: 1})
	// registration numbers over the PrintableString repertoire and outside it, alone and next to the other members
	for v := range c16RegNums {
		for np := 0; np < 2; np++ {
			yield(&c16Case{Kind: "regnum", NP: np, PP: v})
		}
	}
	// shapes: every single-unit variant at every position against default neighbours
	variants := c16Variants
	for na := 1; na <= 3; na++ {
		for np := 1; np <= 3; np++ {
			for pa := 0; pa < na; pa++ {
				for pp := 0; pp < np; pp++ {
					for _, v := range variants {
						c := v
						c.Kind, c.NA, c.NP, c.PA, c.PP = "shape", na, np, pa, pp
						cc := c
						yield(&cc)
					}
				}
			}
		}
	}
}

// c16EnumerateMore: two variant units at two different positions of one tree (values are
// position-dependent), and fully populated trees
func c16EnumerateMore(tier string, yield func(any)) {
	sel := []int{12, 13, 14, 11, 15, 16, 7, 21} // oids 1/2/3, profNA all, reg, add, admNA all, everything
	for na := 1; na <= 3; na++ {
		for np := 1; np <= 3; np++ {
			n := na * np
			for p1 := 0; p1 < n; p1++ {
				for p2 := 0; p2 < n; p2++ {
					if p1 == p2 {
						continue
					}
					for _, v1 := range sel {
						for _, v2 := range sel {
							if tier != "thorough" && (v1+v2+p1+p2)%3 != 0 {
								continue
							}
							yield(&c16Case{Kind: "pair", NA: na, NP: np, PA: p1 / np, PP: p1 % np, QA: p2 / np, QP: p2 % np, V1: v1, V2: v2})
						}
					}
				}
			}
			for v := range c16Variants {
				yield(&c16Case{Kind: "full", NA: na, NP: np, V1: v})
			}
		}
	}
}

// c16Counts: admissions of 1..3 profession infos of which one has no member set at all (professionItems: []).
// How that element is written is not agreed (see Assumptions); that the SEQUENCE OF carries as many profession
// infos as were configured is.
func c16Counts(x *engine.Ctx, c *c16Case) {
	adm := &refcfg.Admission{}
	ad := refcfg.Admissions{}
	for p := 0; p < c.NP; p++ {
		if p == c.PP {
			ad.ProfessionInfos = append(ad.ProfessionInfos, refcfg.ProfessionInfo{ProfessionItems: []string{}})
		} else {
			ad.ProfessionInfos = append(ad.ProfessionInfos, refcfg.ProfessionInfo{ProfessionItems: []string{fmt.Sprintf("Item %d", p)}, RegistrationNumber: refcfg.S("1-2")})
		}
	}
	adm.Admissions = []refcfg.Admissions{ad}
	cfg := &refcfg.CertCfg{Path: "ent.yaml", Subject: "CN=adm", KeyAlg: "P-224", Exts: []refcfg.Ext{{Kind: refcfg.KADM, ADM: adm}}}
	d := &Dir{Certs: []*refcfg.CertCfg{cfg}}
	g := Generate(d, func(w *simfs.World) { w.Put("ent.pem", FixtureKeyPEM("P-224-0")) }, drive.Default)
	x.Nontrivial(fmt.Sprintf("count %d %d", c.NP, c.PP))
	if g.Res.Panic != "" {
		x.Violation("C16/panic/"+g.Res.PanicSite, g.Res.Panic)
		return
	}
	if !g.Res.OK() {
		x.Outcome("count: a profession info without members is refused")
		return
	}
	a := ReadArtifact(g.W, cfg.Path)
	if a.Cert == nil {
		x.Violation("C16/no-certificate", fmt.Sprint(a.CertErr))
		return
	}
	exts := a.Cert.ExtByOID("1.3.36.8.3.3")
	if len(exts) != 1 {
		x.Violation("C16/admission/extension-count", fmt.Sprintf("%d admission extensions", len(exts)))
		return
	}
	count := -1
	if top, err := refder.ReadAll(exts[0].Value); err == nil {
		if kids, err := refder.Children(top.Content); err == nil && len(kids) > 0 {
			if adms, err := refder.Children(kids[len(kids)-1].Content); err == nil && len(adms) == 1 {
				if parts, err := refder.Children(adms[0].Content); err == nil && len(parts) > 0 {
					if pis, err := refder.Children(parts[len(parts)-1].Content); err == nil {
						count = len(pis)
					}
				}
			}
		}
	}
	if count != c.NP {
		x.Violation("C16/admission/profession-info-count", fmt.Sprintf("%d profession infos configured (number %d without any member), the extension carries %d: %x", c.NP, c.PP, count, exts[0].Value))
	}
	x.Outcome("count compared")
}

// texts whose white space is part of the value (a YAML block scalar keeps its final line break; a quoted scalar keeps its blanks)
var c16SpaceTexts = []string{" Kammer A ", "Kammer B\n", "\tKammer C", "Kammer  D", "Kammer E ", " ", "Kammer\nF", "KAMMER g"}

// c16Spaces: member NP (0 naming authority text of the admission, 1 of the profession info, 2 profession item,
// 3 all three at once with different texts) takes the text PP.
func c16Spaces(x *engine.Ctx, c *c16Case) {
	val := c16SpaceTexts[c.PP]
	other := c16SpaceTexts[(c.PP+1)%len(c16SpaceTexts)]
	third := c16SpaceTexts[(c.PP+2)%len(c16SpaceTexts)]
	pi := refcfg.ProfessionInfo{ProfessionItems: []string{"Item"}}
	ad := refcfg.Admissions{}
	switch c.NP {
	case 0:
		ad.NamingAuthority = &refcfg.NamingAuthority{Text: refcfg.S(val)}
	case 1:
		pi.NamingAuthority = &refcfg.NamingAuthority{Text: refcfg.S(val)}
	case 2:
		pi.ProfessionItems = []string{val, "Item"}
	case 3:
		ad.NamingAuthority = &refcfg.NamingAuthority{Oid: refcfg.S("1.2.276.0.76.3.1.1"), Text: refcfg.S(val)}
		pi.NamingAuthority = &refcfg.NamingAuthority{Url: refcfg.S("http://naming.example"), Text: refcfg.S(other)}
		pi.ProfessionItems = []string{third, val}
	}
	ad.ProfessionInfos = []refcfg.ProfessionInfo{pi}
	adm := &refcfg.Admission{Admissions: []refcfg.Admissions{ad}}
	cfg := &refcfg.CertCfg{Path: "ent.yaml", Subject: "CN=adm", KeyAlg: "P-224", Exts: []refcfg.Ext{{Kind: refcfg.KADM, ADM: adm}}}
	d := &Dir{Certs: []*refcfg.CertCfg{cfg}}
	g := Generate(d, func(w *simfs.World) { w.Put("ent.pem", FixtureKeyPEM("P-224-0")) }, drive.Default)
	x.Nontrivial(fmt.Sprintf("spaces %d %d", c.NP, c.PP))
	if g.Res.Panic != "" {
		x.Violation("C16/panic/"+g.Res.PanicSite, g.Res.Panic)
		return
	}
	if !g.Res.OK() {
		x.Violation("C16/run-failed kind=spaces", fmt.Sprintf("member %d text %q: %v", c.NP, val, g.Res.Err()))
		return
	}
	diffs, _, err := g.CompareEntity(d, "ent", "")
	if err != nil {
		x.Violation("C16/no-certificate", err.Error())
		return
	}
	for _, df := range diffs {
		if df.Owner == "C16" {
			x.Violation(df.Class+" [text with white space]", fmt.Sprintf("member %d text %q: %s", c.NP, val, df.Detail))
		}
	}
	x.Outcome("texts with white space compared")
}

// registration numbers: inside the PrintableString repertoire (every special character of it), and outside it
var c16RegNums = []string{"1-2-3", "A.b/c:d=e?f", "(x) +1,2 'q'", "0", "DE*0815", "R&D 17", "DE_0815", "info@kammer.example", "Ärztekammer 7", "a;b", "100%", "#1"}

func c16RegInRepertoire(s string) bool {
	for _, r := range s {
		if !(r >= 'a' && r <= 'z' || r >= 'A' && r <= 'Z' || r >= '0' && r <= '9' || strings.ContainsRune(" '()+,-./:=?", r)) {
			return false
		}
	}
	return true
}

// c16RegNum: the registration number is a PrintableString; a value that a PrintableString cannot hold is
// refused or (for the characters some encoders let pass) still written as PrintableString - never as another type.
func c16RegNum(x *engine.Ctx, c *c16Case) {
	val := c16RegNums[c.PP]
	pi := refcfg.ProfessionInfo{ProfessionItems: []string{"Item"}, RegistrationNumber: refcfg.S(val)}
	if c.NP == 1 {
		pi.ProfessionOids = refcfg.Strs("1.2.276.0.76.4.30")
		pi.AddProfessionInfo = refcfg.Bin([]byte{1, 2})
	}
	adm := &refcfg.Admission{Admissions: []refcfg.Admissions{{ProfessionInfos: []refcfg.ProfessionInfo{pi}}}}
	cfg := &refcfg.CertCfg{Path: "ent.yaml", Subject: "CN=adm", KeyAlg: "P-224", Exts: []refcfg.Ext{{Kind: refcfg.KADM, ADM: adm}}}
	d := &Dir{Certs: []*refcfg.CertCfg{cfg}}
	g := Generate(d, func(w *simfs.World) { w.Put("ent.pem", FixtureKeyPEM("P-224-0")) }, drive.Default)
	x.Nontrivial(fmt.Sprintf("regnum %d %d", c.NP, c.PP))
	if g.Res.Panic != "" {
		x.Violation("C16/panic/"+g.Res.PanicSite, g.Res.Panic)
		return
	}
	in := c16RegInRepertoire(val)
	a := ReadArtifact(g.W, cfg.Path)
	if !g.Res.OK() || a.Cert == nil {
		if in {
			x.Violation("C16/admission/registration-number refused", fmt.Sprintf("registration number %q is a valid PrintableString, yet: %v", val, g.Res.Err()))
		} else {
			x.Outcome("regnum: value outside the PrintableString repertoire refused")
		}
		return
	}
	if in {
		diffs, _, err := g.CompareEntity(d, "ent", "")
		if err != nil {
			x.Violation("C16/no-certificate", err.Error())
			return
		}
		reportOwned(x, "C16", diffs)
		x.Outcome("regnum: compared")
		return
	}
	exts := a.Cert.ExtByOID("1.3.36.8.3.3")
	if len(exts) != 1 {
		x.Violation("C16/admission/extension-count", fmt.Sprintf("%d admission extensions", len(exts)))
		return
	}
	i := bytes.Index(exts[0].Value, []byte(val))
	if i < 2 || exts[0].Value[i-2] != 0x13 {
		tag := "value not found"
		if i >= 2 {
			tag = fmt.Sprintf("tag 0x%02x", exts[0].Value[i-2])
		}
		x.Violation("C16/admission/registration-number string-type", fmt.Sprintf("registration number %q does not fit a PrintableString; the certificate was issued with it as %s (not refused, not PrintableString): %x", val, tag, exts[0].Value))
		return
	}
	x.Outcome("regnum: out-of-repertoire value written as PrintableString by the encoder")
}

// c16SameName: three entities of one run whose admission trees are identical except for the GeneralName kind of one
// authority, which carries the same text in all three (dns, mail, url). Each certificate shows its own kind.
func c16SameName(x *engine.Ctx, c *c16Case) {
	d := &Dir{}
	for _, kind := range []string{"dns", "mail", "url"} {
		gn := &refcfg.GeneralName{Type: kind, Name: "authority.example.org"}
		adm := &refcfg.Admission{Admissions: []refcfg.Admissions{{ProfessionInfos: []refcfg.ProfessionInfo{{ProfessionItems: []string{"Item"}, RegistrationNumber: refcfg.S("1-2")}}}}}
		if c.PP == 0 {
			adm.AdmissionAuthority = gn
		} else {
			adm.Admissions[0].AdmissionAuthority = gn
		}
		d.Certs = append(d.Certs, &refcfg.CertCfg{Path: "ent-" + kind + ".yaml", Subject: "CN=adm " + kind, KeyAlg: "P-224", Exts: []refcfg.Ext{{Kind: refcfg.KADM, ADM: adm}}})
	}
	g := Generate(d, nil, drive.Default)
	x.Nontrivial(fmt.Sprintf("samename %d", c.PP))
	if !g.Res.OK() {
		x.Violation("C16/run-failed same-name", fmt.Sprintf("%v %s", g.Res.Err(), g.Res.Panic))
		return
	}
	for _, cfg := range d.Certs {
		diffs, _, err := g.CompareEntity(d, AliasOf(cfg), "")
		if err != nil {
			x.Violation("C16/no-certificate", err.Error())
			return
		}
		for _, df := range diffs {
			if df.Owner == "C16" {
				x.Violation(df.Class+" same-text-under-three-kinds", AliasOf(cfg)+": "+short(df.Detail, 400))
			}
		}
	}
	x.Outcome("same name under three kinds")
}

func c16Exec(x *engine.Ctx, cc any) {
	c := cc.(*c16Case)
	if c.Kind == "samename" {
		c16SameName(x, c)
		return
	}
	if c.Kind == "count" {
		c16Counts(x, c)
		return
	}
	if c.Kind == "spaces" {
		c16Spaces(x, c)
		return
	}
	if c.Kind == "regnum" {
		c16RegNum(x, c)
		return
	}
	adm := &refcfg.Admission{AdmissionAuthority: c16GN(c.TopAuth, "top")}
	if c.Kind == "unit" {
		ad, pi := c16Unit(c)
		ad.ProfessionInfos = []refcfg.ProfessionInfo{pi}
		adm.Admissions = []refcfg.Admissions{ad}
	} else if c.Kind == "long" {
		str := func(prefix string) string {
			if c.Len <= len(prefix) {
				return prefix[:c.Len]
			}
			return prefix + strings.Repeat("x", c.Len-len(prefix))
		}
		pi := refcfg.ProfessionInfo{ProfessionItems: []string{"Item"}}
		ad := refcfg.Admissions{}
		switch c.Member {
		case "top-dns":
			adm.AdmissionAuthority = &refcfg.GeneralName{Type: "dns", Name: str("top.")}
		case "top-mail":
			adm.AdmissionAuthority = &refcfg.GeneralName{Type: "mail", Name: str("a@")}
		case "top-url":
			adm.AdmissionAuthority = &refcfg.GeneralName{Type: "url", Name: str("http://")}
		case "adm-dns":
			ad.AdmissionAuthority = &refcfg.GeneralName{Type: "dns", Name: str("adm.")}
		case "adm-mail":
			ad.AdmissionAuthority = &refcfg.GeneralName{Type: "mail", Name: str("a@")}
		case "adm-url":
			ad.AdmissionAuthority = &refcfg.GeneralName{Type: "url", Name: str("http://")}
		case "admna-url":
			ad.NamingAuthority = &refcfg.NamingAuthority{Url: refcfg.S(str("http://"))}
		case "admna-text":
			ad.NamingAuthority = &refcfg.NamingAuthority{Text: refcfg.S(str("Text "))}
		case "admna-oid":
			ad.NamingAuthority = &refcfg.NamingAuthority{Oid: refcfg.S("1.2" + strings.Repeat(".4294967295", c.Len/20+1))}
		case "profna-url":
			pi.NamingAuthority = &refcfg.NamingAuthority{Url: refcfg.S(str("http://"))}
		case "profna-text":
			pi.NamingAuthority = &refcfg.NamingAuthority{Text: refcfg.S(str("Text "))}
		case "item":
			pi.ProfessionItems = []string{str("Item ")}
		case "reg":
			pi.RegistrationNumber = refcfg.S(str("1-"))
		case "add":
			pi.AddProfessionInfo = refcfg.Bin(bytes.Repeat([]byte{0x5c}, c.Len))
		case "profoid":
			pi.ProfessionOids = refcfg.Strs("1.2" + strings.Repeat(".4294967295", c.Len/20+1))
		case "many-items":
			pi.ProfessionItems = nil
			for k := 0; k < c.Len/10+1; k++ {
				pi.ProfessionItems = append(pi.ProfessionItems, fmt.Sprintf("Item-%04d", k))
			}
		case "many-oids":
			var o []string
			for k := 0; k < c.Len/10+1; k++ {
				o = append(o, fmt.Sprintf("1.2.276.0.76.4.%d", 1000+k))
			}
			pi.ProfessionOids = &o
		}
		ad.ProfessionInfos = []refcfg.ProfessionInfo{pi}
		adm.Admissions = []refcfg.Admissions{ad}
	} else if c.Kind == "pair" || c.Kind == "full" {
		for a := 0; a < c.NA; a++ {
			var ad refcfg.Admissions
			for p := 0; p < c.NP; p++ {
				pos := 1 + a*c.NP + p
				var uc *c16Case
				switch {
				case c.Kind == "full":
					u := c16Variants[(c.V1+pos)%len(c16Variants)]
					if pos%2 == 0 {
						u = c16Variants[len(c16Variants)-1]
					}
					uc = &u
				case a == c.PA && p == c.PP:
					u := c16Variants[c.V1]
					uc = &u
				case a == c.QA && p == c.QP:
					u := c16Variants[c.V2]
					uc = &u
				}
				if uc == nil {
					ad.ProfessionInfos = append(ad.ProfessionInfos, refcfg.ProfessionInfo{ProfessionItems: []string{fmt.Sprintf("Item %d.%d", a, p)}})
					continue
				}
				uad, upi := c16UnitAt(uc, pos)
				if uad.AdmissionAuthority != nil {
					ad.AdmissionAuthority = uad.AdmissionAuthority
				}
				if uad.NamingAuthority != nil {
					ad.NamingAuthority = uad.NamingAuthority
				}
				ad.ProfessionInfos = append(ad.ProfessionInfos, upi)
			}
			adm.Admissions = append(adm.Admissions, ad)
		}
	} else {
		for a := 0; a < c.NA; a++ {
			var ad refcfg.Admissions
			var vpi refcfg.ProfessionInfo
			if a == c.PA {
				ad, vpi = c16Unit(c)
			}
			for p := 0; p < c.NP; p++ {
				if a == c.PA && p == c.PP {
					ad.ProfessionInfos = append(ad.ProfessionInfos, vpi)
				} else {
					ad.ProfessionInfos = append(ad.ProfessionInfos, refcfg.ProfessionInfo{ProfessionItems: []string{fmt.Sprintf("Item %d.%d", a, p)}})
				}
			}
			adm.Admissions = append(adm.Admissions, ad)
		}
	}
	e := refcfg.Ext{Kind: refcfg.KADM, ADM: adm}
	cfg := &refcfg.CertCfg{Path: "ent.yaml", Subject: "CN=adm", KeyAlg: "P-224", Exts: []refcfg.Ext{e}}
	d := &Dir{Certs: []*refcfg.CertCfg{cfg}}
	g := Generate(d, func(w *simfs.World) { w.Put("ent.pem", FixtureKeyPEM("P-224-0")) }, drive.Default)
	x.Nontrivial(fmt.Sprintf("%+v", *c))
	if g.Res.Panic != "" {
		x.Violation("C16/panic/"+g.Res.PanicSite, g.Res.Panic)
		return
	}
	if !g.Res.OK() {
		x.Violation("C16/run-failed", fmt.Sprintf("%v\n%s", g.Res.Err(), short(string(cfg.YAML()), 700)))
		return
	}
	diffs, _, err := g.CompareEntity(d, "ent", "")
	if err != nil {
		x.Violation("C16/no-certificate", err.Error())
		return
	}
	for _, df := range diffs {
		if df.Owner == "C16" {
			x.Violation(df.Class, df.Detail+"\n"+short(string(cfg.YAML()), 700))
		}
	}
	x.Outcome("compared " + c.Kind)
}

func init() {
	register(&engine.Check{
		ID:          "C16",
		Level:       "exploration",
		Rule:        "one admission x one profession info over the full product: top-level authority {none,ip,dns,mail,url} x admission authority (5) x admission naming authority subsets of {oid,url,text} (all 8) x profession naming authority (same) x professionOids {none,1,2} x registrationNumber {none,set} x addProfessionInfo {none,!binary,!null,!empty,1000-byte !binary}, item sets incl. non-ASCII; plus 1..3 admissions x 1..3 profession infos with each of 22 single-member variants placed at every position against default neighbours, with two variants (8 x 8, a third of them in quick) at every ordered pair of positions using position-dependent values, 22 fully populated trees per shape, and every string-, OID- and list-valued member at 25 lengths around the 127/128 and 255/256 DER length-form boundaries. Each through a whole run; the value must equal the reference DER encoding of CommonPKI AdmissionSyntax (explicit [0]/[1] wrappers, IA5String url, UTF8String text/items, PrintableString registration number, OCTET STRING info, GeneralName tags [1]/[2]/[6]/[7]). non-trivial = distinct case; 12 registration numbers (every special character of the PrintableString repertoire; 8 values outside it, which must be refused or still be written as PrintableString); one run over three entities whose admissions differ only in the GeneralName kind (dns, mail, url) of an authority carrying the same text; the naming-authority text of the admission, of the profession info, a profession item, and all three at once, with each of 8 texts whose white space is part of the value (blanks at either end, a final line break, a leading tab, two inner blanks, a single blank, an inner line break) and one in upper case",
		Bound:       map[string]string{"admissions": "<=3", "profession infos": "<=3"},
		Assumptions: []string{"an empty naming authority, an empty professionItems list and an empty professionOids list have no agreed encoding and are not in the alphabet"},
		Budget:      budgets(quickBudget, thoroughBudget),
		Enumerate:   c16Enumerate,
		NewCase:     func() any { return &c16Case{} },
		Exec:        c16Exec,
	})
}
