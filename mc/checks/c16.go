package checks

import (
	"bytes"
	"fmt"

	"verif/mc/drive"
	"verif/mc/engine"
	"verif/mc/refcfg"
	"verif/mc/simfs"
)

// C16 — admission extension is the CommonPKI AdmissionSyntax of the configured content.

type c16Case struct {
	Kind string `json:"kind"` // unit | shape
	// unit: one admission x one profession info, full product of optional members
	TopAuth int `json:"topAuth,omitempty"` // 0 none, 1 ip, 2 dns, 3 mail, 4 url
	AdmAuth int `json:"admAuth,omitempty"`
	AdmNA   int `json:"admNA,omitempty"`  // bit mask over {oid,url,text}
	ProfNA  int `json:"profNA,omitempty"` // bit mask
	Oids    int `json:"oids,omitempty"`   // 0 none, 1, 2
	Reg     int `json:"reg,omitempty"`    // 0 none, 1 set
	Add     int `json:"add,omitempty"`    // 0 none, 1 binary, 2 null, 3 empty, 4 long binary
	Items   int `json:"items,omitempty"`  // index into item sets
	// shape: NA admissions x NP profession infos with the variant unit at (PA, PP)
	NA int `json:"na,omitempty"`
	NP int `json:"np,omitempty"`
	PA int `json:"pa,omitempty"`
	PP int `json:"pp,omitempty"`
}

func c16GN(kind int, where string) *refcfg.GeneralName {
	switch kind {
	case 1:
		return &refcfg.GeneralName{Type: "ip", Name: "192.168.7.250"}
	case 2:
		return &refcfg.GeneralName{Type: "dns", Name: "www." + where + ".example.org"}
	case 3:
		return &refcfg.GeneralName{Type: "mail", Name: where + "@example.org"}
	case 4:
		return &refcfg.GeneralName{Type: "url", Name: "http://" + where + ".example.org/auth"}
	}
	return nil
}

func c16NA(mask int, where string) *refcfg.NamingAuthority {
	if mask == 0 {
		return nil
	}
	n := &refcfg.NamingAuthority{}
	if mask&1 != 0 {
		n.Oid = refcfg.S("1.2.276.0.76.3.1." + map[string]string{"adm": "1", "prof": "2"}[where])
	}
	if mask&2 != 0 {
		n.Url = refcfg.S("http://" + where + ".naming.example")
	}
	if mask&4 != 0 {
		n.Text = refcfg.S("Näming Authority " + where)
	}
	return n
}

var c16ItemSets = [][]string{{"Arzt"}, {"Ärztin/Arzt", "Apotheker"}, {"A", "B", "日本"}}

func c16Unit(c *c16Case) (refcfg.Admissions, refcfg.ProfessionInfo) {
	pi := refcfg.ProfessionInfo{NamingAuthority: c16NA(c.ProfNA, "prof"), ProfessionItems: c16ItemSets[c.Items]}
	switch c.Oids {
	case 1:
		pi.ProfessionOids = refcfg.Strs("1.2.276.0.76.4.30")
	case 2:
		pi.ProfessionOids = refcfg.Strs("1.2.276.0.76.4.30", "1.2.276.0.76.4.31")
	}
	if c.Reg == 1 {
		pi.RegistrationNumber = refcfg.S("1-2-3-4-5")
	}
	switch c.Add {
	case 1:
		pi.AddProfessionInfo = refcfg.Bin([]byte{1, 2, 3, 4})
	case 2:
		pi.AddProfessionInfo = refcfg.Null()
	case 3:
		pi.AddProfessionInfo = refcfg.Empty()
	case 4:
		pi.AddProfessionInfo = refcfg.Bin(bytes.Repeat([]byte{0xab}, 1000))
	}
	ad := refcfg.Admissions{AdmissionAuthority: c16GN(c.AdmAuth, "adm"), NamingAuthority: c16NA(c.AdmNA, "adm")}
	return ad, pi
}

func c16Enumerate(tier string, yield func(any)) {
	naMasks := []int{0, 1, 7}
	if tier == "thorough" {
		naMasks = []int{0, 1, 2, 3, 4, 5, 6, 7}
	}
	for top := 0; top < 5; top++ {
		for aa := 0; aa < 5; aa++ {
			for _, ana := range naMasks {
				for _, pna := range naMasks {
					for oids := 0; oids < 3; oids++ {
						for reg := 0; reg < 2; reg++ {
							for add := 0; add < 5; add++ {
								yield(&c16Case{Kind: "unit", TopAuth: top, AdmAuth: aa, AdmNA: ana, ProfNA: pna, Oids: oids, Reg: reg, Add: add, Items: (top + aa + oids + add) % len(c16ItemSets)})
							}
						}
					}
				}
			}
		}
	}
	// shapes: every single-unit variant at every position against default neighbours
	variants := []c16Case{
		{AdmAuth: 1}, {AdmAuth: 2}, {AdmAuth: 3}, {AdmAuth: 4}, {AdmNA: 1}, {AdmNA: 2}, {AdmNA: 4}, {AdmNA: 7},
		{ProfNA: 1}, {ProfNA: 2}, {ProfNA: 4}, {ProfNA: 7}, {Oids: 1}, {Oids: 2}, {Reg: 1}, {Add: 1}, {Add: 2}, {Add: 3}, {Items: 1}, {Items: 2},
		{TopAuth: 2, AdmAuth: 3, AdmNA: 7, ProfNA: 7, Oids: 2, Reg: 1, Add: 1, Items: 2},
	}
	for na := 1; na <= 3; na++ {
		for np := 1; np <= 3; np++ {
			for pa := 0; pa < na; pa++ {
				for pp := 0; pp < np; pp++ {
					for _, v := range variants {
						c := v
						c.Kind, c.NA, c.NP, c.PA, c.PP = "shape", na, np, pa, pp
						cc := c
						yield(&cc)
					}
				}
			}
		}
	}
}

func c16Exec(x *engine.Ctx, cc any) {
	c := cc.(*c16Case)
	adm := &refcfg.Admission{AdmissionAuthority: c16GN(c.TopAuth, "top")}
	if c.Kind == "unit" {
		ad, pi := c16Unit(c)
		ad.ProfessionInfos = []refcfg.ProfessionInfo{pi}
		adm.Admissions = []refcfg.Admissions{ad}
	} else {
		for a := 0; a < c.NA; a++ {
			var ad refcfg.Admissions
			var vpi refcfg.ProfessionInfo
			if a == c.PA {
				ad, vpi = c16Unit(c)
			}
			for p := 0; p < c.NP; p++ {
				if a == c.PA && p == c.PP {
					ad.ProfessionInfos = append(ad.ProfessionInfos, vpi)
				} else {
					ad.ProfessionInfos = append(ad.ProfessionInfos, refcfg.ProfessionInfo{ProfessionItems: []string{fmt.Sprintf("Item %d.%d", a, p)}})
				}
			}
			adm.Admissions = append(adm.Admissions, ad)
		}
	}
	e := refcfg.Ext{Kind: refcfg.KADM, ADM: adm}
	cfg := &refcfg.CertCfg{Path: "ent.yaml", Subject: "CN=adm", KeyAlg: "P-224", Exts: []refcfg.Ext{e}}
	d := &Dir{Certs: []*refcfg.CertCfg{cfg}}
	g := Generate(d, func(w *simfs.World) { w.Put("ent.pem", FixtureKeyPEM("P-224-0")) }, drive.Default)
	x.Nontrivial(fmt.Sprintf("%+v", *c))
	if g.Res.Panic != "" {
		x.Violation("C16/panic/"+g.Res.PanicSite, g.Res.Panic)
		return
	}
	if !g.Res.OK() {
		x.Violation("C16/run-failed", fmt.Sprintf("%v\n%s", g.Res.Err(), short(string(cfg.YAML()), 700)))
		return
	}
	diffs, _, err := g.CompareEntity(d, "ent", "")
	if err != nil {
		x.Violation("C16/no-certificate", err.Error())
		return
	}
	for _, df := range diffs {
		if df.Owner == "C16" {
			x.Violation(df.Class, df.Detail+"\n"+short(string(cfg.YAML()), 700))
		}
	}
	x.Outcome("compared " + c.Kind)
}

func init() {
	register(&engine.Check{
		ID:          "C16",
		Level:       "exploration",
		Rule:        "one admission x one profession info over the full product: top-level authority {none,ip,dns,mail,url} x admission authority (5) x admission naming authority subsets of {oid,url,text} (quick: {none,oid,all}; thorough: all 8) x profession naming authority (same) x professionOids {none,1,2} x registrationNumber {none,set} x addProfessionInfo {none,!binary,!null,!empty,1000-byte !binary}, item sets incl. non-ASCII; plus 1..3 admissions x 1..3 profession infos with each of 21 single-member variants placed at every position against default neighbours. Each through a whole run; the value must equal the reference DER encoding of CommonPKI AdmissionSyntax (explicit [0]/[1] wrappers, IA5String url, UTF8String text/items, PrintableString registration number, OCTET STRING info, GeneralName tags [1]/[2]/[6]/[7]). non-trivial = distinct case",
		Bound:       map[string]string{"admissions": "<=3", "profession infos": "<=3"},
		Assumptions: []string{"an empty naming authority, an empty professionItems list and an empty professionOids list have no agreed encoding and are not in the alphabet"},
		Budget:      budgets(quickBudget, thoroughBudget),
		Enumerate:   c16Enumerate,
		NewCase:     func() any { return &c16Case{} },
		Exec:        c16Exec,
	})
}
