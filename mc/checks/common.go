// Package checks holds one file per property.
package checks

import (
	"crypto"
	"fmt"
	"github.com/wokdav/gopki/generator/db"
	"os"
	"path/filepath"
	"sort"
	"strings"
	"time"

	"verif/mc/engine"
	"verif/mc/refcfg"
	"verif/mc/refx509"
	"verif/mc/simfs"
)

var registry = map[string]*engine.Check{}

func register(c *engine.Check) { registry[c.ID] = c }

func Get(id string) *engine.Check { return registry[id] }

func IDs() []string {
	var out []string
	for k := range registry {
		out = append(out, k)
	}
	sort.Strings(out)
	return out
}

const (
	quickBudget    = 120 * time.Second
	thoroughBudget = 25 * time.Minute
)

func budgets(q, t time.Duration) map[string]time.Duration {
	return map[string]time.Duration{"quick": q, "thorough": t}
}

// ArtifactPath is the documented location of an entity's artifact:
// "<config path without extension>.pem".
func ArtifactPath(cfgPath string) string {
	i := strings.LastIndex(cfgPath, ".")
	return cfgPath[:i] + ".pem"
}

// Stem is the file's base name without suffix (the default alias).
func Stem(cfgPath string) string {
	b := cfgPath[strings.LastIndex(cfgPath, "/")+1:]
	return b[:strings.LastIndex(b, ".")]
}

// AliasOf is the documented alias: explicit or else the file's base name.
func AliasOf(c *refcfg.CertCfg) string {
	if c.Alias != "" {
		return c.Alias
	}
	return Stem(c.Path)
}

// Dir is a set of configuration files (harness AST) to be rendered into a world.
type Dir struct {
	Certs    []*refcfg.CertCfg    `json:"certs"`
	Profiles []*refcfg.ProfileCfg `json:"profiles,omitempty"`
}

func (d *Dir) Cert(alias string) *refcfg.CertCfg {
	for _, c := range d.Certs {
		if AliasOf(c) == alias {
			return c
		}
	}
	return nil
}

func (d *Dir) Profile(name string) *refcfg.ProfileCfg {
	for _, p := range d.Profiles {
		if p.Name == name {
			return p
		}
	}
	return nil
}

// RenderCfg renders a config in the form its suffix implies.
func RenderCfg(path string, tree refcfg.Map) []byte {
	if strings.HasSuffix(strings.ToLower(path), ".json") {
		return []byte(refcfg.JSON(tree))
	}
	return []byte(refcfg.YAML(tree))
}

// Render writes all configs of d into w (as user edits: clock advances).
func (d *Dir) Render(w *simfs.World) {
	for _, p := range d.Profiles {
		w.Put(p.Path, RenderCfg(p.Path, p.Tree()))
	}
	for _, c := range d.Certs {
		w.Put(c.Path, RenderCfg(c.Path, c.Tree()))
	}
}

// Artifact is the decoded content of an entity's PEM file.
type Artifact struct {
	Exists  bool
	Pem     *refx509.PemFile
	Cert    *refx509.Cert
	CertErr error
	Key     *refx509.PrivateKey
	KeyErr  error
	CSR     *refx509.CSR
}

func ReadArtifact(w *simfs.World, cfgPath string) *Artifact {
	a := &Artifact{}
	f, ok := w.Files[ArtifactPath(cfgPath)]
	if !ok {
		return a
	}
	a.Exists = true
	a.Pem = refx509.SplitPem(f.Data)
	if a.Pem.CertDER != nil {
		a.Cert, a.CertErr = refx509.ParseCert(a.Pem.CertDER)
	}
	if a.Pem.KeyDER != nil {
		a.Key, a.KeyErr = refx509.ParsePKCS8(a.Pem.KeyDER)
	}
	if a.Pem.ReqDER != nil {
		a.CSR, _ = refx509.ParseCSR(a.Pem.ReqDER)
	}
	return a
}

// VerifyChainLink checks the C01 relation of child to issuer certificate.
func VerifyChainLink(child, issuer *refx509.Cert) error {
	if string(child.IssuerRaw) != string(issuer.SubjectRaw) {
		return fmt.Errorf("issuer DN %x is not byte-identical to the issuer certificate's subject DN %x", child.IssuerRaw, issuer.SubjectRaw)
	}
	if err := child.VerifyUnder(issuer); err != nil {
		return fmt.Errorf("signature: %v", err)
	}
	return nil
}

func errStr(err error) string {
	if err == nil {
		return ""
	}
	s := err.Error()
	if len(s) > 300 {
		s = s[:300]
	}
	return s
}

func short(s string, n int) string {
	if len(s) > n {
		return s[:n] + "..."
	}
	return s
}

// cnOf returns the commonName of a decoded DN ("" if none).
func cnOf(dn []refx509.RDN) string {
	for _, r := range dn {
		for _, a := range r {
			if a.OID == "2.5.4.3" {
				return string(a.Value)
			}
		}
	}
	return ""
}

// FixtureKeyPEM returns the PEM text of a pre-generated test key, e.g.
// "RSA-2048-0", "P-256-1", "brainpoolP384r1-0".
func FixtureKeyPEM(name string) []byte {
	b, err := os.ReadFile(filepath.Join(engine.VerifDir(), "fixtures", "keys", name+".pem"))
	if err != nil {
		panic("fixture key missing: " + name + ": " + err.Error())
	}
	return b
}

// FixtureKeyDER returns the PKCS#8 DER of a fixture key.
func FixtureKeyDER(name string) []byte {
	p := refx509.SplitPem(FixtureKeyPEM(name))
	return p.KeyDER
}

// FixtureForAlg maps a configuration keyAlgorithm name to a fixture key.
func FixtureForAlg(alg string, n int) string { return fmt.Sprintf("%s-%d", alg, n) }

func fixedTime(year int) time.Time { return time.Date(year, 1, 1, 0, 0, 0, 0, time.UTC) }

// signerPublic returns the public half of a crypto.Signer-like private key.
func signerPublic(k any) any {
	type pub interface{ Public() crypto.PublicKey }
	if p, ok := k.(pub); ok {
		return p.Public()
	}
	return nil
}

func dbStrat(s int) db.UpdateStrategy { return db.UpdateStrategy(s) }
