package checks

import (
	"bytes"
	"crypto/ecdsa"
	"crypto/rand"
	"crypto/rsa"
	"crypto/x509"
	"crypto/x509/pkix"
	"encoding/asn1"
	"fmt"
	"math/big"
	"os"
	"path/filepath"
	"strings"

	"github.com/wokdav/gopki/generator/cert"

	"github.com/wokdav/gopki/generator/db"
	"github.com/wokdav/gopki/generator/db/filesystem"

	"verif/mc/engine"
	"verif/mc/refder"
	"verif/mc/refx509"
	"verif/mc/simfs"
)

// C17 — private keys survive PKCS#8/PEM write and read, and interoperate.

type c17Case struct {
	Kind   string `json:"kind"` // ec | rsa | file | reject
	Curve  string `json:"curve,omitempty"`
	Scalar string `json:"scalar,omitempty"` // hex
	What   string `json:"what,omitempty"`
	RSA    string `json:"rsa,omitempty"` // fixture name
	// file
	Blocks string `json:"blocks,omitempty"` // order string over c,k,r e.g. "kc"
	Hash   bool   `json:"hash,omitempty"`
	KeyFix string `json:"keyFix,omitempty"`
	Layout string `json:"layout,omitempty"` // "" = hash line first, read by cert.ReadPem; else a file layout read through the directory import
	// reject
	Reject string `json:"reject,omitempty"`
	Prefix int    `json:"prefix,omitempty"`
}

func c17Scalars(ci *refx509.CurveInfo) map[string]*big.Int {
	n := ci.Curve.Params().N
	l := (n.BitLen() + 7) / 8
	out := map[string]*big.Int{
		"1": big.NewInt(1), "2": big.NewInt(2), "3": big.NewInt(3),
		"n-1": new(big.Int).Sub(n, big.NewInt(1)), "n-2": new(big.Int).Sub(n, big.NewInt(2)),
		"n/2": new(big.Int).Rsh(n, 1),
	}
	for z := 1; z <= 3; z++ {
		k := uint(8 * (l - z))
		p := new(big.Int).Lsh(big.NewInt(1), k)
		out[fmt.Sprintf("2^%d-1 (%d leading zero bytes)", k, z)] = new(big.Int).Sub(p, big.NewInt(1))
		out[fmt.Sprintf("2^%d (%d leading zero bytes)", k-1, z)] = new(big.Int).Rsh(p, 1)
	}
	// every scalar byte-length: 2^(8k)-1 and 2^(8k-1) have exactly l-k leading zero octets
	for k := 1; k < l; k++ {
		out[fmt.Sprintf("len%02d-max (%d leading zero bytes)", k, l-k)] = new(big.Int).Sub(new(big.Int).Lsh(big.NewInt(1), uint(8*k)), big.NewInt(1))
		out[fmt.Sprintf("len%02d-min (%d leading zero bytes)", k, l-k)] = new(big.Int).Lsh(big.NewInt(1), uint(8*k-1))
	}
	// fixed mid-range values: n * i/9 + i
	for i := 1; i <= 8; i++ {
		v := new(big.Int).Mul(n, big.NewInt(int64(i)))
		v.Div(v, big.NewInt(9))
		v.Add(v, big.NewInt(int64(i*7919)))
		out[fmt.Sprintf("mid%d", i)] = v
	}
	return out
}

var c17RSAFixtures = []string{"RSA-1024-0", "RSA-1024-1", "RSA-1536-0", "RSA-1536-1", "RSA-2048-0", "RSA-2048-1", "RSA-3072-0", "RSA-3072-1", "RSA-4096-0", "RSA-4096-1", "RSA-1023-0", "RSA-1025-0", "RSA-2047-0"}

func c17Enumerate(tier string, yield func(any)) {
	for i := range refx509.Curves {
		ci := &refx509.Curves[i]
		sc := c17Scalars(ci)
		for _, k := range sortedKeys(sc) {
			yield(&c17Case{Kind: "ec", Curve: ci.Name, Scalar: sc[k].Text(16), What: k})
		}
	}
	for _, f := range c17RSAFixtures {
		yield(&c17Case{Kind: "rsa", RSA: f})
	}
	// the write side: every subset of {certificate, key, request} put through the database, fresh and over an older file
	for _, blocks := range []string{"c", "k", "r", "ck", "cr", "kr", "ckr"} {
		for _, kf := range []string{"P-256-0", "RSA-2048-0", "brainpoolP384r1-0"} {
			for _, over := range []bool{false, true} {
				yield(&c17Case{Kind: "put", Blocks: blocks, KeyFix: kf, Hash: over})
				if blocks == "k" && kf == "P-256-0" {
					for np := range c17NamePairs {
						yield(&c17Case{Kind: "putnames", Prefix: np, Hash: over})
					}
				}
			}
		}
	}
	// artifact files: subsets x orders x hash line
	orders := []string{"", "c", "k", "r", "ck", "kc", "cr", "rc", "kr", "rk", "ckr", "crk", "kcr", "krc", "rck", "rkc"}
	for _, o := range orders {
		for _, h := range []bool{false, true} {
			for _, kf := range []string{"P-256-0", "RSA-2048-0", "brainpoolP384r1-0", "P-521-0"} {
				yield(&c17Case{Kind: "file", Blocks: o, Hash: h, KeyFix: kf})
			}
			if o == "" {
				continue
			}
			// the same file as an entity's artifact, read by opening the directory: hash line in every position, blank line at the end
			ls := []string{"first", "trailing-blank-line"}
			if h {
				ls = append(ls, "hash-last")
				if len(o) > 1 {
					ls = append(ls, "hash-after-first-block")
				}
			}
			for _, l := range ls {
				yield(&c17Case{Kind: "file", Blocks: o, Hash: h, KeyFix: "P-256-0", Layout: l})
			}
		}
	}
	// large artifact files (RSA-4096 / RSA-8192 keys: 4..8 KB) read by opening the directory
	for _, kf := range []string{"RSA-4096-0", "RSA-8192-0"} {
		for _, o := range []string{"k", "ck", "kc", "ckr", "rkc"} {
			for _, l := range []string{"first", "hash-last"} {
				yield(&c17Case{Kind: "file", Blocks: o, Hash: true, KeyFix: kf, Layout: l})
			}
		}
	}
	// the native filesystem: an artifact file is overwritten by a shorter / longer / equally long one and read back
	for _, pair := range [][2]string{{"RSA-4096-0", "P-256-0"}, {"RSA-2048-0", "P-224-0"}, {"P-521-0", "P-256-1"}, {"P-256-0", "RSA-2048-1"}, {"P-256-0", "P-256-1"}, {"brainpoolP512r1-0", "brainpoolP256r1-0"}} {
		yield(&c17Case{Kind: "native-rewrite", KeyFix: pair[0], RSA: pair[1]})
	}
	// an artifact file with a damaged key block (scalar = group order) in every position relative to valid blocks
	for _, o := range []string{"K", "Kc", "cK", "Kr", "rK", "cKr", "Krc", "rcK", "crK", "Kcr", "rKc"} {
		for _, h := range []bool{false, true} {
			yield(&c17Case{Kind: "file", Blocks: o, Hash: h, KeyFix: "P-256-0"})
		}
	}
	// rejection inputs
	for i := range refx509.Curves {
		ci := &refx509.Curves[i]
		for _, r := range []string{"scalar=0", "scalar=n", "scalar=n+1", "scalar=2^(8len)-1", "unknown-curve-oid", "missing-curve", "ecprivatekey-version-2", "ecprivatekey-version-0", "rsa-body-in-ec-wrapper"} {
			yield(&c17Case{Kind: "reject", Curve: ci.Name, Reject: r})
		}
		// every strict prefix of a valid encoding
		der := refx509.BuildECPKCS8(ci, big.NewInt(12345), refx509.ECEncoding{OuterOID: true, Public: true})
		for p := 0; p < len(der); p++ {
			yield(&c17Case{Kind: "reject", Curve: ci.Name, Reject: "prefix", Prefix: p})
		}
	}
	yield(&c17Case{Kind: "reject", Reject: "unknown-algorithm-oid"})
	yield(&c17Case{Kind: "reject", Reject: "ec-body-in-rsa-wrapper"})
	yield(&c17Case{Kind: "reject", Reject: "pem-around-garbage"})
	yield(&c17Case{Kind: "reject", Reject: "pem-around-empty"})
	// keys in containers other than unencrypted PKCS#8: an error (or the key), never silently nothing
	yield(&c17Case{Kind: "reject", Reject: "sec1-in-EC-PRIVATE-KEY-block"})
	yield(&c17Case{Kind: "reject", Reject: "pkcs1-in-RSA-PRIVATE-KEY-block"})
	yield(&c17Case{Kind: "reject", Reject: "pkcs8-shell-in-ENCRYPTED-PRIVATE-KEY-block"})
	rsaDER := FixtureKeyDER("RSA-1024-0")
	step := 1
	if tier == "quick" {
		step = 3
	}
	for p := 0; p < len(rsaDER); p += step {
		yield(&c17Case{Kind: "reject", RSA: "RSA-1024-0", Reject: "prefix", Prefix: p})
	}
}

func sortedKeys(m map[string]*big.Int) []string {
	var out []string
	for k := range m {
		out = append(out, k)
	}
	for i := range out {
		for j := i + 1; j < len(out); j++ {
			if out[j] < out[i] {
				out[i], out[j] = out[j], out[i]
			}
		}
	}
	return out
}

func ecEqual(a, b *ecdsa.PrivateKey) bool {
	if a == nil || b == nil || a.D == nil || b.D == nil || a.X == nil || a.Y == nil || b.X == nil || b.Y == nil || a.Curve == nil || b.Curve == nil {
		return false
	}
	return a != nil && b != nil && a.D.Cmp(b.D) == 0 && a.X.Cmp(b.X) == 0 && a.Y.Cmp(b.Y) == 0 &&
		a.Curve.Params().Name == b.Curve.Params().Name && a.Curve.Params().N.Cmp(b.Curve.Params().N) == 0
}

func rsaEqual(a, b *rsa.PrivateKey) bool {
	if a == nil || b == nil || a.N.Cmp(b.N) != 0 || a.E != b.E || a.D.Cmp(b.D) != 0 || len(a.Primes) != len(b.Primes) {
		return false
	}
	for i := range a.Primes {
		if a.Primes[i].Cmp(b.Primes[i]) != 0 {
			return false
		}
	}
	return true
}

func c17Exec(x *engine.Ctx, cc any) {
	c := cc.(*c17Case)
	switch c.Kind {
	case "ec":
		c17EC(x, c)
	case "rsa":
		c17RSA(x, c)
	case "native-rewrite":
		c17NativeRewrite(x, c)
	case "file":
		c17File(x, c)
	case "reject":
		c17Reject(x, c)
	case "put":
		c17Put(x, c)
	case "putnames":
		c17PutNames(x, c)
	}
}

// configuration file names with more than one dot: two entities whose names share their first part
var c17NamePairs = [][2]string{{"ca.root.yaml", "ca.issuing.yaml"}, {"pki.v1/root.yaml", "pki.v1/sub.yaml"}, {"a.b.c.yaml", "a.b.d.yml"}, {"x.yaml", "x.y.yaml"}, {"dir/x.y/z.json", "dir/x.q/z.json"}, {"plain.yaml", "other.yaml"}}

// c17PutNames: two keys written through the database for two entities whose file names contain dots; each is read
// back as itself through a database opened afresh, from the file next to its own configuration.
func c17PutNames(x *engine.Ctx, c *c17Case) {
	pair := c17NamePairs[c.Prefix]
	fixes := []string{"P-256-0", "RSA-1024-0"}
	if c.Hash {
		fixes = []string{"RSA-1024-0", "P-256-0"}
	}
	w := simfs.New(simfs.TickPerWrite)
	aliases := make([]string, 2)
	for i, p := range pair {
		aliases[i] = fmt.Sprintf("name-%d", i)
		w.Put(p, []byte(fmt.Sprintf("version: 1\nalias: %s\nsubject: CN=file test %d\n", aliases[i], i)))
	}
	x.Nontrivial(fmt.Sprintf("putnames %d %v", c.Prefix, c.Hash))
	feat := fmt.Sprintf("names=%s+%s", pair[0], pair[1])
	fsdb := filesystem.NewFilesystemDatabase(w)
	if err := fsdb.Open(); err != nil {
		x.Violation("C17/putnames/open-error "+feat, err.Error())
		return
	}
	w.BeginRun(nil)
	var keys [2]*refx509.PrivateKey
	for i := range pair {
		pf, err := cert.ReadPem(FixtureKeyPEM(fixes[i]))
		if err != nil || pf.PrivateKey == nil {
			x.Cap("fixture key unreadable")
			return
		}
		keys[i], _ = refx509.ParsePKCS8(FixtureKeyDER(fixes[i]))
		if err := fsdb.PutBuildArtifact(aliases[i], db.BuildArtifact{PrivateKey: pf.PrivateKey}); err != nil {
			x.Violation("C17/putnames/error "+feat, err.Error())
			return
		}
	}
	fsdb.Close()
	for i, p := range pair {
		a := ReadArtifact(w, p)
		if a.Key == nil || a.Key.Ident() != keys[i].Ident() {
			got := "no key"
			if a.Key != nil {
				got = a.Key.Describe()
			}
			x.Violation("C17/putnames/file-next-to-the-configuration "+feat, fmt.Sprintf("the key written for %s (%s) is not in %s (found: %s, file exists=%v); files: %v", p, keys[i].Describe(), ArtifactPath(p), got, a.Exists, w.Paths()))
			return
		}
	}
	again := filesystem.NewFilesystemDatabase(w)
	if err := again.Open(); err != nil {
		x.Violation("C17/putnames/reopen-error "+feat, err.Error())
		return
	}
	defer again.Close()
	for i := range pair {
		a, err := again.GetBuildArtifact(aliases[i])
		if err != nil || a == nil || a.PrivateKey == nil {
			x.Violation("C17/putnames/key-not-read-back "+feat, fmt.Sprintf("%s: %v", pair[i], err))
			return
		}
		var buf bytes.Buffer
		if err := cert.WritePrivateKeyToPem(a.PrivateKey, &buf); err != nil {
			x.Violation("C17/putnames/unwritable "+feat, err.Error())
			return
		}
		back := refx509.SplitPem(buf.Bytes())
		k, err := refx509.ParsePKCS8(back.KeyDER)
		if err != nil || k.Ident() != keys[i].Ident() {
			x.Violation("C17/putnames/another-key-read-back "+feat, fmt.Sprintf("%s: wrote %s, a database opened afterwards returns another key (%v)", pair[i], keys[i].Describe(), err))
			return
		}
	}
	x.Outcome("dotted names round trip")
}

// c17Put: the write side of the artifact file through the database interface: an artifact holding any subset of
// certificate, key and request is put, and a fresh database opened on the same files returns the same objects.
func c17Put(x *engine.Ctx, c *c17Case) {
	certDER, keyDER, reqDER, err := c17Objects(c.KeyFix)
	if err != nil {
		x.Cap("cannot build file objects: " + err.Error())
		return
	}
	full, err := cert.ReadPem(append(append(refx509.EncodePem("CERTIFICATE", certDER), refx509.EncodePem("PRIVATE KEY", keyDER)...), refx509.EncodePem("CERTIFICATE REQUEST", reqDER)...))
	if err != nil {
		x.Violation("C17/put/read-error", err.Error())
		return
	}
	has := func(b string) bool { return strings.Contains(c.Blocks, b) }
	var art db.BuildArtifact
	if has("c") {
		art.Certificate = full.Certificate
	}
	if has("k") {
		art.PrivateKey = full.PrivateKey
	}
	if has("r") {
		art.Request = full.Request
	}
	w := simfs.New(simfs.TickPerWrite)
	w.Put("ent.yaml", []byte("version: 1\nsubject: CN=file test\n"))
	if c.Hash {
		// an older artifact is there already: what is put replaces it
		w.Put("ent.pem", FixtureKeyPEM("P-224-1"))
	}
	x.Nontrivial(fmt.Sprintf("put %q %v %s", c.Blocks, c.Hash, c.KeyFix))
	feat := fmt.Sprintf("blocks=%s over-existing=%v", sortBlocks(c.Blocks), c.Hash)
	fsdb := filesystem.NewFilesystemDatabase(w)
	if err := fsdb.Open(); err != nil {
		x.Violation("C17/put/open-error "+feat, err.Error())
		return
	}
	w.BeginRun(nil)
	if err := fsdb.PutBuildArtifact("ent", art); err != nil {
		x.Violation("C17/put/error "+feat, err.Error())
		return
	}
	fsdb.Close()
	again := filesystem.NewFilesystemDatabase(w)
	if err := again.Open(); err != nil {
		x.Violation("C17/put/reopen-error "+feat, err.Error())
		return
	}
	defer again.Close()
	a, err := again.GetBuildArtifact("ent")
	if err != nil {
		x.Violation("C17/put/no-artifact "+feat, fmt.Sprint(err))
		return
	}
	if a == nil {
		a = &db.BuildArtifact{}
	}
	wantReq := has("r") && !has("k") // the directory import keeps a request only for an entity without key (C14)
	if (a.Certificate != nil) != has("c") || (a.PrivateKey != nil) != has("k") || (a.Request != nil) != wantReq {
		x.Violation("C17/put/objects-present "+feat, fmt.Sprintf("put cert=%v key=%v req=%v; a database opened on the files afterwards has cert=%v key=%v req=%v", has("c"), has("k"), has("r"), a.Certificate != nil, a.PrivateKey != nil, a.Request != nil))
		return
	}
	if a.Certificate != nil {
		if b, err := asn1.Marshal(*a.Certificate); err != nil || !bytes.Equal(b, certDER) {
			x.Violation("C17/put/certificate-changed "+feat, fmt.Sprintf("re-marshalled certificate differs (err %v)", err))
		}
	}
	if a.Request != nil {
		if b, err := asn1.Marshal(*a.Request); err != nil || !bytes.Equal(b, reqDER) {
			x.Violation("C17/put/request-changed "+feat, fmt.Sprintf("re-marshalled request differs (err %v)", err))
		}
	}
	if a.PrivateKey != nil {
		var buf bytes.Buffer
		if err := cert.WritePrivateKeyToPem(a.PrivateKey, &buf); err != nil {
			x.Violation("C17/put/key-unwritable "+feat, err.Error())
		} else if k1, e1 := refx509.ParsePKCS8(refx509.SplitPem(buf.Bytes()).KeyDER); e1 != nil {
			x.Violation("C17/put/key-unreadable "+feat, e1.Error())
		} else if k0, _ := refx509.ParsePKCS8(keyDER); k0 == nil || k0.Ident() != k1.Ident() {
			x.Violation("C17/put/key-changed "+feat, "the key read back is another key")
		}
	}
	x.Outcome("put and read back")
}

func isNIST(name string) bool { return strings.HasPrefix(name, "P-") }

func c17EC(x *engine.Ctx, c *c17Case) {
	ci := refx509.CurveByName(c.Curve)
	d, _ := new(big.Int).SetString(c.Scalar, 16)
	key := &ecdsa.PrivateKey{D: d}
	key.Curve = ci.Curve
	key.X, key.Y = ci.Curve.ScalarBaseMult(d.Bytes())
	x.Nontrivial("ec " + c.Curve + " " + c.What)
	var buf bytes.Buffer
	if err := cert.WritePrivateKeyToPem(key, &buf); err != nil {
		x.Violation("C17/write-error/curve="+c.Curve, err.Error())
		return
	}
	feat := fmt.Sprintf("curve-family=%s scalar=%s", curveFamily(c.Curve), scalarClass(c.What))
	// gopki reads its own file
	pf, err := cert.ReadPem(buf.Bytes())
	if err != nil {
		x.Violation("C17/roundtrip/read-error "+feat, err.Error())
		return
	}
	back, ok := pf.PrivateKey.(*ecdsa.PrivateKey)
	if !ok || !ecEqual(key, back) {
		x.Violation("C17/roundtrip/key-changed "+feat, fmt.Sprintf("wrote d=%x on %s, read back %#v", d, c.Curve, pf.PrivateKey))
		return
	}
	// the reference decoder reads it as the same key
	sp := refx509.SplitPem(buf.Bytes())
	if len(sp.Blocks) != 1 || sp.Blocks[0].Type != "PRIVATE KEY" {
		x.Violation("C17/pem/blocks "+feat, fmt.Sprintf("%d blocks", len(sp.Blocks)))
		return
	}
	rk, err := refx509.ParsePKCS8(sp.KeyDER)
	if err != nil {
		x.Violation("C17/interop/reference-decoder-rejects "+feat, err.Error())
	} else if rk.EC == nil || rk.EC.D.Cmp(d) != 0 || rk.Curve.Name != c.Curve {
		x.Violation("C17/interop/reference-decoder-different-key "+feat, fmt.Sprintf("got %s d=%x", rk.Describe(), rk.EC.D))
	} else if rk.ScalarLen != (ci.Curve.Params().N.BitLen()+7)/8 {
		x.Violation("C17/encoding/scalar-not-fixed-width "+feat, fmt.Sprintf("privateKey OCTET STRING has %d octets", rk.ScalarLen))
	}
	if err := refder.Lint(sp.KeyDER); err != nil {
		x.Violation("C17/encoding/not-der "+feat, err.Error())
	}
	if isNIST(c.Curve) {
		sk, err := x509.ParsePKCS8PrivateKey(sp.KeyDER)
		if err != nil {
			x.Violation("C17/interop/stdlib-rejects-gopki-output "+feat, err.Error())
		} else if ek, ok := sk.(*ecdsa.PrivateKey); !ok || !ecEqual(key, ek) {
			x.Violation("C17/interop/stdlib-reads-different-key "+feat, fmt.Sprintf("%#v", sk))
		}
		std, err := x509.MarshalPKCS8PrivateKey(key)
		if err == nil {
			gk, err := cert.ParsePKCS8PrivateKey(std)
			if err != nil {
				x.Violation("C17/interop/gopki-rejects-stdlib-output "+feat, err.Error())
			} else if ek, ok := gk.(*ecdsa.PrivateKey); !ok || !ecEqual(key, ek) {
				x.Violation("C17/interop/gopki-reads-stdlib-output-differently "+feat, fmt.Sprintf("%#v", gk))
			}
		}
	}
	// standard layouts built by the reference encoder
	for _, enc := range []refx509.ECEncoding{{OuterOID: true}, {OuterOID: true, Public: true}, {OuterOID: true, InnerOID: true, Public: true}, {OuterOID: true, InnerOID: true},
		{InnerOID: true}, {InnerOID: true, Public: true}, {OuterOID: true, Public: true, Compressed: true}, {OuterOID: true, InnerOID: true, Public: true, Compressed: true}} {
		der := refx509.BuildECPKCS8(ci, d, enc)
		gk, err := cert.ParsePKCS8PrivateKey(der)
		lay := fmt.Sprintf("outer=%v inner=%v public=%v compressed=%v", enc.OuterOID, enc.InnerOID, enc.Public, enc.Compressed)
		if err != nil {
			x.Violation("C17/interop/gopki-rejects-standard-pkcs8 "+lay+" "+feat, err.Error())
		} else if ek, ok := gk.(*ecdsa.PrivateKey); !ok || !ecEqual(key, ek) {
			x.Violation("C17/interop/gopki-reads-standard-pkcs8-differently "+lay+" "+feat, fmt.Sprintf("%#v", gk))
		}
		x.Eval(1)
	}
	// tools that strip leading zero octets of the scalar (old OpenSSL): tolerated on input, must yield the same key
	min := d.Bytes()
	if len(min) < (ci.Curve.Params().N.BitLen()+7)/8 {
		for _, pub := range []bool{false, true} {
			der := refx509.BuildECPKCS8(ci, d, refx509.ECEncoding{OuterOID: true, Public: pub, ScalarLen: len(min)})
			gk, err := cert.ParsePKCS8PrivateKey(der)
			if err != nil {
				x.Outcome("minimal-length scalar refused (allowed)")
			} else if ek, ok := gk.(*ecdsa.PrivateKey); !ok || !ecEqual(key, ek) {
				x.Violation("C17/interop/minimal-length-scalar-read-as-different-key "+feat, fmt.Sprintf("scalar %x encoded in %d octets (public=%v): read back as %#v", d, len(min), pub, gk))
			}
			x.Eval(1)
		}
	}
	// tools that pad the scalar with extra zero octets in front: refused or read as the same key
	full := (ci.Curve.Params().N.BitLen() + 7) / 8
	for _, extra := range []int{1, 2, 3, 8} {
		der := refx509.BuildECPKCS8(ci, d, refx509.ECEncoding{OuterOID: true, Public: extra%2 == 0, ScalarLen: full + extra})
		gk, err := cert.ParsePKCS8PrivateKey(der)
		if err != nil {
			x.Outcome("zero-padded scalar refused (allowed)")
		} else if ek, ok := gk.(*ecdsa.PrivateKey); !ok || !ecEqual(key, ek) {
			x.Violation("C17/interop/zero-padded-scalar-read-as-different-key "+feat, fmt.Sprintf("scalar %x encoded in %d octets: read back as %#v", d, full+extra, gk))
		}
		x.Eval(1)
	}
	x.Outcome("ec ok " + c.Curve)
}

func curveFamily(n string) string {
	if isNIST(n) {
		return "nist"
	}
	return "brainpool"
}

func scalarClass(what string) string {
	switch {
	case strings.Contains(what, "leading zero"):
		return "leading-zero-bytes"
	case strings.HasPrefix(what, "mid"):
		return "mid"
	}
	return what
}

func c17RSA(x *engine.Ctx, c *c17Case) {
	der := FixtureKeyDER(c.RSA)
	sk, err := x509.ParsePKCS8PrivateKey(der)
	if err != nil {
		x.Cap("fixture unreadable: " + err.Error())
		return
	}
	key := sk.(*rsa.PrivateKey)
	x.Nontrivial("rsa " + c.RSA)
	bits := key.N.BitLen()
	gk, err := cert.ParsePKCS8PrivateKey(der)
	if err != nil {
		x.Violation(fmt.Sprintf("C17/interop/gopki-rejects-stdlib-output rsa-%d", bits), err.Error())
	} else if rk, ok := gk.(*rsa.PrivateKey); !ok || !rsaEqual(key, rk) {
		x.Violation(fmt.Sprintf("C17/interop/gopki-reads-stdlib-output-differently rsa-%d", bits), "")
	}
	// own minimal encoding
	if gk2, err := cert.ParsePKCS8PrivateKey(refx509.BuildRSAPKCS8(key)); err != nil {
		x.Violation(fmt.Sprintf("C17/interop/gopki-rejects-standard-pkcs8 rsa-%d", bits), err.Error())
	} else if rk, ok := gk2.(*rsa.PrivateKey); !ok || !rsaEqual(key, rk) {
		x.Violation(fmt.Sprintf("C17/interop/gopki-reads-standard-pkcs8-differently rsa-%d", bits), "")
	}
	var buf bytes.Buffer
	if err := cert.WritePrivateKeyToPem(key, &buf); err != nil {
		x.Violation("C17/write-error/rsa", err.Error())
		return
	}
	pf, err := cert.ReadPem(buf.Bytes())
	if err != nil {
		x.Violation(fmt.Sprintf("C17/roundtrip/read-error rsa-%d", bits), err.Error())
		return
	}
	if rk, ok := pf.PrivateKey.(*rsa.PrivateKey); !ok || !rsaEqual(key, rk) {
		x.Violation(fmt.Sprintf("C17/roundtrip/key-changed rsa-%d", bits), "")
	}
	sp := refx509.SplitPem(buf.Bytes())
	if k2, err := x509.ParsePKCS8PrivateKey(sp.KeyDER); err != nil {
		x.Violation(fmt.Sprintf("C17/interop/stdlib-rejects-gopki-output rsa-%d", bits), err.Error())
	} else if rk, ok := k2.(*rsa.PrivateKey); !ok || !rsaEqual(key, rk) {
		x.Violation(fmt.Sprintf("C17/interop/stdlib-reads-different-key rsa-%d", bits), "")
	}
	if rk, err := refx509.ParsePKCS8(sp.KeyDER); err != nil || rk.RSA == nil || rk.RSA.D.Cmp(key.D) != 0 {
		x.Violation(fmt.Sprintf("C17/interop/reference-decoder rsa-%d", bits), fmt.Sprint(err))
	}
	if err := refder.Lint(sp.KeyDER); err != nil {
		x.Violation("C17/encoding/not-der rsa", err.Error())
	}
	x.Outcome("rsa ok")
}

// c17Objects builds a certificate and a request with the standard library for
// the file-level round trip.
func c17Objects(keyFix string) (certDER, keyDER, reqDER []byte, err error) {
	keyDER = FixtureKeyDER(keyFix)
	// signing key: a NIST/RSA key the standard library can use
	signer, err := x509.ParsePKCS8PrivateKey(FixtureKeyDER("P-256-1"))
	if err != nil {
		return
	}
	tmpl := &x509.Certificate{SerialNumber: big.NewInt(77), Subject: pkix.Name{CommonName: "file test"},
		NotBefore: fixedTime(2020), NotAfter: fixedTime(2030)}
	certDER, err = x509.CreateCertificate(rand.Reader, tmpl, tmpl, signer.(*ecdsa.PrivateKey).Public(), signer)
	if err != nil {
		return
	}
	reqDER, err = x509.CreateCertificateRequest(rand.Reader, &x509.CertificateRequest{Subject: pkix.Name{CommonName: "req"}}, signer)
	return
}

func c17File(x *engine.Ctx, c *c17Case) {
	certDER, keyDER, reqDER, err := c17Objects(c.KeyFix)
	if err != nil {
		x.Cap("cannot build file objects: " + err.Error())
		return
	}
	var file []byte
	hashLine := []byte("#HASH:2jmj7l5rSw0yVb/vlWAYkK/YBwk=\n")
	if c.Hash && (c.Layout == "" || c.Layout == "first" || c.Layout == "trailing-blank-line") {
		file = append(file, hashLine...)
	}
	for i, b := range c.Blocks {
		if i == 1 && c.Hash && c.Layout == "hash-after-first-block" {
			file = append(file, hashLine...)
		}
		switch b {
		case 'c':
			file = append(file, refx509.EncodePem("CERTIFICATE", certDER)...)
		case 'k':
			file = append(file, refx509.EncodePem("PRIVATE KEY", keyDER)...)
		case 'K':
			ci := refx509.CurveByName("P-256")
			bad := refx509.BuildECPKCS8(ci, ci.Curve.Params().N, refx509.ECEncoding{OuterOID: true})
			file = append(file, refx509.EncodePem("PRIVATE KEY", bad)...)
		case 'r':
			file = append(file, refx509.EncodePem("CERTIFICATE REQUEST", reqDER)...)
		}
	}
	if c.Hash && c.Layout == "hash-last" {
		file = append(file, hashLine...)
	}
	if c.Layout == "trailing-blank-line" {
		file = append(file, '\n')
	}
	x.Nontrivial(fmt.Sprintf("file %q %v %s %s", c.Blocks, c.Hash, c.KeyFix, c.Layout))
	feat := fmt.Sprintf("blocks=%s hash=%v", sortBlocks(c.Blocks), c.Hash)
	if c.Layout != "" {
		feat += " layout=" + c.Layout
	}
	if strings.Contains(c.Blocks, "K") {
		// a block that claims to be a private key and is not one: the file is reported, wherever the block stands
		pf, err := cert.ReadPem(file)
		if err == nil {
			x.Violation("C17/file/damaged-key-block-not-reported order="+c.Blocks, fmt.Sprintf("hash line %v: ReadPem returned no error (key object %T): a file whose PRIVATE KEY block is invalid reads like one without key", c.Hash, pf.PrivateKey))
		} else if pf.PrivateKey != nil {
			x.Violation("C17/file/error-but-key-object-returned order="+c.Blocks, fmt.Sprintf("%v and PrivateKey = %T", err, pf.PrivateKey))
		}
		x.Outcome("file with damaged key block")
		return
	}
	var pf cert.PemFileContent
	if c.Layout != "" {
		// through the directory import, as a run reads an entity's artifact
		w := simfs.New(simfs.TickPerWrite)
		w.Put("ent.yaml", []byte("version: 1\nsubject: CN=file test\n"))
		w.Put("ent.pem", file)
		fsdb := filesystem.NewFilesystemDatabase(w)
		if err := fsdb.Open(); err != nil {
			x.Violation("C17/file/open-error "+feat, err.Error())
			return
		}
		defer fsdb.Close()
		a, err := fsdb.GetBuildArtifact("ent")
		if err != nil || a == nil {
			x.Violation("C17/file/no-artifact "+feat, fmt.Sprint(err))
			return
		}
		meta, _ := fsdb.GetMetadata("ent")
		if c.Hash && (meta == nil || fmt.Sprintf("%x", meta.LastConfigHash) != "da39a3ee5e6b4b0d3255bfef95601890afd80709") {
			x.Violation("C17/file/hash-line-not-read "+feat, fmt.Sprintf("metadata %+v", meta))
		}
		pf.Certificate, pf.PrivateKey, pf.Request = a.Certificate, a.PrivateKey, a.Request
		if pf.PrivateKey != nil && pf.Request == nil && strings.Contains(c.Blocks, "r") {
			// the directory import keeps a request only for an entity without key (C14)
			c = &c17Case{Kind: c.Kind, Blocks: strings.ReplaceAll(c.Blocks, "r", ""), Hash: c.Hash, KeyFix: c.KeyFix, Layout: c.Layout}
		}
	} else {
		pf, err = cert.ReadPem(file)
	}
	if err != nil && c.Blocks == "" {
		// a file holding nothing but the hash line: the statement speaks of the objects
		// read back (none here); whether the leftover text is reported is not demanded
		x.Outcome("file without blocks: " + err.Error())
		err = nil
	}
	if err != nil {
		x.Violation("C17/file/read-error "+feat, err.Error())
		return
	}
	has := func(b string) bool { return strings.Contains(c.Blocks, b) }
	if (pf.Certificate != nil) != has("c") || (pf.PrivateKey != nil) != has("k") || (pf.Request != nil) != has("r") {
		x.Violation("C17/file/objects-present "+feat, fmt.Sprintf("order %q: cert=%v key=%v req=%v", c.Blocks, pf.Certificate != nil, pf.PrivateKey != nil, pf.Request != nil))
		return
	}
	if pf.Certificate != nil {
		b, err := asn1.Marshal(*pf.Certificate)
		if err != nil || !bytes.Equal(b, certDER) {
			x.Violation("C17/file/certificate-changed "+feat, fmt.Sprintf("re-marshalled certificate differs (err %v)", err))
		}
	}
	if pf.Request != nil {
		b, err := asn1.Marshal(*pf.Request)
		if err != nil || !bytes.Equal(b, reqDER) {
			x.Violation("C17/file/request-changed "+feat, fmt.Sprintf("re-marshalled request differs (err %v)\n got %x\nwant %x", err, b, reqDER))
		}
	}
	if pf.PrivateKey != nil {
		want, _ := refx509.ParsePKCS8(keyDER)
		switch k := pf.PrivateKey.(type) {
		case *rsa.PrivateKey:
			if want.RSA == nil || k.D.Cmp(want.RSA.D) != 0 || k.N.Cmp(want.RSA.N) != 0 {
				x.Violation("C17/file/key-changed "+feat, "rsa")
			}
		case *ecdsa.PrivateKey:
			if want.EC == nil || k.D.Cmp(want.EC.D) != 0 || k.Curve.Params().N.Cmp(want.Curve.Curve.Params().N) != 0 {
				x.Violation("C17/file/key-changed "+feat, "ec")
			}
		default:
			x.Violation("C17/file/key-type "+feat, fmt.Sprintf("%T", pf.PrivateKey))
		}
	}
	x.Outcome("file ok " + sortBlocks(c.Blocks))
}

func sortBlocks(s string) string {
	out := ""
	for _, b := range "ckr" {
		if strings.ContainsRune(s, b) {
			out += string(b)
		}
	}
	if out == "" {
		return "none"
	}
	return out
}

func c17Reject(x *engine.Ctx, c *c17Case) {
	var der []byte
	pemLevel := false
	switch c.Reject {
	case "prefix":
		var full []byte
		if c.RSA != "" {
			full = FixtureKeyDER(c.RSA)
		} else {
			full = refx509.BuildECPKCS8(refx509.CurveByName(c.Curve), big.NewInt(12345), refx509.ECEncoding{OuterOID: true, Public: true})
		}
		der = full[:c.Prefix]
	case "unknown-algorithm-oid":
		der = refder.Seq(refder.EncInt64(0), refder.Seq(refder.MustOID("1.2.3.4.5")), refder.EncOctets([]byte{0x30, 0}))
	case "ec-body-in-rsa-wrapper":
		ci := refx509.CurveByName("P-256")
		inner := refder.Seq(refder.EncInt64(1), refder.EncOctets(big.NewInt(5).FillBytes(make([]byte, 32))), refder.Explicit(0, refder.MustOID(ci.OID)))
		der = refder.Seq(refder.EncInt64(0), refder.Seq(refder.MustOID(refx509.OIDRSAEncryption), refder.EncNull()), refder.EncOctets(inner))
	case "pem-around-garbage":
		pemLevel = true
		der = []byte("this is not DER at all")
	case "pem-around-empty":
		pemLevel = true
		der = []byte{}
	case "sec1-in-EC-PRIVATE-KEY-block", "pkcs1-in-RSA-PRIVATE-KEY-block", "pkcs8-shell-in-ENCRYPTED-PRIVATE-KEY-block":
		c17OtherContainer(x, c)
		return
	default:
		ci := refx509.CurveByName(c.Curve)
		n := ci.Curve.Params().N
		l := (n.BitLen() + 7) / 8
		mk := func(d *big.Int, ver int64, oid []byte) []byte {
			sc := d.FillBytes(make([]byte, l))
			alg := [][]byte{refder.MustOID(refx509.OIDECPublicKey)}
			if oid != nil {
				alg = append(alg, oid)
			}
			return refder.Seq(refder.EncInt64(0), refder.Seq(alg...), refder.EncOctets(refder.Seq(refder.EncInt64(ver), refder.EncOctets(sc))))
		}
		curveOID := refder.MustOID(ci.OID)
		switch c.Reject {
		case "scalar=0":
			der = mk(big.NewInt(0), 1, curveOID)
		case "scalar=n":
			der = mk(n, 1, curveOID)
		case "scalar=n+1":
			der = mk(new(big.Int).Add(n, big.NewInt(1)), 1, curveOID)
		case "scalar=2^(8len)-1":
			der = mk(new(big.Int).Sub(new(big.Int).Lsh(big.NewInt(1), uint(8*l)), big.NewInt(1)), 1, curveOID)
		case "unknown-curve-oid":
			der = mk(big.NewInt(5), 1, refder.MustOID("1.3.132.0.10")) // secp256k1: not one of the ten
		case "missing-curve":
			der = mk(big.NewInt(5), 1, nil)
		case "ecprivatekey-version-2":
			der = mk(big.NewInt(5), 2, curveOID)
		case "ecprivatekey-version-0":
			der = mk(big.NewInt(5), 0, curveOID)
		case "rsa-body-in-ec-wrapper":
			rk, _ := refx509.ParsePKCS8(FixtureKeyDER("RSA-1024-0"))
			body := refder.Seq(refder.EncInt64(0), refder.EncInt(rk.RSA.N), refder.EncInt64(int64(rk.RSA.E)), refder.EncInt(rk.RSA.D),
				refder.EncInt(rk.RSA.Primes[0]), refder.EncInt(rk.RSA.Primes[1]), refder.EncInt64(1), refder.EncInt64(1), refder.EncInt64(1))
			der = refder.Seq(refder.EncInt64(0), refder.Seq(refder.MustOID(refx509.OIDECPublicKey), curveOID), refder.EncOctets(body))
		}
	}
	x.Nontrivial(fmt.Sprintf("reject %s %s %s %d", c.Reject, c.Curve, c.RSA, c.Prefix))
	what := c.Reject
	if c.Reject == "prefix" {
		if c.RSA != "" {
			what = "strict-prefix-of-valid-rsa-key"
		} else {
			what = "strict-prefix-of-valid-ec-key"
		}
	}
	var key any
	var err error
	leaked := ""
	func() {
		defer func() {
			if r := recover(); r != nil {
				err = nil
				key = fmt.Sprintf("PANIC %v", r)
			}
		}()
		if !pemLevel {
			key, err = cert.ParsePKCS8PrivateKey(der)
			if err != nil && key != nil {
				leaked = fmt.Sprintf("ParsePKCS8PrivateKey returned an error AND a key object %T", key)
			}
		}
		// also through the PEM reader: an error there must not come with a key object either
		pf, perr := cert.ReadPem(refx509.EncodePem("PRIVATE KEY", der))
		if perr != nil && pf.PrivateKey != nil {
			leaked = fmt.Sprintf("ReadPem returned an error AND PrivateKey = %T", pf.PrivateKey)
		}
		if err == nil {
			err = perr
			if err == nil {
				key = pf.PrivateKey
			}
		}
	}()
	if leaked != "" {
		x.Violation("C17/reject/error-but-key-object-returned "+what, fmt.Sprintf("invalid key input (%s, %s%s prefix=%d): %s - callers that keep partial results take it for a key", c.Reject, c.Curve, c.RSA, c.Prefix, leaked))
	}
	if err == nil {
		x.Violation("C17/reject/accepted "+what, fmt.Sprintf("invalid key input (%s, %s%s prefix=%d, %d bytes %s) was not rejected: returned %T", c.Reject, c.Curve, c.RSA, c.Prefix, len(der), hexShort(der), key))
		return
	}
	x.Outcome("rejected " + what)
}

// c17OtherContainer: a private key block that is not unencrypted PKCS#8. gopki may refuse it with an
// error or read the key; it must not return "no key, no error", which callers take for an entity without key.
func c17OtherContainer(x *engine.Ctx, c *c17Case) {
	var label string
	var der []byte
	switch c.Reject {
	case "sec1-in-EC-PRIVATE-KEY-block":
		k, err := x509.ParsePKCS8PrivateKey(FixtureKeyDER("P-256-0"))
		if err != nil {
			x.Cap("fixture: " + err.Error())
			return
		}
		der, _ = x509.MarshalECPrivateKey(k.(*ecdsa.PrivateKey))
		label = "EC PRIVATE KEY"
	case "pkcs1-in-RSA-PRIVATE-KEY-block":
		k, err := x509.ParsePKCS8PrivateKey(FixtureKeyDER("RSA-1024-0"))
		if err != nil {
			x.Cap("fixture: " + err.Error())
			return
		}
		der = x509.MarshalPKCS1PrivateKey(k.(*rsa.PrivateKey))
		label = "RSA PRIVATE KEY"
	default:
		// EncryptedPrivateKeyInfo ::= SEQUENCE { AlgorithmIdentifier (PBES2), OCTET STRING }
		der = refder.Seq(refder.Seq(refder.MustOID("1.2.840.113549.1.5.13"), refder.Seq()), refder.EncOctets(bytes.Repeat([]byte{0x5c}, 64)))
		label = "ENCRYPTED PRIVATE KEY"
	}
	x.Nontrivial("reject " + c.Reject)
	pf, err := cert.ReadPem(refx509.EncodePem(label, der))
	switch {
	case err != nil && pf.PrivateKey != nil:
		x.Violation("C17/reject/error-but-key-object-returned "+c.Reject, fmt.Sprintf("ReadPem returned an error AND PrivateKey = %T", pf.PrivateKey))
	case err != nil:
		x.Outcome("rejected " + c.Reject)
	case pf.PrivateKey == nil:
		x.Violation("C17/reject/silently-ignored "+c.Reject, fmt.Sprintf("a %q block was neither read nor refused: ReadPem returned no key and no error, so the entity looks as if it had no key", label))
	default:
		x.Outcome("read " + c.Reject)
	}
}

// c17NativeRewrite writes key A (with a certificate and a request in front, so the file is long) and then
// key B alone to the same name through gopki's native filesystem, and reads the file back.
func c17NativeRewrite(x *engine.Ctx, c *c17Case) {
	dir, err := os.MkdirTemp("", "vnative")
	if err != nil {
		x.Cap("no temporary directory: " + err.Error())
		return
	}
	defer os.RemoveAll(dir)
	certDER, _, reqDER, err := c17Objects(c.KeyFix)
	if err != nil {
		x.Cap("cannot build file objects: " + err.Error())
		return
	}
	first := append(append(append([]byte("#HASH:2jmj7l5rSw0yVb/vlWAYkK/YBwk=\n"), refx509.EncodePem("CERTIFICATE", certDER)...), FixtureKeyPEM(c.KeyFix)...), refx509.EncodePem("CERTIFICATE REQUEST", reqDER)...)
	second := FixtureKeyPEM(c.RSA)
	nfs := filesystem.NewNativeFs(dir)
	x.Nontrivial("native-rewrite " + c.KeyFix + " " + c.RSA)
	for i, content := range [][]byte{first, second, first, second} {
		if err := nfs.WriteFile("ent.pem", content); err != nil {
			x.Violation("C17/native/write-error", err.Error())
			return
		}
		got, err := os.ReadFile(filepath.Join(dir, "ent.pem"))
		if err != nil {
			x.Violation("C17/native/read-error", err.Error())
			return
		}
		if !bytes.Equal(got, content) {
			x.Violation("C17/native/file-is-not-what-was-written", fmt.Sprintf("write %d of %s/%s: wrote %d bytes, the file holds %d bytes (an overwritten file keeps nothing of its former content)", i, c.KeyFix, c.RSA, len(content), len(got)))
			return
		}
		pf, err := cert.ReadPem(got)
		wantFix := c.KeyFix
		if i%2 == 1 {
			wantFix = c.RSA
		}
		want, _ := refx509.ParsePKCS8(FixtureKeyDER(wantFix))
		if err != nil || pf.PrivateKey == nil {
			x.Violation("C17/native/key-not-read-back", fmt.Sprintf("write %d: %v", i, err))
			return
		}
		switch k := pf.PrivateKey.(type) {
		case *rsa.PrivateKey:
			if want.RSA == nil || k.D.Cmp(want.RSA.D) != 0 {
				x.Violation("C17/native/other-key-read-back", fmt.Sprintf("write %d: wrote %s", i, wantFix))
			}
		case *ecdsa.PrivateKey:
			if want.EC == nil || k.D.Cmp(want.EC.D) != 0 {
				x.Violation("C17/native/other-key-read-back", fmt.Sprintf("write %d: wrote %s", i, wantFix))
			}
		}
	}
	x.Outcome("native rewrite ok")
}

func hexShort(b []byte) string {
	if len(b) > 40 {
		return fmt.Sprintf("%x...", b[:40])
	}
	return fmt.Sprintf("%x", b)
}

func init() {
	register(&engine.Check{
		ID:          "C17",
		Level:       "exploration",
		Rule:        "10 curves x boundary scalars (1,2,3,n-1,n-2,n/2, the largest and smallest value of every octet length 1..len-1, i.e. every number of leading zero octets, 8 mid-range; 70..150 per curve) through cert.WritePrivateKeyToPem -> cert.ReadPem, the reference PKCS#8 decoder, crypto/x509 in both directions (NIST) , 8 reference-built PKCS#8 layouts (curve OID outer / inner / both, with and without embedded public key, compressed public point) and the minimal-length (leading zeros stripped) and zero-padded (1, 2, 3, 8 extra octets) encodings; 10 RSA fixture keys 1024..4096; artifact files for all 16 block orders over {cert,key,request} x hash line x 4 key types through cert.ReadPem, and the 15 non-empty orders as an entity's artifact read by opening the directory with the hash line first / after the first block / last and with a blank line at the end, the same with RSA-4096 and RSA-8192 keys (files of 4 to 8 KB), and 11 orders with a damaged key block among valid blocks (must be reported); 6 pairs of artifact contents written over one another (long, short, long, short) through gopki's native filesystem and read back; rejection inputs: scalar 0, n, n+1, 2^(8len)-1, unknown/missing curve, ECPrivateKey version 0/2, swapped RSA/EC bodies, unknown algorithm, every strict prefix of a valid EC key per curve and of an RSA key, PEM around non-DER, and SEC1 / PKCS#1 / encrypted key blocks (an error or the key, never silently nothing). non-trivial = distinct case that reached a comparison; the write side through the database interface: every non-empty subset of {certificate, key, request} put for 3 key types, into an empty place and over an older file, and read back by a database opened afresh on the same files; two keys of different kinds put through the database for two entities whose file names contain several dots and share their first part (6 name pairs x both assignments): each key stands in the file next to its own configuration and is read back as itself by a database opened afresh",
		Bound:       map[string]string{"scalars": "boundary values only (any valid scalar is unbounded)", "rsa": "fixture keys 1024,1536,2048,3072,4096 (two each)"},
		Assumptions: []string{"outer PKCS#8 version and trailing bytes after a complete DER value are not in the rejection alphabet (neither gopki nor the standard library rejects them)", "crypto/x509 is the 'standard library parser' of the statement"},
		Budget:      budgets(quickBudget, thoroughBudget),
		Enumerate:   c17Enumerate,
		NewCase:     func() any { return &c17Case{} },
		Exec:        c17Exec,
	})
}
