package checks

import (
	"fmt"
	"github.com/wokdav/gopki/generator/db"
	"sort"
	"strings"

	"verif/mc/drive"
	"verif/mc/engine"
	"verif/mc/refcfg"
	"verif/mc/simfs"
)

// C18 — broken hierarchies are refused up front; non-config files are left alone.

type c18Case struct {
	N       int   `json:"n"`
	Issuer  []int `json:"issuer"`         // -1 none, 0..n-1 entity, n = undefined alias
	AMode   []int `json:"amode"`          // 0 file-derived, 1 explicit unique, 2 explicit = next entity's alias, 3 explicit = next entity's file stem
	Layout  int   `json:"layout"`         // 0 flat, 1 own sub-directory, 2 two levels, 3 same base name in different directories, 5 dotted names, 6/7 same base name at growing depth, 4 entities 0 and 1 share directory and stem but differ in suffix
	Suffix  int   `json:"suffix"`         // index into c18Suffixes (rotated per entity)
	CLI     bool  `json:"cli"`            // additionally replay on the binary
	Foreign bool  `json:"foreign"`        // place the foreign files
	Big     bool  `json:"big,omitempty"`  // entity 0's configuration file starts with an 80 KiB comment block
	Link    bool  `json:"link,omitempty"` // command line only: entity 0's configuration file is a symbolic link to a file kept elsewhere
	Art     int   `json:"art,omitempty"`  // entity 0 already has an artifact file in an odd state (c18Arts), which must not change the verdict
}

var c18Suffixes = []string{".yaml", ".yml", ".json", ".YAML", ".Yml", ".JSON", ".yAmL"}

func c18Path(c *c18Case, i int) string {
	suf := c18Suffixes[(c.Suffix+i)%len(c18Suffixes)]
	if c.Suffix == 0 {
		suf = ".yaml"
	}
	switch c.Layout {
	case 1:
		return fmt.Sprintf("d%d/e%d%s", i, i, suf)
	case 2:
		return fmt.Sprintf("a/b%d/e%d%s", i, i, suf)
	case 3:
		return fmt.Sprintf("d%d/node%s", i, suf)
	case 5:
		// dots in directory and file names: alias and artifact path are cut at the LAST dot
		return fmt.Sprintf("conf.d/v1.2/e%d.prod.v2%s", i, suf)
	case 6:
		// the same file name at growing depth, each path the tail of the next, the shallow one visited first
		return []string{"node", "x/node", "y/x/node", "z/y/x/node", "zz/z/y/x/node", "zzz/zz/z/y/x/node"}[i] + suf
	case 7:
		// the same file name at growing depth, the deep ones visited first
		return []string{"node", "a/node", "a/b/node", "a/b/c/node", "a/b/c/d/node", "a/b/c/d/e/node"}[i] + suf
	case 4:
		if i <= 1 {
			// same directory, same stem, different suffix
			pair := [][2]string{{".yaml", ".yml"}, {".yml", ".json"}, {".json", ".YAML"}, {".yaml", ".YAML"}, {".Yml", ".yml"}, {".JSON", ".yaml"}}[c.Suffix%6]
			return "shared/twin" + pair[i]
		}
		return fmt.Sprintf("e%d%s", i, suf)
	}
	return fmt.Sprintf("e%d%s", i, suf)
}

var c18Foreign = map[string]string{
	"README.md":              "# my pki\nversion: 1\nsubject: CN=not a config\n",
	"cfg.txt":                "version: 1\nsubject: CN=Text File\n",
	"broken.yaml":            "version: 1\nsubject: [unclosed\n  - {\n",
	"nover.yml":              "subject: CN=No Version\nissuer: nobody\n",
	"list.json":              "[1,2,3]",
	"v2.yaml":                "version: 2\nsubject: CN=Future\n",
	"orphan.pem":             "-----BEGIN CERTIFICATE-----\nAAAA\n-----END CERTIFICATE-----\n",
	"sub/notes.md":           "nothing\n",
	"dir.yaml/inner.txt":     "a directory whose name ends in .yaml\n",
	"profiles.d/unused.yaml": "version: 1\nname: unused-profile\nvalidity:\n  duration: 1y\n",
	// configuration text under names that merely contain a configuration suffix
	"backup.yaml.bak":     "version: 1\nsubject: CN=Backup Copy\n",
	"old.yml.orig":        "version: 1\nsubject: CN=Orig Copy\n",
	"notes.json.txt":      "{\"version\": 1, \"subject\": \"CN=Json Notes\"}",
	"editor.yaml~":        "version: 1\nsubject: CN=Editor Backup\n",
	"sub/.hidden.yml.swp": "version: 1\nsubject: CN=Swap File\n",
	"almost.yamlx":        "version: 1\nsubject: CN=Almost\n",
	"yaml":                "version: 1\nsubject: CN=No Dot\n",
	// hidden files and directories next to configurations (they sort in front of them)
	".gitignore":        "*.pem\n",
	".DS_Store":         "\x00\x00\x00\x01Bud1",
	".git/config":       "[core]\n\tbare = false\n",
	"d0/.gitkeep":       "",
	"d1/.editorconfig":  "root = true\n",
	"a/.hidden":         "x\n",
	"a/b0/.gitkeep":     "",
	"conf.d/v1.2/.keep": "",
	"conf.d/.directory": "[Desktop Entry]\n",
	"shared/.gitignore": "*.pem\n",
	"x/.keep":           "",
	"y/x/.keep":         "",
}

// odd states of an existing artifact file; none of them makes a hierarchy invalid
var c18Arts = []string{"none", "hash line that is not base64 + key", "hash line of the wrong length + key", "empty file", "hash line without line end", "text only"}

func c18Art(state int) []byte {
	key := FixtureKeyPEM("P-224-0")
	switch state {
	case 1:
		return append([]byte("#HASH:%%%not-base64%%%\n"), key...)
	case 2:
		return append([]byte("#HASH:AAAA\n"), key...)
	case 3:
		return []byte{}
	case 4:
		return []byte("#HASH:2jmj7l5rSw0yVb/vlWAYkK/YBwk=")
	case 5:
		return []byte("this is not a pem file\n")
	}
	return nil
}

// c18Build constructs the configs and the model's verdict.
func c18Build(c *c18Case) (d *Dir, aliases []string, valid bool, why string) {
	d = &Dir{}
	stems := make([]string, c.N)
	explicit := make([]string, c.N)
	for i := 0; i < c.N; i++ {
		stems[i] = Stem(c18Path(c, i))
	}
	// resolve aliases (mode 2 refers to the next entity's resolved alias; resolve iteratively)
	aliases = make([]string, c.N)
	for i := 0; i < c.N; i++ {
		switch c.AMode[i] {
		case 1:
			explicit[i] = fmt.Sprintf("x%d", i)
		case 3:
			explicit[i] = stems[(i+1)%c.N]
		}
	}
	for round := 0; round < c.N+1; round++ {
		for i := 0; i < c.N; i++ {
			if c.AMode[i] == 2 {
				j := (i + 1) % c.N
				if explicit[j] != "" {
					explicit[i] = explicit[j]
				} else if c.AMode[j] != 2 {
					explicit[i] = stems[j]
				}
			}
		}
	}
	for i := 0; i < c.N; i++ {
		if c.AMode[i] == 2 && explicit[i] == "" {
			explicit[i] = "ring" // all-mode-2 ring: everyone shares one alias
		}
		if explicit[i] != "" {
			aliases[i] = explicit[i]
		} else {
			aliases[i] = stems[i]
		}
	}
	for i := 0; i < c.N; i++ {
		// every entity pins the same serialNumber: a serial is no alias and no reason for a collision
		cfg := &refcfg.CertCfg{Path: c18Path(c, i), Alias: explicit[i], Subject: fmt.Sprintf("CN=E%d", i), KeyAlg: "P-224", Serial: refcfg.I64(7)}
		switch {
		case c.Issuer[i] == c.N:
			cfg.Issuer = "nobody"
		case c.Issuer[i] >= 0:
			cfg.Issuer = aliases[c.Issuer[i]]
		}
		d.Certs = append(d.Certs, cfg)
	}
	// model verdict
	seen := map[string]int{}
	for i, a := range aliases {
		if j, dup := seen[a]; dup {
			return d, aliases, false, fmt.Sprintf("alias %q of entity %d and %d collide", a, j, i)
		}
		seen[a] = i
	}
	for i := 0; i < c.N; i++ {
		if c.Issuer[i] == c.N {
			return d, aliases, false, fmt.Sprintf("entity %d names an undefined issuer", i)
		}
	}
	for i := 0; i < c.N; i++ {
		j, steps := i, 0
		for j >= 0 && steps <= c.N {
			j = c.Issuer[j]
			steps++
		}
		if j >= 0 {
			return d, aliases, false, fmt.Sprintf("entity %d lies on or below an issuer cycle", i)
		}
	}
	return d, aliases, true, ""
}

func c18Enumerate(tier string, yield func(any)) {
	maxN := 4
	if tier == "thorough" {
		maxN = 6
	}
	// (a) all issuer functions
	for n := 0; n <= maxN; n++ {
		iss := make([]int, n)
		for i := range iss {
			iss[i] = -1
		}
		count := 0
		for {
			c := &c18Case{N: n, Issuer: append([]int{}, iss...), AMode: make([]int, n), Foreign: true}
			c.CLI = n <= 3 || count%97 == 0
			yield(c)
			count++
			// increment
			k := 0
			for k < n {
				iss[k]++
				if iss[k] <= n {
					break
				}
				iss[k] = -1
				k++
			}
			if k == n {
				break
			}
		}
	}
	// (b) alias assignments x layouts for n <= 3 over all issuer functions
	for n := 1; n <= 3; n++ {
		iss := make([]int, n)
		for i := range iss {
			iss[i] = -1
		}
		for {
			am := make([]int, n)
			for {
				for _, layout := range []int{0, 1, 2, 3, 5, 6, 7} {
					allZero := true
					for _, m := range am {
						if m != 0 {
							allZero = false
						}
					}
					if allZero && layout == 0 {
						continue // covered by (a)
					}
					yield(&c18Case{N: n, Issuer: append([]int{}, iss...), AMode: append([]int{}, am...), Layout: layout, Foreign: layout%2 == 0})
				}
				k := 0
				for k < n {
					am[k]++
					if am[k] <= 3 {
						break
					}
					am[k] = 0
					k++
				}
				if k == n {
					break
				}
			}
			k := 0
			for k < n {
				iss[k]++
				if iss[k] <= n {
					break
				}
				iss[k] = -1
				k++
			}
			if k == n {
				break
			}
		}
	}
	// (b2) two config files with the same directory and stem but different suffixes: their
	// file-derived (or equal explicit) aliases collide; distinct explicit aliases would share
	// one artifact path and are outside the statement
	for n := 2; n <= 3; n++ {
		iss := make([]int, n)
		for i := range iss {
			iss[i] = -1
		}
		for {
			for suf := 0; suf < 6; suf++ {
				for _, am := range [][]int{{0, 0, 0}, {2, 0, 0}, {0, 0, 1}} {
					yield(&c18Case{N: n, Issuer: append([]int{}, iss...), AMode: append([]int{}, am[:n]...), Layout: 4, Suffix: suf, Foreign: suf%2 == 0, CLI: suf == 0 && am[0] == 0})
				}
			}
			k := 0
			for k < n {
				iss[k]++
				if iss[k] <= n {
					break
				}
				iss[k] = -1
				k++
			}
			if k == n {
				break
			}
		}
	}
	// (c) suffix / letter-case variants on all issuer functions for n <= 3, all layouts
	for n := 1; n <= 3; n++ {
		iss := make([]int, n)
		for i := range iss {
			iss[i] = -1
		}
		for {
			for suf := 1; suf < len(c18Suffixes); suf++ {
				for _, layout := range []int{0, 1, 2, 5} {
					yield(&c18Case{N: n, Issuer: append([]int{}, iss...), AMode: make([]int, n), Layout: layout, Suffix: suf, Foreign: true, CLI: suf == 1 && layout == 1})
					if suf == 1 && layout < 3 {
						yield(&c18Case{N: n, Issuer: append([]int{}, iss...), AMode: make([]int, n), Layout: layout, Suffix: suf, Link: true, CLI: true})
						// entity 0's file is large (a long comment block in front of its content)
						yield(&c18Case{N: n, Issuer: append([]int{}, iss...), AMode: make([]int, n), Layout: layout, Suffix: suf, Big: true})
						if layout == 0 {
							// ... also where every file-derived alias collides (same base name in different directories)
							yield(&c18Case{N: n, Issuer: append([]int{}, iss...), AMode: make([]int, n), Layout: 3, Big: true})
						}
					}
					if suf == 1 {
						for art := 1; art < len(c18Arts); art++ {
							yield(&c18Case{N: n, Issuer: append([]int{}, iss...), AMode: make([]int, n), Layout: layout, Suffix: suf, Art: art})
						}
					}
				}
			}
			k := 0
			for k < n {
				iss[k]++
				if iss[k] <= n {
					break
				}
				iss[k] = -1
				k++
			}
			if k == n {
				break
			}
		}
	}
}

func c18Exec(x *engine.Ctx, cc any) {
	c := cc.(*c18Case)
	d, aliases, valid, why := c18Build(c)
	for mode := 0; mode < 2; mode++ {
		if mode == 1 && !c.CLI {
			break
		}
		w := simfs.New(simfs.TickPerWrite)
		if c.Foreign {
			names := make([]string, 0, len(c18Foreign))
			for p := range c18Foreign {
				names = append(names, p)
			}
			sort.Strings(names)
			for _, p := range names {
				w.Put(p, []byte(c18Foreign[p]))
			}
		}
		d.Render(w)
		if c.Art > 0 && len(d.Certs) > 0 {
			w.Put(ArtifactPath(d.Certs[0].Path), c18Art(c.Art))
		}
		if c.Big && len(d.Certs) > 0 {
			p := d.Certs[0].Path
			w.Put(p, append([]byte(strings.Repeat("# "+strings.Repeat("~", 61)+"\n", 80<<10/64)), w.Files[p].Data...))
		}
		if c.Link && len(d.Certs) > 0 {
			if mode == 0 {
				continue // the in-memory filesystem has no links
			}
			p := d.Certs[0].Path
			w.PutAt("templates/entity-zero.tpl", w.Files[p].Data, w.Files[p].Tick)
			w.Remove(p)
			w.Symlinks = map[string]string{p: "templates/entity-zero.tpl"}
		}
		before := w.Clone()
		x.State(fmt.Sprintf("%v %v %d %d %v %d %v %v", c.Issuer, c.AMode, c.Layout, c.Suffix, c.Foreign, c.Art, c.Link, c.Big))
		x.Transition(1)
		var ok bool
		var summary string
		var written []string
		if mode == 0 {
			res := drive.Run(w, drive.Default, nil)
			if res.Panic != "" {
				x.Violation("C18/panic/"+res.PanicSite, "panic: "+res.Panic)
				return
			}
			ok = res.OK()
			summary = res.Summary()
			if res.Err() != nil {
				summary += ": " + errStr(res.Err())
			}
			for _, r := range w.Log {
				written = append(written, r.Path)
			}
		} else {
			res, err := drive.RunCLI(w, drive.Default, "")
			if err != nil {
				x.Cap("cli binary could not be run: " + err.Error())
				return
			}
			ok = res.Exit == 0
			summary = fmt.Sprintf("cli exit=%d %s", res.Exit, short(res.Stdout, 200))
			x.TraceValidated(1)
		}
		tag := []string{"lib", "cli"}[mode]
		diff := simfs.Diff(before, w)
		if !valid {
			x.Outcome(tag + " invalid:" + strings.SplitN(why, " ", 2)[0])
			if ok {
				x.Violation("C18/accepted-invalid/"+tag+"/"+c18Reason(why), fmt.Sprintf("hierarchy is invalid (%s) but the run succeeded (%s); changed: %v", why, summary, diff))
			}
			if len(diff) > 0 {
				x.Violation("C18/wrote-on-invalid/"+tag+"/"+c18Reason(why), fmt.Sprintf("hierarchy is invalid (%s), run said %q, yet the directory changed: %v", why, summary, diff))
			}
			x.Nontrivial(fmt.Sprintf("inv %v %v %d %v", c.Issuer, c.AMode, c.Layout, c.Big))
			// the refusal does not depend on which generate-flags are set: the same directory with every flag
			// switched off, and with generate-all alone
			for _, st := range []db.UpdateStrategy{db.UpdateNone, db.UpdateAll} {
				w2 := before.Clone()
				ok2, sum2 := false, ""
				if mode == 0 {
					r2 := drive.Run(w2, st, nil)
					if r2.Panic != "" {
						x.Violation("C18/panic/"+r2.PanicSite, "panic: "+r2.Panic)
						continue
					}
					ok2, sum2 = r2.OK(), r2.Summary()
				} else {
					r2, err := drive.RunCLI(w2, st, "")
					if err != nil {
						x.Cap("cli binary could not be run: " + err.Error())
						continue
					}
					x.TraceValidated(1)
					ok2, sum2 = r2.Exit == 0, fmt.Sprintf("cli exit=%d %s", r2.Exit, short(r2.Stdout, 200))
				}
				x.Transition(1)
				if ok2 || len(simfs.Diff(before, w2)) > 0 {
					x.Violation(fmt.Sprintf("C18/accepted-invalid/%s/%s flags=%05b", tag, c18Reason(why), int(st)), fmt.Sprintf("hierarchy is invalid (%s) but the run with flags %05b reported %s; changed: %v", why, int(st), sum2, simfs.Diff(before, w2)))
				}
			}
			continue
		}
		x.Outcome(fmt.Sprintf("%s valid n=%d", tag, c.N))
		if !ok {
			x.Violation("C18/rejected-valid/"+tag, fmt.Sprintf("hierarchy is valid but the run failed: %s", summary))
			continue
		}
		if c.N > 0 {
			x.Nontrivial(fmt.Sprintf("val %v %v %d %d %d %v %v", c.Issuer, c.AMode, c.Layout, c.Suffix, c.Art, c.Link, c.Big))
		}
		// every entity's artifact sits next to its config; nothing else changed
		want := map[string]bool{}
		for i, cfg := range d.Certs {
			if i == 0 && c.Art > 0 {
				want["content:"+ArtifactPath(cfg.Path)] = true // the odd file is replaced by the artifact
				continue
			}
			want["created:"+ArtifactPath(cfg.Path)] = true
		}
		for _, df := range diff {
			if !want[df] {
				x.Violation("C18/unexpected-change/"+tag+"/"+strings.SplitN(df, ":", 2)[0], fmt.Sprintf("valid run changed %q; expected only the artifacts %v", df, keys(want)))
			}
			delete(want, df)
		}
		for m := range want {
			x.Violation("C18/artifact-missing/"+tag, fmt.Sprintf("expected %s after a successful run; diff=%v", m, diff))
		}
		if mode == 0 && len(written) != c.N {
			x.Violation("C18/write-count/"+tag, fmt.Sprintf("wrote %v for %d entities", written, c.N))
		}
		// aliases resolve as stated: each child is signed by the entity its issuer alias names
		for i, cfg := range d.Certs {
			a := ReadArtifact(w, cfg.Path)
			if a.Cert == nil {
				x.Violation("C18/no-cert/"+tag, fmt.Sprintf("entity %d (%s): no decodable certificate: %v", i, cfg.Path, a.CertErr))
				continue
			}
			if got := cnOf(a.Cert.Subject); got != fmt.Sprintf("E%d", i) {
				x.Violation("C18/wrong-subject/"+tag, fmt.Sprintf("artifact of %s holds subject CN=%q", cfg.Path, got))
			}
			issuerIdx := c.Issuer[i]
			if issuerIdx < 0 {
				issuerIdx = i
			}
			ia := ReadArtifact(w, d.Certs[issuerIdx].Path)
			if ia.Cert == nil {
				continue
			}
			if err := VerifyChainLink(a.Cert, ia.Cert); err != nil {
				x.Violation("C18/alias-resolution/"+tag, fmt.Sprintf("entity %d (alias %q, issuer alias %q -> entity %d): %v", i, aliases[i], cfg.Issuer, issuerIdx, err))
			}
		}
	}
}

func c18Reason(why string) string {
	switch {
	case strings.Contains(why, "collide"):
		return "duplicate-alias"
	case strings.Contains(why, "undefined"):
		return "undefined-issuer"
	}
	return "cycle"
}

func keys(m map[string]bool) []string {
	var out []string
	for k := range m {
		out = append(out, k)
	}
	sort.Strings(out)
	return out
}

func init() {
	register(&engine.Check{
		ID:    "C18",
		Level: "model_checking",
		Rule: "every issuer function issuer:[n]->{none,0..n-1,undefined} for n<=4 (quick) / n<=6 (thorough); for n<=3 additionally every alias-mode vector in {file-derived, explicit unique, explicit = next entity's alias, explicit = next entity's file stem}^n x 7 directory layouts (incl. dots in directory and file names, and the same file name at the top level and nested ever deeper so that one path is the tail of another) and 6 suffix/letter-case variants x 4 layouts; for n in {2,3} every issuer function with two config files sharing directory and stem under 6 suffix pairs (alias collision); foreign files present (other suffixes, unparseable text, no version key, configuration suffix inside the name, hidden files and a hidden directory next to the configurations); for n<=3 also with entity 0's artifact file in five odd states (hash line that is not base64 or too short or unterminated, empty file, plain text), which must not change the verdict, with entity 0's configuration file starting with an 80 KiB comment block (also where aliases collide), and (command line) with entity 0's configuration file being a symbolic link to a file kept elsewhere. " +
			"Each case builds the directory, runs Open+Plan+BulkUpdate on simfs (and the built CLI binary for the flagged subset) and compares with the model valid <=> all issuers defined, acyclic, aliases unique; an invalid directory is run again with every generate-flag off and with generate-all alone (still refused, nothing written). non-trivial = distinct (issuer function, alias modes, layout, suffix) case that reached the verdict comparison",
		Bound:       map[string]string{"entities": "quick<=4, thorough<=6", "alias/layout/suffix variants": "n<=3"},
		Assumptions: []string{"file stems are distinct per directory and non-empty (a.yaml + a.yml sharing a.pem is outside the statement's quantifier)", "keys are P-224 to keep generation cheap; C18 does not depend on the key type"},
		Budget:      budgets(quickBudget, thoroughBudget),
		Enumerate:   c18Enumerate,
		NewCase:     func() any { return &c18Case{} },
		Exec:        c18Exec,
	})
}
