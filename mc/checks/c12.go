package checks

import (
	"bytes"
	"crypto/rand"
	"crypto/sha1"
	"crypto/x509"
	"crypto/x509/pkix"
	"encoding/json"
	"fmt"
	"math/big"
	"sort"
	"strings"
	"time"

	"verif/mc/drive"
	"verif/mc/engine"
	"verif/mc/refcfg"
	"verif/mc/refx509"
	"verif/mc/simfs"
)

// C12 — incremental runs converge to what a clean run would produce, chains intact.

// hstate is a complete system state: the directory plus the harness' AST of
// the configuration files in it (needed to re-render edits and as oracle input).
type hstate struct {
	D *Dir         `json:"d"`
	W *simfs.World `json:"w"`
}

func (s *hstate) clone() *hstate {
	var d Dir
	j, _ := json.Marshal(s.D)
	json.Unmarshal(j, &d)
	return &hstate{D: &d, W: s.W.Clone()}
}

type c12Case struct {
	World int `json:"world"`
	Clock int `json:"clock"`
	First int `json:"first"` // index of the first operation (shard); -1 = none
	Depth int `json:"depth"`
	// Alphabet 1 restricts the operations to configuration edits and runs (no artifact damage,
	// no add/remove), which allows one more level of depth
	Alphabet   int      `json:"alphabet,omitempty"`
	Trace      []int    `json:"trace,omitempty"` // replay: exact operation sequence (indexes into the op list of each state)
	TraceNames []string `json:"traceNames,omitempty"`
}

// ---------------------------------------------------------------- worlds

func c12Initial(world, clock int) *hstate {
	d := &Dir{}
	mk := func(name, issuer string) *refcfg.CertCfg {
		return &refcfg.CertCfg{Path: name + ".yaml", Subject: "CN=" + name + " A", Issuer: issuer, KeyAlg: "P-224"}
	}
	prof := &refcfg.ProfileCfg{Path: "prof.yaml", Name: "p", Exts: []refcfg.Ext{{Kind: refcfg.KEKU, EKU: refcfg.Strs("clientAuth")}, {Kind: refcfg.KSKI, SKI: refcfg.S("hash")}, {Kind: refcfg.KAKI, AKIHash: true}}}
	switch world {
	case 0: // chain of 3 with a profile on the leaf; the leaf takes a relative validity from the profile
		d.Certs = []*refcfg.CertCfg{mk("root", ""), mk("mid", "root"), mk("leaf", "mid")}
		d.Certs[2].Profile = "p"
		prof.Validity = &refcfg.Validity{Duration: "4y"}
	case 1: // root with two subs
		d.Certs = []*refcfg.CertCfg{mk("root", ""), mk("suba", "root"), mk("subb", "root")}
		d.Certs[1].Profile = "p"
		// one entity under an explicit alias that differs from its file stem, one in a dotted sub-directory
		d.Certs[1].Path, d.Certs[1].Alias = "subs/a-config.yaml", "suba"
		d.Certs[2].Path = "subs/deep.d/subb.yml"
	case 2: // 5 entities
		d.Certs = []*refcfg.CertCfg{mk("root", ""), mk("suba", "root"), mk("subb", "root"), mk("leafa", "suba"), mk("leafb", "subb")}
		d.Certs[3].Profile = "p"
	}
	d.Profiles = []*refcfg.ProfileCfg{prof}
	w := simfs.New(clock)
	d.Render(w)
	return &hstate{D: d, W: w}
}

// ---------------------------------------------------------------- operations

type c12Op struct {
	Name  string
	IsRun bool
	Strat int
	Apply func(s *hstate) // for edits
}

func (s *hstate) rewrite(c *refcfg.CertCfg) { s.W.Put(c.Path, RenderCfg(c.Path, c.Tree())) }

func (s *hstate) descendants(alias string) map[string]bool {
	out := map[string]bool{alias: true}
	for changed := true; changed; {
		changed = false
		for _, c := range s.D.Certs {
			if out[c.Issuer] && !out[AliasOf(c)] {
				out[AliasOf(c)] = true
				changed = true
			}
		}
	}
	return out
}

func (s *hstate) isLeaf(alias string) bool {
	for _, c := range s.D.Certs {
		if c.Issuer == alias {
			return false
		}
	}
	return true
}

// c12ForeignPEM: a certificate + key made by another tool, no hash line.
func c12ForeignPEM(alias string) []byte {
	// each entity gets its own foreign key, otherwise two entities would share key material
	keyName, ok := map[string]string{"root": "P-256-1", "mid": "P-384-1", "leaf": "P-521-1", "suba": "P-384-0", "subb": "P-521-0",
		"leafa": "P-256-0", "leafb": "P-224-1", "extra": "P-384-1"}[alias]
	if !ok {
		keyName = "P-256-1"
	}
	keyDER := FixtureKeyDER(keyName)
	signer, _ := x509.ParsePKCS8PrivateKey(keyDER)
	tmpl := &x509.Certificate{SerialNumber: big.NewInt(31337), Subject: pkix.Name{CommonName: "Foreign " + alias},
		NotBefore: fixedTime(2019), NotAfter: fixedTime(2059), IsCA: true, BasicConstraintsValid: true}
	der, err := x509.CreateCertificate(zeroReader{}, tmpl, tmpl, signerPublic(signer), signer)
	if err != nil {
		der, _ = x509.CreateCertificate(rand.Reader, tmpl, tmpl, signerPublic(signer), signer)
	}
	out := append(refx509.EncodePem("CERTIFICATE", der), refx509.EncodePem("PRIVATE KEY", keyDER)...)
	if alias == "root" || alias == "leaf" || alias == "subb" || alias == "extra" {
		// some tools leave a remark behind the last block; the artifact is complete all the same
		out = append(out, []byte("exported by the key store tool, slot 3\n")...)
	}
	return out
}

type zeroReader struct{}

func (zeroReader) Read(p []byte) (int, error) {
	for i := range p {
		p[i] = 0x5a
	}
	return len(p), nil
}

var c12ForeignCache = map[string][]byte{}

func c12Foreign(alias string) []byte {
	if b, ok := c12ForeignCache[alias]; ok {
		return b
	}
	b := c12ForeignPEM(alias)
	c12ForeignCache[alias] = b
	return b
}

var c12ConfigOnly = false

func c12FilterOps(ops []c12Op) []c12Op {
	if !c12ConfigOnly {
		return ops
	}
	var out []c12Op
	for _, o := range ops {
		if o.IsRun || strings.HasPrefix(o.Name, "edit-") || strings.HasPrefix(o.Name, "switch-issuer") || strings.HasPrefix(o.Name, "toggle-profile") || strings.HasPrefix(o.Name, "profile-edit") {
			out = append(out, o)
		}
	}
	return out
}

// c12Ops lists the operations enabled in a state, in a fixed order.
func c12Ops(s *hstate, allowAdd bool) []c12Op { return c12FilterOps(c12AllOps(s, allowAdd)) }

func c12AllOps(s *hstate, allowAdd bool) []c12Op {
	var ops []c12Op
	for _, r := range []struct {
		n string
		s int
	}{{"run default", 9}, {"run -a", 16 | 9}, {"run -o only", 4}, {"run -e only", 2}, {"run -m only", 1}, {"run -c only", 8}} {
		ops = append(ops, c12Op{Name: r.n, IsRun: true, Strat: r.s})
	}
	for i := range s.D.Certs {
		c := s.D.Certs[i]
		alias := AliasOf(c)
		idx := i
		get := func(st *hstate) *refcfg.CertCfg { return st.D.Certs[idx] }
		add := func(name string, f func(st *hstate, c *refcfg.CertCfg)) {
			ops = append(ops, c12Op{Name: name + " " + alias, Apply: func(st *hstate) { f(st, get(st)) }})
		}
		add("edit-subject", func(st *hstate, c *refcfg.CertCfg) {
			if strings.HasSuffix(c.Subject, " A") {
				c.Subject = strings.TrimSuffix(c.Subject, " A") + " B"
			} else {
				c.Subject = strings.TrimSuffix(c.Subject, " B") + " A"
			}
			st.rewrite(c)
		})
		add("edit-extensions", func(st *hstate, c *refcfg.CertCfg) {
			if len(c.Exts) == 0 {
				c.Exts = []refcfg.Ext{{Kind: refcfg.KKU, Critical: refcfg.B(true), KU: refcfg.Strs("digitalSignature")}}
			} else {
				c.Exts = nil
			}
			st.rewrite(c)
		})
		add("edit-validity", func(st *hstate, c *refcfg.CertCfg) {
			switch {
			case c.Validity == nil:
				c.Validity = &refcfg.Validity{From: "2020-01-01", Until: "2050-01-01"}
			case c.Validity.From != "":
				c.Validity = &refcfg.Validity{Until: "2060-06-06"}
			case c.Validity.Until == "2060-06-06":
				c.Validity = &refcfg.Validity{Until: "2061-07-07"}
			default:
				c.Validity = nil
			}
			st.rewrite(c)
		})
		if c.Issuer != "" {
			// switch issuer to the next entity that is not below this one
			desc := s.descendants(alias)
			var cands []string
			for _, o := range s.D.Certs {
				if !desc[AliasOf(o)] {
					cands = append(cands, AliasOf(o))
				}
			}
			if len(cands) > 1 {
				add("switch-issuer", func(st *hstate, c *refcfg.CertCfg) {
					d2 := st.descendants(AliasOf(c))
					var cs []string
					for _, o := range st.D.Certs {
						if !d2[AliasOf(o)] {
							cs = append(cs, AliasOf(o))
						}
					}
					sort.Strings(cs)
					for k, a := range cs {
						if a == c.Issuer {
							c.Issuer = cs[(k+1)%len(cs)]
							break
						}
					}
					st.rewrite(c)
				})
			}
		}
		add("toggle-profile", func(st *hstate, c *refcfg.CertCfg) {
			if c.Profile == "" {
				c.Profile = "p"
			} else {
				c.Profile = ""
			}
			st.rewrite(c)
		})
		add("touch-config", func(st *hstate, c *refcfg.CertCfg) { st.W.Touch(c.Path) })
		art := ArtifactPath(c.Path)
		if f, ok := s.W.Files[art]; ok {
			add("delete-artifact", func(st *hstate, c *refcfg.CertCfg) { st.W.Remove(ArtifactPath(c.Path)) })
			pf := refx509.SplitPem(f.Data)
			if pf.HashLine != nil && len(pf.Blocks) > 0 {
				add("truncate-after-hash", func(st *hstate, c *refcfg.CertCfg) {
					p := ArtifactPath(c.Path)
					data := st.W.Files[p].Data
					st.W.Put(p, data[:bytes.IndexByte(data, '\n')+1])
				})
			}
			if pf.NumKeys > 0 && pf.NumCerts > 0 {
				add("strip-key", func(st *hstate, c *refcfg.CertCfg) {
					p := ArtifactPath(c.Path)
					q := refx509.SplitPem(st.W.Files[p].Data)
					var nb []byte
					if q.HashLine != nil {
						nb = append(nb, []byte("#HASH:"+*q.HashLine+"\n")...)
					}
					nb = append(nb, refx509.EncodePem("CERTIFICATE", q.CertDER)...)
					st.W.Put(p, nb)
				})
			}
			if pf.NumCerts > 0 {
				add("cut-inside-certificate", func(st *hstate, c *refcfg.CertCfg) {
					p := ArtifactPath(c.Path)
					data := st.W.Files[p].Data
					i := bytes.Index(data, []byte("-----BEGIN CERTIFICATE-----"))
					st.W.Put(p, data[:i+120])
				})
			}
			if pf.HashLine != nil {
				add("replace-by-foreign", func(st *hstate, c *refcfg.CertCfg) { st.W.Put(ArtifactPath(c.Path), c12Foreign(AliasOf(c))) })
			}
		} else {
			add("place-foreign", func(st *hstate, c *refcfg.CertCfg) { st.W.Put(ArtifactPath(c.Path), c12Foreign(AliasOf(c))) })
		}
		if s.isLeaf(alias) && c.Issuer != "" && len(s.D.Certs) > 2 {
			ops = append(ops, c12Op{Name: "remove-entity " + alias, Apply: func(st *hstate) {
				c := st.D.Certs[idx]
				st.W.Remove(c.Path)
				st.W.Remove(ArtifactPath(c.Path))
				st.D.Certs = append(append([]*refcfg.CertCfg{}, st.D.Certs[:idx]...), st.D.Certs[idx+1:]...)
			}})
		}
	}
	if allowAdd && s.D.Cert("extra") == nil {
		ops = append(ops, c12Op{Name: "add-entity extra", Apply: func(st *hstate) {
			c := &refcfg.CertCfg{Path: "extra.yaml", Subject: "CN=extra A", Issuer: AliasOf(st.D.Certs[0]), KeyAlg: "P-224"}
			st.D.Certs = append(st.D.Certs, c)
			st.rewrite(c)
		}})
	}
	for i := range s.D.Profiles {
		idx := i
		ops = append(ops, c12Op{Name: "profile-edit-extension", Apply: func(st *hstate) {
			p := st.D.Profiles[idx]
			if (*p.Exts[0].EKU)[0] == "clientAuth" {
				p.Exts[0].EKU = refcfg.Strs("serverAuth")
			} else {
				p.Exts[0].EKU = refcfg.Strs("clientAuth")
			}
			st.W.Put(p.Path, RenderCfg(p.Path, p.Tree()))
		}})
		ops = append(ops, c12Op{Name: "profile-edit-validity", Apply: func(st *hstate) {
			p := st.D.Profiles[idx]
			switch {
			case p.Validity == nil:
				p.Validity = &refcfg.Validity{Duration: "4y"}
			case p.Validity.From == "" && p.Validity.Duration == "4y":
				p.Validity = &refcfg.Validity{Duration: "6y"}
			case p.Validity.From == "":
				p.Validity = &refcfg.Validity{From: "2021-01-01", Duration: "4y"}
			default:
				p.Validity = nil
			}
			st.W.Put(p.Path, RenderCfg(p.Path, p.Tree()))
		}})
	}
	return ops
}

// ---------------------------------------------------------------- canonical key

type keyTable struct {
	idx map[string]int
}

func (k *keyTable) of(bits []byte) int {
	s := string(bits)
	if i, ok := k.idx[s]; ok {
		return i
	}
	i := len(k.idx)
	k.idx[s] = i
	return i
}

// certShape abstracts a certificate: everything gopki can observe or the
// oracle later needs, with key material replaced by indices and serial and
// signature dropped.
func certShape(c *refx509.Cert, kt *keyTable, world []*refx509.Cert) string {
	var b strings.Builder
	fmt.Fprintf(&b, "v=%v subj=%x iss=%x ", c.Version, c.SubjectRaw, c.IssuerRaw)
	mid := func(t refx509.Time) bool {
		lt := t.T.In(time.Local)
		return lt.Hour() == 0 && lt.Minute() == 0 && lt.Second() == 0
	}
	if mid(c.NotBefore) && mid(c.NotAfter) {
		fmt.Fprintf(&b, "val=%s..%s ", c.NotBefore.Text, c.NotAfter.Text)
	} else {
		// run-relative: lifetime in days plus whether it has expired
		days := int(c.NotAfter.T.Sub(c.NotBefore.T).Hours() / 24)
		if mid(c.NotAfter) {
			fmt.Fprintf(&b, "val=rel..%s ", c.NotAfter.Text)
		} else {
			fmt.Fprintf(&b, "val=rel+%dd ", days)
		}
	}
	fmt.Fprintf(&b, "spki=%s/k%d sig=%s/%s ", c.SPKIAlg.OID, kt.of(c.PubKey.Bytes), c.InnerSig.OID, c.OuterSig.OID)
	signer := -1
	for _, o := range world {
		if pub, err := o.PublicKey(); err == nil {
			if refx509.VerifyWith(pub, c.OuterSig.OID, c.TBSRaw, c.Sig) == nil {
				signer = kt.of(o.PubKey.Bytes)
				break
			}
		}
	}
	fmt.Fprintf(&b, "signer=k%d ", signer)
	if c.IssuerUID != nil {
		fmt.Fprintf(&b, "iuid=%x ", c.IssuerUID.Bytes)
	}
	if c.SubjectUID != nil {
		fmt.Fprintf(&b, "suid=%x ", c.SubjectUID.Bytes)
	}
	for _, e := range c.Exts {
		val := fmt.Sprintf("%x", e.Value)
		// key identifiers -> key indices
		for bits, i := range kt.idx {
			h := sha1.Sum([]byte(bits))
			if bytes.Contains(e.Value, h[:]) {
				val = strings.ReplaceAll(val, fmt.Sprintf("%x", h[:]), fmt.Sprintf("<kid k%d>", i))
			}
		}
		fmt.Fprintf(&b, "ext[%s crit=%v %s] ", e.OID, e.Critical, val)
	}
	return b.String()
}

// canonKey is the state key of Appendix B.
func canonKey(s *hstate) string { return canonKeyOpt(s, true) }

// canonKeyOpt with withRanks=false leaves the mtime order out (used to compare with a native
// directory, whose timestamps of one run may tie).
func canonKeyOpt(s *hstate, withRanks bool) string {
	w := s.W
	paths := w.Paths()
	ranks := w.Ranks()
	kt := &keyTable{idx: map[string]int{}}
	// first pass: decode artifacts, register keys in file order
	arts := map[string]*Artifact{}
	var certs []*refx509.Cert
	cfgPaths := map[string]bool{}
	for _, c := range s.D.Certs {
		cfgPaths[c.Path] = true
		a := ReadArtifact(w, c.Path)
		arts[ArtifactPath(c.Path)] = a
	}
	for _, p := range paths {
		if a, ok := arts[p]; ok && a.Exists {
			if a.Cert != nil {
				kt.of(a.Cert.PubKey.Bytes)
				certs = append(certs, a.Cert)
			}
			if a.Key != nil {
				kt.of(keyBits(a.Key))
			}
			if a.CSR != nil {
				kt.of(a.CSR.PubKey.Bytes)
			}
		}
	}
	var b strings.Builder
	dj, _ := json.Marshal(s.D)
	b.Write(dj)
	for _, p := range paths {
		if withRanks {
			fmt.Fprintf(&b, "\n%s r%d ", p, ranks[p])
		} else {
			fmt.Fprintf(&b, "\n%s ", p)
		}
		if a, ok := arts[p]; ok && a.Exists {
			if a.Pem.HashLine != nil {
				fmt.Fprintf(&b, "hash=%s ", *a.Pem.HashLine)
			}
			if a.Cert != nil {
				b.WriteString("cert{" + certShape(a.Cert, kt, certs) + "} ")
			} else if a.Pem.CertDER != nil {
				b.WriteString("cert{undecodable} ")
			}
			if a.Key != nil {
				fmt.Fprintf(&b, "key=k%d/%s ", kt.of(keyBits(a.Key)), a.Key.Describe())
			} else if a.Pem.KeyDER != nil {
				b.WriteString("key=undecodable ")
			}
			if a.CSR != nil {
				fmt.Fprintf(&b, "csr=k%d ", kt.of(a.CSR.PubKey.Bytes))
			}
			fmt.Fprintf(&b, "blocks=%d trailing=%v", len(a.Pem.Blocks), a.Pem.Trailing)
		} else if !cfgPaths[p] {
			h := sha1.Sum(w.Files[p].Data)
			fmt.Fprintf(&b, "other=%x", h[:6])
		}
	}
	return b.String()
}

func keyBits(k *refx509.PrivateKey) []byte {
	spki := refx509.SPKIFor(k)
	c, err := refx509.ParseCSR(refx509.BuildCSR(k, "x", nil))
	if err == nil {
		return c.PubKey.Bytes
	}
	return spki
}

// ---------------------------------------------------------------- oracle

// c12Oracle is evaluated after a default-flag run that returned success.
func c12Oracle(x *engine.Ctx, s *hstate, before *hstate, res drive.Result, runStart, runEnd int64, trace []string, replay *c12Case) {
	v := func(class, detail string) {
		x.ViolationCase("C12/"+class, fmt.Sprintf("%s\n  history: %s", detail, strings.Join(trace, " ; ")), replay)
	}
	type ent struct {
		cfg *refcfg.CertCfg
		a   *Artifact
	}
	ents := map[string]*ent{}
	for _, c := range s.D.Certs {
		ents[AliasOf(c)] = &ent{c, ReadArtifact(s.W, c.Path)}
	}
	// gopki-produced chain? (every ancestor carries a hash line)
	var gopkiChain func(alias string, depth int) bool
	gopkiChain = func(alias string, depth int) bool {
		e := ents[alias]
		if e == nil || depth > 10 || e.a.Pem == nil || e.a.Pem.HashLine == nil {
			return false
		}
		if e.cfg.Issuer == "" {
			return true
		}
		return gopkiChain(e.cfg.Issuer, depth+1)
	}
	var clean *hstate
	for _, c := range s.D.Certs {
		alias := AliasOf(c)
		e := ents[alias]
		if e.a.Cert == nil || (e.a.Key == nil && e.a.CSR == nil) {
			v("incomplete-after-default-run", fmt.Sprintf("entity %s: certificate=%v key=%v request=%v after a successful default run", alias, e.a.Cert != nil, e.a.Key != nil, e.a.CSR != nil))
			continue
		}
		// user-supplied artifact (complete, no hash line before the run): not refreshed merely because
		// its configuration differs. Judged on the file as it was BEFORE the run - a refreshed one carries a hash line afterwards.
		if bf, ok := before.W.Files[ArtifactPath(c.Path)]; ok {
			pb := refx509.SplitPem(bf.Data)
			complete := pb.HashLine == nil && pb.NumCerts > 0 && (pb.NumKeys > 0 || pb.NumReqs > 0)
			if complete && !bytes.Equal(bf.Data, s.W.Files[ArtifactPath(c.Path)].Data) {
				// legitimate only if its issuer was regenerated or is newer
				issuerRegen := c.Issuer != "" && res.Planned(c.Issuer)
				issuerNewer := false
				if c.Issuer != "" {
					if ic := before.D.Cert(c.Issuer); ic != nil {
						if iaf, ok := before.W.Files[ArtifactPath(ic.Path)]; ok && iaf.Tick > bf.Tick {
							issuerNewer = true
						}
					}
				}
				if !issuerRegen && !issuerNewer {
					v("user-artifact-refreshed", fmt.Sprintf("entity %s: complete artifact without hash line was rewritten although its issuer was neither regenerated nor newer", alias))
				}
			}
		}
		if e.a.Pem.HashLine == nil {
			continue
		}
		// (i) reference translation of the current effective configuration
		var issuerCert *refx509.Cert
		if c.Issuer != "" {
			ie := ents[c.Issuer]
			if ie == nil || ie.a.Cert == nil {
				v("issuer-without-certificate", fmt.Sprintf("entity %s: issuer %s has no certificate after a successful default run", alias, c.Issuer))
				continue
			}
			issuerCert = ie.a.Cert
		}
		var prof *refcfg.ProfileCfg
		if c.Profile != "" {
			prof = s.D.Profile(c.Profile)
		}
		written := res.Planned(alias)
		ev := refcfg.EffectiveValidity(c, prof)
		in := refcfg.CmpIn{Cfg: c, Prof: prof, Cert: e.a.Cert, Issuer: issuerCert, Loc: time.Local, RunStart: runStart, RunEnd: runEnd}
		if !written && (ev == nil || ev.From == "") {
			in.SkipValidity = true // produced by an earlier run: run-relative dates not comparable here
		}
		for _, df := range refcfg.Compare(in) {
			v("does-not-reflect-config/"+strings.TrimPrefix(df.Class, df.Owner+"/"), fmt.Sprintf("entity %s (regenerated in this run: %v): %s", alias, written, df.Detail))
		}
		// relative end that is an absolute date must match even for older certificates
		if in.SkipValidity && ev != nil && ev.Until != "" {
			win := refcfg.RefWindow(ev, time.Local)
			ok := false
			for _, u := range win.UntilStatic {
				if u == e.a.Cert.NotAfter.T.Unix() {
					ok = true
				}
			}
			if !ok {
				v("does-not-reflect-config/validity/until-without-from", fmt.Sprintf("entity %s: notAfter %s, configured until %s", alias, e.a.Cert.NotAfter.Text, ev.Until))
			}
		}
		// a relative duration must hold between the two dates of the certificate, whenever it was produced
		if in.SkipValidity && ev != nil && ev.From == "" && ev.Until == "" && ev.Duration != "" {
			win := refcfg.RefWindow(ev, time.Local)
			if win.Err == nil {
				ok := false
				for _, u := range refcfg.AddCalendar(e.a.Cert.NotBefore.T.Unix(), win.AddY, win.AddM, win.AddD, time.Local) {
					if u == e.a.Cert.NotAfter.T.Unix() {
						ok = true
					}
				}
				if !ok {
					v("does-not-reflect-config/validity/relative-duration", fmt.Sprintf("entity %s: %s .. %s is not the configured duration %s", alias, e.a.Cert.NotBefore.Text, e.a.Cert.NotAfter.Text, ev.Duration))
				}
			}
		}
		// (ii) differential against a clean run of the same configuration files
		if gopkiChain(alias, 0) {
			if clean == nil {
				clean = &hstate{D: s.D, W: simfs.New(simfs.TickPerWrite)}
				s.D.Render(clean.W)
				if r := drive.Run(clean.W, drive.Default, nil); !r.OK() {
					clean = &hstate{}
				}
			}
			if clean.W != nil {
				ca := ReadArtifact(clean.W, c.Path)
				if ca.Cert != nil {
					sh := func(a *Artifact, w *simfs.World) string {
						kt := &keyTable{idx: map[string]int{}}
						// role-based key naming: own key k0, issuer key k1
						kt.of(a.Cert.PubKey.Bytes)
						var world []*refx509.Cert
						if c.Issuer != "" {
							if ic := s.D.Cert(c.Issuer); ic != nil {
								if ia := ReadArtifact(w, ic.Path); ia.Cert != nil {
									kt.of(ia.Cert.PubKey.Bytes)
									world = append(world, ia.Cert)
								}
							}
						}
						world = append(world, a.Cert)
						return certShape(a.Cert, kt, world)
					}
					got, want := sh(e.a, s.W), sh(ca, clean.W)
					// key type of re-used keys versus a clean run is not demanded
					if got != want && !strings.Contains(got, "undecodable") {
						gi, wi := stripSPKI(got), stripSPKI(want)
						if gi != wi {
							v("differs-from-clean-run", fmt.Sprintf("entity %s:\n   incremental: %s\n   clean run:   %s", alias, got, want))
						}
					}
				}
			}
		}
	}
}

// stripSPKI removes the key-algorithm part (re-used keys may be of another type than a clean run generates).
func stripSPKI(s string) string {
	i := strings.Index(s, "spki=")
	j := strings.Index(s, " sig=")
	if i < 0 || j < 0 {
		return s
	}
	return s[:i] + s[j:]
}

// ---------------------------------------------------------------- search

var c12RunCount int

const c12CLIEvery = 40

type c12Node struct {
	s     *hstate
	trace []int
	names []string
}

func c12Step(x *engine.Ctx, n *c12Node, opIdx int, allowAdd bool, replay *c12Case) *c12Node {
	ops := c12Ops(n.s, allowAdd)
	if opIdx >= len(ops) {
		return nil
	}
	op := ops[opIdx]
	ns := n.s.clone()
	// op closures index into their own state: rebuild ops for the clone
	ops2 := c12Ops(ns, allowAdd)
	op2 := ops2[opIdx]
	child := &c12Node{s: ns, trace: append(append([]int{}, n.trace...), opIdx), names: append(append([]string{}, n.names...), op.Name)}
	x.Transition(1)
	if !op.IsRun {
		op2.Apply(ns)
		return child
	}
	before := n.s
	t0 := time.Now().Unix()
	res := drive.Run(ns.W, dbStrat(op.Strat), nil)
	t1 := time.Now().Unix()
	rp := *replay
	rp.Trace, rp.TraceNames, rp.First = child.trace, child.names, -1
	if res.Panic != "" {
		// crashes belong to C20; the successor state is what the panic left behind
		x.Outcome("run panicked (C20)")
		return child
	}
	if !res.OK() {
		x.Outcome("run failed")
		if op.Strat == 9 {
			// every configuration in this alphabet is valid, so the default-flag run has no reason to fail:
			// "a sign run with the default flags leaves ... every entity with a certificate and key material"
			x.ViolationCase("C12/default-run-failed", fmt.Sprintf("%s\n  history: %s", errStr(res.Err()), strings.Join(child.names, " ; ")), &rp)
		}
		return child
	}
	// binding to the shipped binary: every c12CLIEvery-th successful run transition is replayed on the
	// built gopki binary in a native directory; the resulting directory must abstract to the same
	// canonical state as the in-memory successor
	c12RunCount++
	if (x.Replay || c12RunCount%c12CLIEvery == 0) && n.s.W.ClockMode == simfs.TickPerWrite {
		cs := n.s.clone()
		cres, cerr := drive.RunCLI(cs.W, dbStrat(op.Strat), "y\n")
		if cerr == nil {
			x.TraceValidated(1)
			if cres.Exit != 0 {
				x.ViolationCase("C12/cli-binding/exit-status", fmt.Sprintf("library run succeeded, binary exit %d: %s\n  history: %s", cres.Exit, short(cres.Stdout, 300), strings.Join(child.names, " ; ")), &rp)
			} else if canonKeyOpt(cs, false) != canonKeyOpt(ns, false) {
				x.ViolationCase("C12/cli-binding/state-differs", fmt.Sprintf("binary and library runs lead to different abstract states\n  history: %s\n  lib: %s\n  cli: %s", strings.Join(child.names, " ; "), short(canonKeyOpt(ns, false), 1500), short(canonKeyOpt(cs, false), 1500)), &rp)
			}
		}
	}
	// the same binding on a directory whose artifact files are kept elsewhere and linked into place
	if (x.Replay || c12RunCount%c12CLIEvery == c12CLIEvery/2) && n.s.W.ClockMode == simfs.TickPerWrite {
		cs := n.s.clone()
		cres, cerr := drive.RunCLILinkedArtifacts(cs.W, dbStrat(op.Strat), "y\n")
		if cerr == nil {
			x.TraceValidated(1)
			x.Info("binary runs on linked artifacts", 1)
			if cres.Exit != 0 {
				x.ViolationCase("C12/cli-binding/linked-artifacts/exit-status", fmt.Sprintf("library run succeeded, binary exit %d on the same directory with linked artifact files: %s\n  history: %s", cres.Exit, short(cres.Stdout, 300), strings.Join(child.names, " ; ")), &rp)
			} else if canonKeyOpt(cs, false) != canonKeyOpt(ns, false) {
				x.ViolationCase("C12/cli-binding/linked-artifacts/state-differs", fmt.Sprintf("binary run on linked artifact files and library run lead to different abstract states\n  history: %s\n  lib: %s\n  cli: %s", strings.Join(child.names, " ; "), short(canonKeyOpt(ns, false), 1500), short(canonKeyOpt(cs, false), 1500)), &rp)
			}
		}
	}
	if op.Strat == 9 {
		x.Outcome("default run ok")
		c12Oracle(x, ns, before, res, t0, t1, child.names, &rp)
		// a further identical run is a no-op (C10's oracle on every reachable state)
		w2 := ns.W.Clone()
		r2 := drive.Run(w2, drive.Default, nil)
		if r2.OK() && (len(r2.Plan) != 0 || len(w2.Log) != 0) {
			x.ViolationCase("C12/second-default-run-not-noop", fmt.Sprintf("plan %v after history: %s", r2.PlanAliases(), strings.Join(child.names, " ; ")), &rp)
		}
	} else {
		x.Outcome("other run ok")
	}
	return child
}

func c12Exec(x *engine.Ctx, cc any) {
	c := cc.(*c12Case)
	c12ConfigOnly = c.Alphabet == 1
	allowAdd := c.World != 2
	root := &c12Node{s: c12Initial(c.World, c.Clock)}
	if c.Trace != nil { // replay
		n := root
		for _, op := range c.Trace {
			n = c12Step(x, n, op, allowAdd, c)
			if n == nil {
				return
			}
		}
		return
	}
	frontier := []*c12Node{root}
	if c.First >= 0 {
		n := c12Step(x, root, c.First, allowAdd, c)
		if n == nil {
			return
		}
		x.State(canonKey(n.s))
		frontier = []*c12Node{n}
	}
	seen := map[string]bool{}
	done := 1
	for depth := 1; depth < c.Depth; depth++ {
		var next []*c12Node
		for _, n := range frontier {
			nops := len(c12Ops(n.s, allowAdd))
			for op := 0; op < nops; op++ {
				if x.Expired() {
					x.Cap(fmt.Sprintf("time budget: shard world=%d clock=%d first=%d completed depth %d of %d", c.World, c.Clock, c.First, done, c.Depth))
					return
				}
				ch := c12Step(x, n, op, allowAdd, c)
				if ch == nil {
					continue
				}
				k := canonKey(ch.s)
				if seen[k] {
					continue
				}
				seen[k] = true
				x.State(k)
				next = append(next, ch)
			}
		}
		frontier = next
		done = depth + 1
		x.Info(fmt.Sprintf("frontier_depth_%d", done), int64(len(next)))
	}
	x.Nontrivial(fmt.Sprintf("%d %d %d", c.World, c.Clock, c.First))
	x.Outcome(fmt.Sprintf("shard completed to depth %d", done))
}

func c12Enumerate(tier string, yield func(any)) {
	if tier == "thorough" {
		// one level deeper over configuration edits and runs only
		c12ConfigOnly = true
		for clock := 0; clock < 2; clock++ {
			nops := len(c12Ops(c12Initial(0, clock), false))
			for f := 0; f < nops; f++ {
				yield(&c12Case{World: 0, Clock: clock, First: f, Depth: 5, Alphabet: 1})
			}
		}
		c12ConfigOnly = false
	}
	depth := 3
	worlds := []int{0, 1}
	if tier == "thorough" {
		depth = 4
		worlds = []int{0, 1, 2}
	}
	for _, w := range worlds {
		for clock := 0; clock < 2; clock++ {
			nops := len(c12Ops(c12Initial(w, clock), w != 2))
			for f := 0; f < nops; f++ {
				d := depth
				if w == 2 {
					d = 3
				}
				yield(&c12Case{World: w, Clock: clock, First: f, Depth: d})
			}
		}
	}
}

func init() {
	register(&engine.Check{
		ID:          "C12",
		Level:       "model_checking",
		Rule:        "breadth-first search over operation histories from 2 (quick) / 3 (thorough) initial worlds (chain of 3 with a profile on the leaf; root with two subs, one under an explicit alias in a sub-directory and one in a dotted sub-directory; 5 entities) x 2 clock modes. Operations per entity: edit subject / extensions / validity (3 shapes incl. until-without-from), switch issuer to another valid issuer, attach/detach profile, touch config, delete artifact, truncate after the hash line, strip key block, cut inside the certificate block, replace by a foreign certificate+key without hash line, remove entity (leaves), add entity; per profile: edit extension content, edit validity (none -> 4y -> 6y -> from+4y -> none); runs: default, -a, -o only, -e only, -m only, -c only. All histories up to depth 3 (quick) / 4 (thorough; and depth 5 over the configuration-edit and run operations only, on the 3-chain), deduplicated per shard on the canonical state key (normalised config ASTs, artifacts abstracted to hash line + certificate shape with keys as indices and serial/signature dropped, mtimes as rank order); shards = first operation. Oracle: a default-flag run never fails (all configurations of the alphabet are valid); after every successful default-flag run: every entity complete; every hash-carrying certificate equals the reference translation of its current effective configuration AND the shape of the certificate a clean run of gopki produces for the same files, and verifies under its issuer's current certificate; complete hash-less artifacts untouched unless issuer regenerated/newer; one more default run is a no-op. states = union of canonical states over shards, transitions = operations executed on the real code (every explored transition is an implementation trace); every 40th successful run transition per worker is repeated on the built binary in a native directory, and another every 40th on a native directory whose artifact files are kept in a store directory and linked into place (links older than every file): the directory the binary leaves must abstract to the same canonical state",
		Bound:       map[string]string{"depth": "quick 3, thorough 4 (5-entity world 3; config-edit+run alphabet 5)", "entities": "3 (5 in thorough)"},
		Assumptions: []string{"nothing is demanded after a run that fails (dangling issuer etc.: C18)", "key type of re-used keys versus a clean run is not compared", "crashes are counted and left to C20"},
		Budget:      budgets(quickBudget, 50*time.Minute),
		Enumerate:   c12Enumerate,
		NewCase:     func() any { return &c12Case{} },
		Exec:        c12Exec,
		Finish: func(ev map[string]any) {
			ev["traces_note"] = "every transition executes the real implementation on simfs; traces_validated_against_impl counts the successful run transitions additionally replayed on the built CLI binary (every 40th per worker) and compared on the canonical state"
		},
	})
}
