package checks

import (
	"fmt"
	"strings"
	"time"

	"github.com/wokdav/gopki/generator/config"
	"github.com/wokdav/gopki/generator/db"
	"github.com/wokdav/gopki/generator/db/filesystem"

	"verif/mc/drive"
	"verif/mc/engine"
	"verif/mc/refcfg"
	"verif/mc/simfs"
)

// C04 — validity period in the certificate equals the configured dates or duration.

type c04Case struct {
	Kind string `json:"kind"` // year | dur | combo | one
	Zone string `json:"zone"`
	Year int    `json:"year,omitempty"`
	// dur: start date index; the worker loops over the duration grid
	Start string `json:"start,omitempty"`
	// combo: presence bit masks (1 from, 2 until, 4 duration)
	CertMask int  `json:"certMask,omitempty"`
	ProfMask int  `json:"profMask,omitempty"`
	HasProf  bool `json:"hasProf,omitempty"`
	// one (replay of a single configuration)
	V  *refcfg.Validity `json:"v,omitempty"`
	PV *refcfg.Validity `json:"pv,omitempty"`
	// one: the entity is issued by a root generated before it on a filesystem whose writes take 1.1 s,
	// so more than a second of wall-clock time lies between reading the configuration and building it
	Slow bool `json:"slow,omitempty"`
	// edit: the entity is first generated with validity V (profile PV), then the block is edited to V2 / PV2 and a default run follows
	V2  *refcfg.Validity `json:"v2,omitempty"`
	PV2 *refcfg.Validity `json:"pv2,omitempty"`
}

var c04Zones = []string{"UTC", "Europe/Berlin", "America/New_York", "Asia/Kolkata", "Pacific/Kiritimati", "Pacific/Pago_Pago", "Australia/Lord_Howe", "America/Havana"}

var c04QuickYears = []int{1950, 1999, 2000, 2024, 2049, 2050, 2100, 2200, 2262, 2263, 2400, 9998}

func c04Enumerate(tier string, yield func(any)) {
	if tier == "thorough" {
		for _, z := range []string{"Europe/Berlin", "America/Havana"} {
			for y := 1950; y <= 2200; y++ {
				yield(&c04Case{Kind: "year", Zone: z, Year: y})
			}
		}
	}
	for _, z := range c04Zones {
		for _, y := range c04QuickYears {
			if tier == "thorough" && (z == "Europe/Berlin" || z == "America/Havana") {
				continue
			}
			yield(&c04Case{Kind: "year", Zone: z, Year: y})
		}
	}
	starts := []string{"2023-01-31", "2023-02-28", "2024-02-29", "2023-03-31", "2023-12-31", "2023-06-15", "2024-01-31", "2024-02-28", "2024-03-31", "2024-12-31", "2024-06-15", "2049-12-31", ""}
	zs := []string{"UTC", "Europe/Berlin", "Australia/Lord_Howe"}
	if tier == "thorough" {
		zs = c04Zones
	}
	for _, z := range zs {
		for _, s := range starts {
			yield(&c04Case{Kind: "dur", Zone: z, Start: s})
		}
	}
	// the validity block is edited after a first run: the certificate of the next default run carries the new period
	{
		shapes := [][2]*refcfg.Validity{
			{{Until: "2031-03-17"}, {Until: "2033-11-05"}},
			{{Duration: "2y"}, {Duration: "3y1m"}},
			{{From: "2021-02-03", Until: "2031-03-17"}, {From: "2021-02-03", Until: "2033-11-05"}},
			{{From: "2021-02-03", Duration: "2y"}, {From: "2022-04-05", Duration: "2y"}},
			{{Until: "2031-03-17"}, {Duration: "4y"}},
			{nil, {Until: "2044-04-04"}},
			{{Duration: "4y"}, nil},
		}
		for _, sh := range shapes {
			yield(&c04Case{Kind: "edit", Zone: "UTC", V: sh[0], V2: sh[1]})
			yield(&c04Case{Kind: "edit", Zone: "Europe/Berlin", PV: sh[0], PV2: sh[1], HasProf: true})
		}
	}
	// time passing inside a run: relative periods on a slow filesystem
	for _, sv := range []struct {
		v, pv *refcfg.Validity
		prof  bool
	}{{&refcfg.Validity{Duration: "1y2m3d"}, nil, false}, {nil, nil, false}, {nil, &refcfg.Validity{Duration: "90d"}, true}, {&refcfg.Validity{Until: "2047-03-04"}, nil, false}} {
		yield(&c04Case{Kind: "one", Zone: "UTC", V: sv.v, PV: sv.pv, HasProf: sv.prof, Slow: true})
	}
	// library interface: the profile is registered through AddProfile (ProfMask 0: a profile without any validity,
	// 1: with a fixed period) and the entity (CertMask 0: no validity block, 3: from + until) is signed through AddAndSign
	for _, z := range []string{"UTC", "Pacific/Kiritimati"} {
		for _, pm := range []int{0, 1} {
			for _, cm := range []int{0, 3} {
				yield(&c04Case{Kind: "api", Zone: z, CertMask: cm, ProfMask: pm})
			}
		}
	}
	for _, z := range []string{"UTC", "America/New_York"} {
		for cm := 0; cm < 8; cm++ {
			yield(&c04Case{Kind: "combo", Zone: z, CertMask: cm})
			for pm := 0; pm < 8; pm++ {
				yield(&c04Case{Kind: "combo", Zone: z, CertMask: cm, ProfMask: pm, HasProf: true})
			}
		}
	}
}

func c04Mask(m int, from, until, dur string) *refcfg.Validity {
	if m == 0 {
		return nil
	}
	v := &refcfg.Validity{}
	if m&1 != 0 {
		v.From = from
	}
	if m&2 != 0 {
		v.Until = until
	}
	if m&4 != 0 {
		v.Duration = dur
	}
	return v
}

// c04API: the inheritance and default clauses through the library: a profile object without validity (or with a fixed
// period) is registered with AddProfile, the stored entity is pointed at it and signed with AddAndSign.
func c04API(x *engine.Ctx, c *c04Case) {
	ent := &refcfg.CertCfg{Path: "ent.yaml", Subject: "CN=api validity", KeyAlg: "P-224", Validity: c04Mask(c.CertMask, "2031-03-04", "2033-05-06", "")}
	d := &Dir{Certs: []*refcfg.CertCfg{ent}}
	w := simfs.New(simfs.TickPerWrite)
	d.Render(w)
	w.Put("ent.pem", FixtureKeyPEM("P-224-0"))
	fsdb := filesystem.NewFilesystemDatabase(w)
	w.BeginRun(nil)
	if err := fsdb.Open(); err != nil {
		x.Violation("C04/api/open-failed", err.Error())
		return
	}
	defer fsdb.Close()
	x.Nontrivial(fmt.Sprintf("api %s %d %d", c.Zone, c.CertMask, c.ProfMask))
	prof := config.CertificateProfile{Name: "registered"}
	pFrom, pUntil := time.Date(2030, 1, 2, 0, 0, 0, 0, time.UTC), time.Date(2034, 5, 6, 0, 0, 0, 0, time.UTC)
	if c.ProfMask == 1 {
		prof.Validity = config.CertificateValidity{From: pFrom, Until: pUntil, IsStatic: true, IsSet: true}
	}
	if err := fsdb.AddProfile(prof); err != nil {
		x.Violation("C04/api/add-profile-failed", err.Error())
		return
	}
	cfg, err := fsdb.GetConfig("ent")
	if err != nil || cfg == nil {
		x.Violation("C04/api/no-config", fmt.Sprint(err))
		return
	}
	nc := *cfg
	nc.Profile = "registered"
	t0 := time.Now()
	var aerr error
	var panicked string
	func() {
		defer func() {
			if r := recover(); r != nil {
				panicked = fmt.Sprint(r)
			}
		}()
		_, aerr = db.AddAndSign(fsdb, nc, true)
	}()
	t1 := time.Now()
	x.Transition(1)
	if panicked != "" || aerr != nil {
		x.Violation("C04/api/signing-failed", fmt.Sprintf("%v %s", aerr, panicked))
		return
	}
	a := ReadArtifact(w, "ent.yaml")
	if a.Cert == nil {
		x.Violation("C04/api/no-certificate", fmt.Sprint(a.CertErr))
		return
	}
	nb, na := a.Cert.NotBefore.T, a.Cert.NotAfter.T
	what := fmt.Sprintf("entity validity block: %s; profile registered through AddProfile %s", map[int]string{0: "none", 3: "from 2031-03-04 until 2033-05-06"}[c.CertMask], map[int]string{0: "without validity", 1: "with 2030-01-02 .. 2034-05-06"}[c.ProfMask])
	switch {
	case c.CertMask == 3:
		wf, wu := time.Date(2031, 3, 4, 0, 0, 0, 0, time.Local), time.Date(2033, 5, 6, 0, 0, 0, 0, time.Local)
		if !nb.Equal(wf) || !na.Equal(wu) {
			x.Violation("C04/api/own-validity-not-used", fmt.Sprintf("%s: certificate has %s .. %s", what, nb.UTC(), na.UTC()))
		}
	case c.ProfMask == 1:
		if !nb.Equal(pFrom) || !na.Equal(pUntil) {
			x.Violation("C04/api/profile-validity-not-inherited", fmt.Sprintf("%s: certificate has %s .. %s", what, nb.UTC(), na.UTC()))
		}
	default:
		if nb.Before(t0.Add(-2*time.Second)) || nb.After(t1.Add(2*time.Second)) {
			x.Violation("C04/api/default-notBefore-is-not-the-run-time", fmt.Sprintf("%s: notBefore %s, signed between %s and %s", what, nb.UTC(), t0.UTC(), t1.UTC()))
		} else if !na.Equal(nb.AddDate(5, 0, 0)) {
			x.Violation("C04/api/default-lifetime-is-not-five-years", fmt.Sprintf("%s: %s .. %s", what, nb.UTC(), na.UTC()))
		}
	}
	x.Outcome("api validity compared")
}

func c04Exec(x *engine.Ctx, cc any) {
	c := cc.(*c04Case)
	loc, err := time.LoadLocation(c.Zone)
	if err != nil {
		x.Cap("zone not loadable: " + c.Zone)
		return
	}
	time.Local = loc
	switch c.Kind {
	case "edit":
		c04Edit(x, c)
	case "api":
		c04API(x, c)
	case "one":
		c04OneSlow(x, c.Zone, c.V, c.PV, c.HasProf, c.Slow)
	case "year":
		var n int64
		for m := 1; m <= 12; m++ {
			for d := 1; d <= 31; d++ {
				date := fmt.Sprintf("%04d-%02d-%02d", c.Year, m, d)
				if _, _, _, ok := refcfg.ParseDate(date); !ok {
					continue
				}
				c04One(x, c.Zone, &refcfg.Validity{From: date, Duration: "1y", Unquoted: d%2 == 0}, nil, false)
				c04One(x, c.Zone, &refcfg.Validity{Until: date, Unquoted: d%2 == 1}, nil, false)
				n += 2
			}
		}
		x.Eval(n - 1)
	case "dur":
		var n int64
		// leading zeros are part of the schema's [0-9]+ (and must be read as decimal)
		ys := []string{"", "0y", "1y", "5y", "25y", "100y", "010y", "08y"}
		ms := []string{"", "0m", "1m", "11m", "12m", "13m", "25m", "09m", "0012m"}
		ds := []string{"", "0d", "1d", "28d", "31d", "365d", "366d", "1000d", "0030d", "08d"}
		for _, y := range ys {
			for _, m := range ms {
				for _, d := range ds {
					dur := y + m + d
					if dur == "" {
						continue
					}
					c04One(x, c.Zone, &refcfg.Validity{From: c.Start, Duration: dur}, nil, false)
					n++
				}
			}
		}
		x.Eval(n - 1)
	case "combo":
		v := c04Mask(c.CertMask, "2021-03-03", "2031-04-04", "2y3m4d")
		pv := c04Mask(c.ProfMask, "2022-05-05", "2032-06-06", "7y")
		c04One(x, c.Zone, v, pv, c.HasProf)
	}
}

func c04Text(v *refcfg.Validity) string {
	if v == nil {
		return "none"
	}
	return fmt.Sprintf("{from:%s until:%s duration:%s}", v.From, v.Until, v.Duration)
}

func c04One(x *engine.Ctx, zone string, v, pv *refcfg.Validity, hasProf bool) {
	c04OneSlow(x, zone, v, pv, hasProf, false)
}

func c04OneSlow(x *engine.Ctx, zone string, v, pv *refcfg.Validity, hasProf, slow bool) {
	replay := &c04Case{Kind: "one", Zone: zone, V: v, PV: pv, HasProf: hasProf, Slow: slow}
	cfg := &refcfg.CertCfg{Path: "ent.yaml", Subject: "CN=validity", KeyAlg: "P-224", Validity: v}
	d := &Dir{Certs: []*refcfg.CertCfg{cfg}}
	if slow {
		cfg.Issuer = "aroot"
		d.Certs = []*refcfg.CertCfg{{Path: "aroot.yaml", Subject: "CN=slow root", KeyAlg: "P-224"}, cfg}
	}
	var prof *refcfg.ProfileCfg
	if hasProf {
		prof = &refcfg.ProfileCfg{Path: "prof.yaml", Name: "p", Validity: pv}
		d.Profiles = append(d.Profiles, prof)
		cfg.Profile = "p"
	}
	x.Nontrivial(zone + c04Text(v) + c04Text(pv) + fmt.Sprint(hasProf, slow))
	feature := refcfg.ValidityFeature(refcfg.EffectiveValidity(cfg, prof), cfg, prof)
	// invalid blocks must be rejected by the parser
	wOwn := refcfg.RefWindow(v, time.Local)
	wProf := refcfg.RefWindow(pv, time.Local)
	_, perr := config.ParseConfig(strings.NewReader(string(cfg.YAML())))
	if wOwn.Err != nil {
		x.Outcome("own block invalid")
		if perr == nil {
			x.ViolationCase("C04/invalid-block-accepted "+c04MaskName(v), fmt.Sprintf("validity %s is invalid (%v) but ParseConfig accepted it", c04Text(v), wOwn.Err), replay)
		}
		return
	}
	if perr != nil {
		x.ViolationCase("C04/valid-block-rejected "+feature, fmt.Sprintf("validity %s rejected: %v", c04Text(v), perr), replay)
		return
	}
	if hasProf && wProf.Err != nil {
		x.Outcome("profile block invalid")
		if _, err := config.ParseConfig(strings.NewReader(string(prof.YAML()))); err == nil {
			x.ViolationCase("C04/invalid-block-accepted profile "+c04MaskName(pv), fmt.Sprintf("profile validity %s is invalid but ParseConfig accepted it", c04Text(pv)), replay)
		}
		return
	}
	g := Generate(d, func(w *simfs.World) {
		w.Put("ent.pem", FixtureKeyPEM("P-224-0"))
		if slow {
			w.Put("aroot.pem", FixtureKeyPEM("P-224-1"))
			w.WriteDelay = 1100 * time.Millisecond
		}
	}, drive.Default)
	if slow {
		feature += " slow-filesystem"
	}
	if g.Res.Panic != "" {
		x.ViolationCase("C04/panic/"+g.Res.PanicSite, g.Res.Panic, replay)
		return
	}
	if !g.Res.OK() {
		x.ViolationCase("C04/run-failed "+feature, fmt.Sprintf("validity %s profile %s: %v", c04Text(v), c04Text(pv), g.Res.Err()), replay)
		return
	}
	diffs, a, err := g.CompareEntity(d, "ent", "")
	if err != nil {
		x.ViolationCase("C04/no-certificate "+feature, fmt.Sprintf("validity %s profile %s (zone %s): %v", c04Text(v), c04Text(pv), zone, err), replay)
		return
	}
	for _, df := range diffs {
		if df.Owner == "C04" {
			cls := df.Class
			if slow {
				cls += " slow-filesystem"
			}
			x.ViolationCase(cls, fmt.Sprintf("zone %s, validity %s, profile %s: %s", zone, c04Text(v), c04Text(pv), df.Detail), replay)
		}
	}
	_ = a
	x.Outcome("compared " + strings.SplitN(feature, " ", 2)[0])
}

// c04Edit: first run with V/PV, then the validity block (of the certificate or of its profile) is edited and
// the default run must issue a certificate for the new block.
func c04Edit(x *engine.Ctx, c *c04Case) {
	cfg := &refcfg.CertCfg{Path: "ent.yaml", Subject: "CN=validity", KeyAlg: "P-224", Validity: c.V}
	d := &Dir{Certs: []*refcfg.CertCfg{cfg}}
	var prof *refcfg.ProfileCfg
	if c.HasProf {
		prof = &refcfg.ProfileCfg{Path: "prof.yaml", Name: "p", Validity: c.PV, Exts: []refcfg.Ext{{Kind: refcfg.KOCSP}}}
		d.Profiles = append(d.Profiles, prof)
		cfg.Profile = "p"
	}
	feat := fmt.Sprintf("edit %s -> %s / profile %s -> %s", c04Text(c.V), c04Text(c.V2), c04Text(c.PV), c04Text(c.PV2))
	x.Nontrivial(c.Zone + feat)
	g := Generate(d, func(w *simfs.World) { w.Put("ent.pem", FixtureKeyPEM("P-224-0")) }, drive.Default)
	if !g.Res.OK() {
		x.Violation("C04/edit/first-run-failed", fmt.Sprintf("%s: %v %s", feat, g.Res.Err(), g.Res.Panic))
		return
	}
	if c.HasProf {
		prof.Validity = c.PV2
		g.W.Put(prof.Path, prof.YAML())
	} else {
		cfg.Validity = c.V2
		g.W.Put(cfg.Path, cfg.YAML())
	}
	g2 := &GenResult{W: g.W, Before: g.W.Clone()}
	g2.RunStart = time.Now().Unix()
	g2.Res = drive.Run(g.W, drive.Default, nil)
	g2.RunEnd = time.Now().Unix()
	if !g2.Res.OK() {
		x.Violation("C04/edit/second-run-failed", fmt.Sprintf("%s: %v %s", feat, g2.Res.Err(), g2.Res.Panic))
		return
	}
	in := "own"
	if c.HasProf {
		in = "profile"
	}
	if !g2.Res.Planned("ent") {
		x.Violation("C04/edit/"+in+"-validity-edit-not-issued", fmt.Sprintf("%s: the default run after the edit issues nothing (plan %v), so the certificate keeps the old period", feat, g2.Res.PlanAliases()))
		return
	}
	diffs, _, err := g2.CompareEntity(d, "ent", "")
	if err != nil {
		x.Violation("C04/edit/no-certificate", err.Error())
		return
	}
	for _, df := range diffs {
		if df.Owner == "C04" {
			x.Violation(strings.Replace(df.Class, "C04/", "C04/edit/", 1), fmt.Sprintf("%s: %s", feat, df.Detail))
		}
	}
	x.Outcome("edited validity compared")
}

func c04MaskName(v *refcfg.Validity) string {
	if v == nil {
		return "none"
	}
	var p []string
	if v.From != "" {
		p = append(p, "from")
	}
	if v.Until != "" {
		p = append(p, "until")
	}
	if v.Duration != "" {
		p = append(p, "duration")
	}
	return strings.Join(p, "+")
}

func init() {
	register(&engine.Check{
		ID:          "C04",
		Level:       "exploration",
		Rule:        "every calendar date of the years {1950,1999,2000,2024,2049,2050,2100,2200,2262,2263,2400,9998} (quick) / of every year 1950..2200 in two zones (thorough) as `from` (with duration 1y) and as `until`, in 8 local time zones (UTC, Berlin, New York, Kolkata, Kiritimati +14, Pago Pago -11, Lord Howe 30-minute DST, Havana DST at midnight); duration grid y{-,0,1,5,25,100,010,08} x m{-,0,1,11,12,13,25,09,0012} x d{-,0,1,28,31,365,366,1000,0030,08} (leading zeros are decimal) from 12 month-end / leap-day start dates and from the run time; all 8 x (1+8) presence combinations of from/until/duration in certificate and profile. Each through a whole gopki run with an existing P-224 key; oracle = own proleptic-Gregorian arithmetic for local midnight and calendar addition, UTCTime/GeneralizedTime by year, inheritance rule. non-trivial = distinct (zone, block, profile block); and four relative shapes (duration only, nothing, profile duration, until only) for an entity issued after its root on a filesystem whose writes take 1.1 s, so that the reading of the configuration and the building of the certificate fall into different seconds (notAfter must still be notBefore plus the duration exactly); and 14 edits of the validity block (own and inherited; until, duration, from+until, from+duration, shape changes) after a first run, followed by a default run whose certificate must carry the new period; through the library (two zones): a profile object without validity or with a fixed period registered with AddProfile x an entity without validity block or with from + until, signed with AddAndSign - own block, inherited period, or run time + five years",
		Bound:       map[string]string{"dates": "quick 12 years x 8 zones; thorough 1950-2200 x 2 zones + 12 years x 6 zones"},
		Assumptions: []string{"the zone offset tables of Go's embedded tzdata are trusted; in a DST gap/overlap at local midnight either offset is accepted", "without `from`, notBefore must lie within the measured run interval +-1 s", "calendar-invalid dates are only required not to crash (C20)"},
		Budget:      budgets(quickBudget, thoroughBudget),
		Enumerate:   c04Enumerate,
		NewCase:     func() any { return &c04Case{} },
		Exec:        c04Exec,
	})
}
