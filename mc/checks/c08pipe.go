package checks

import (
	"bytes"
	"fmt"

	"verif/mc/drive"
	"verif/mc/engine"
	"verif/mc/refcfg"
	"verif/mc/refder"
	"verif/mc/refx509"
)

// File-pipeline part of C08: real extension kinds, rendered to YAML, generated.

type c08PE struct {
	E   int  `json:"e"` // index into c08Alphabet
	Opt bool `json:"opt,omitempty"`
	Ovr bool `json:"ovr,omitempty"`
}

type c08Pipe struct {
	Prof []c08PE `json:"prof"`
	Cert []int   `json:"cert"`
}

func c08Alphabet() []refcfg.Ext {
	kuOID := refcfg.KindOID[refcfg.KKU]
	return []refcfg.Ext{
		{Kind: refcfg.KKU, KU: refcfg.Strs("digitalSignature")},
		{Kind: refcfg.KKU, KU: refcfg.Strs("keyCertSign")},
		{Kind: refcfg.KSAN, SAN: &[]refcfg.GeneralName{{Type: "dns", Name: "a.example"}}},
		{Kind: refcfg.KCustom, CustomOID: kuOID, Raw: refcfg.Bin([]byte{4, 1, 0xaa})},
		{Kind: refcfg.KBC}, // content-less: must be overridden
	}
}

func c08PipeEnumerate(tier string, yield func(any)) {
	maxP, maxC := 2, 2
	if tier == "thorough" {
		maxP = 3
	}
	n := len(c08Alphabet())
	var pents []c08PE
	for e := 0; e < n; e++ {
		for _, o := range []bool{false, true} {
			for _, v := range []bool{false, true} {
				pents = append(pents, c08PE{e, o, v})
			}
		}
	}
	var certLists [][]int
	var crec func(cur []int)
	crec = func(cur []int) {
		certLists = append(certLists, append([]int{}, cur...))
		if len(cur) == maxC {
			return
		}
		for e := 0; e < n; e++ {
			crec(append(cur, e))
		}
	}
	crec(nil)
	var prec func(cur []c08PE)
	prec = func(cur []c08PE) {
		for _, cl := range certLists {
			yield(&c08Case{Pipe: &c08Pipe{Prof: append([]c08PE{}, cur...), Cert: cl}})
		}
		if len(cur) == maxP {
			return
		}
		for _, e := range pents {
			prec(append(cur, e))
		}
	}
	prec(nil)
}

// sameExt: does the emitted extension carry entry e (ignoring criticality and
// the bit-string padding form, which C06/C07 own)?
func c08SameExt(e *refcfg.Ext, got refx509.Ext) bool {
	if got.OID != e.OID() {
		return false
	}
	body, _, err := refcfg.Body(e, refcfg.BodyCtx{})
	if err != nil {
		return false
	}
	if e.Kind == refcfg.KKU && e.Raw == nil {
		tw, e1 := refder.ReadAll(body)
		tg, e2 := refder.ReadAll(got.Value)
		if e1 != nil || e2 != nil || len(tw.Content) < 2 || len(tg.Content) < 2 {
			return false
		}
		return tw.Content[1] == tg.Content[1]
	}
	return bytes.Equal(body, got.Value)
}

func c08PipeExec(x *engine.Ctx, p *c08Pipe) {
	alpha := c08Alphabet()
	prof := &refcfg.ProfileCfg{Path: "prof.yaml", Name: "p"}
	for _, pe := range p.Prof {
		e := alpha[pe.E]
		if pe.Opt {
			e.Optional = refcfg.B(true)
		}
		if pe.Ovr {
			e.Override = refcfg.B(true)
		}
		prof.Exts = append(prof.Exts, e)
	}
	cfg := &refcfg.CertCfg{Path: "ent.yaml", Subject: "CN=ent", KeyAlg: "P-224", Profile: "p"}
	for _, ce := range p.Cert {
		cfg.Exts = append(cfg.Exts, alpha[ce])
	}
	d := &Dir{Certs: []*refcfg.CertCfg{cfg}, Profiles: []*refcfg.ProfileCfg{prof}}
	g := Generate(d, nil, drive.Default)
	x.Transition(1)
	x.NontrivialN(1)
	if g.Res.Panic != "" {
		x.Violation("C08/panic/"+g.Res.PanicSite, g.Res.Panic)
		return
	}
	eff := refcfg.EffectiveExts(cfg, prof)
	contentless := false
	for i := range eff {
		if !eff[i].HasContent() {
			contentless = true
		}
	}
	desc := func() string {
		return fmt.Sprintf("profile %s\ncertificate %s", refcfg.YAML(prof.Tree()), refcfg.YAML(cfg.Tree()))
	}
	a := ReadArtifact(g.W, cfg.Path)
	if contentless {
		x.Outcome("contentless-survivor")
		if g.Res.OK() {
			x.Violation("C08/pipeline/contentless-extension-not-refused", "a profile extension without content remains in the effective list but the run succeeded\n"+desc())
		}
		if a.Exists {
			x.Violation("C08/pipeline/file-written-despite-contentless", "artifact written although generation must fail\n"+desc())
		}
		return
	}
	if !g.Res.OK() {
		x.Outcome("unexpected-error")
		x.Violation("C08/pipeline/run-failed", fmt.Sprintf("effective list is fully defined but the run failed: %v\n%s", g.Res.Err(), desc()))
		return
	}
	if a.Cert == nil {
		x.Violation("C08/pipeline/no-certificate", fmt.Sprintf("%v", a.CertErr))
		return
	}
	x.Outcome(fmt.Sprintf("merged len=%d", len(eff)))
	ok := len(eff) == len(a.Cert.Exts)
	if ok {
		for i := range eff {
			if !c08SameExt(&eff[i], a.Cert.Exts[i]) {
				ok = false
			}
		}
	}
	if !ok {
		var got []string
		for _, e := range a.Cert.Exts {
			got = append(got, fmt.Sprintf("%s:%x", e.OID, e.Value))
		}
		var want []string
		for i := range eff {
			b, _, _ := refcfg.Body(&eff[i], refcfg.BodyCtx{})
			want = append(want, fmt.Sprintf("%s:%x", eff[i].OID(), b))
		}
		x.Violation("C08/pipeline/extension-list-differs-from-reference-merge", fmt.Sprintf("certificate has %v\nreference merge gives %v\n%s", got, want, desc()))
	}
	c08Shared(x, prof, cfg, desc)
}

// c08Shared: the same profile serves three certificates in one run - one that inherits everything
// (alias sorts before), the one under test, and one with the certificate list reversed (alias sorts
// after). Each must get the reference merge of ITS list with the profile as written in the file:
// a merge that writes into the shared profile shows up in the certificates processed later.
func c08Shared(x *engine.Ctx, prof *refcfg.ProfileCfg, cfg *refcfg.CertCfg, desc func() string) {
	first := &refcfg.CertCfg{Path: "a-first.yaml", Subject: "CN=first", KeyAlg: "P-224", Profile: "p"}
	last := &refcfg.CertCfg{Path: "z-last.yaml", Subject: "CN=last", KeyAlg: "P-224", Profile: "p"}
	for i := len(cfg.Exts) - 1; i >= 0; i-- {
		last.Exts = append(last.Exts, cfg.Exts[i])
	}
	all := []*refcfg.CertCfg{first, cfg, last}
	for _, c := range all {
		eff := refcfg.EffectiveExts(c, prof)
		for i := range eff {
			if !eff[i].HasContent() {
				return // some member cannot be generated: the single-certificate case above covers the refusal
			}
		}
	}
	d := &Dir{Certs: all, Profiles: []*refcfg.ProfileCfg{prof}}
	g := Generate(d, nil, drive.Default)
	x.Transition(1)
	if g.Res.Panic != "" {
		x.Violation("C08/panic/"+g.Res.PanicSite, g.Res.Panic)
		return
	}
	if !g.Res.OK() {
		x.Violation("C08/pipeline/shared-profile-run-failed", fmt.Sprintf("every effective list is fully defined but the run failed: %v\n%s", g.Res.Err(), desc()))
		return
	}
	for _, c := range all {
		eff := refcfg.EffectiveExts(c, prof)
		a := ReadArtifact(g.W, c.Path)
		if a.Cert == nil {
			x.Violation("C08/pipeline/no-certificate", fmt.Sprintf("%s: %v", c.Path, a.CertErr))
			continue
		}
		ok := len(eff) == len(a.Cert.Exts)
		for i := 0; ok && i < len(eff); i++ {
			ok = c08SameExt(&eff[i], a.Cert.Exts[i])
		}
		if !ok {
			x.Violation("C08/pipeline/shared-profile/extension-list-differs-from-reference-merge", fmt.Sprintf("%s, one of three certificates of the same profile in one run, does not carry the reference merge of its own list\n%s", c.Path, desc()))
		}
	}
	x.Outcome("shared profile compared")
}
