package checks

import (
	"fmt"
	"time"

	"github.com/wokdav/gopki/generator/db"

	"verif/mc/drive"
	"verif/mc/engine"
	"verif/mc/refcfg"
	"verif/mc/refx509"
	"verif/mc/simfs"
)

// GenResult is one gopki run over a rendered directory plus the decoded output.
type GenResult struct {
	W        *simfs.World
	Before   *simfs.World
	Res      drive.Result
	RunStart int64
	RunEnd   int64
}

// Generate renders d into a fresh world (pre may add artifacts), runs gopki once.
func Generate(d *Dir, pre func(w *simfs.World), strat db.UpdateStrategy) *GenResult {
	w := simfs.New(simfs.TickPerWrite)
	d.Render(w)
	if pre != nil {
		pre(w)
	}
	g := &GenResult{W: w, Before: w.Clone()}
	g.RunStart = time.Now().Unix()
	g.Res = drive.Run(w, strat, nil)
	g.RunEnd = time.Now().Unix()
	return g
}

// CompareEntity decodes alias' artifact and compares it with the reference
// translation. wantKey: see refcfg.CmpIn.WantKeyAlg.
func (g *GenResult) CompareEntity(d *Dir, alias string, wantKey string) ([]refcfg.Diff, *Artifact, error) {
	cfg := d.Cert(alias)
	a := ReadArtifact(g.W, cfg.Path)
	if a.Cert == nil {
		return nil, a, fmt.Errorf("no decodable certificate for %s: exists=%v err=%v", alias, a.Exists, a.CertErr)
	}
	var issuer *refx509.Cert
	var issuerReal *refx509.PublicKey
	if cfg.Issuer != "" {
		ic := d.Cert(cfg.Issuer)
		if ic != nil {
			ia := ReadArtifact(g.W, ic.Path)
			issuer = ia.Cert
			if ic.Manip != nil && (ic.Manip.TbsPubKey != nil || ic.Manip.TbsPubKeyAlg != nil) && ia.Pem != nil && ia.Pem.KeyDER != nil {
				// the issuer's certificate does not show its real key: signatures are made with the key on disk
				if k, err := refx509.ParsePKCS8(ia.Pem.KeyDER); err == nil {
					issuerReal = k.Public()
				}
			}
		}
		if issuer == nil {
			return nil, a, fmt.Errorf("issuer %s of %s has no decodable certificate", cfg.Issuer, alias)
		}
	}
	var prof *refcfg.ProfileCfg
	if cfg.Profile != "" {
		prof = d.Profile(cfg.Profile)
	}
	in := refcfg.CmpIn{Cfg: cfg, Prof: prof, Cert: a.Cert, Issuer: issuer, Loc: time.Local, RunStart: g.RunStart, RunEnd: g.RunEnd, WantKeyAlg: wantKey, IssuerRealKey: issuerReal}
	return refcfg.Compare(in), a, nil
}

// reportOwned turns the diffs owned by owner into violations; diffs owned by
// other properties are tallied only (their own checks report them).
func reportOwned(x *engine.Ctx, owner string, diffs []refcfg.Diff) int {
	n := 0
	for _, d := range diffs {
		if d.Owner == owner {
			x.Violation(d.Class, d.Detail)
			n++
		} else {
			x.Info("diffs_owned_by_"+d.Owner, 1)
		}
	}
	return n
}

// wantKeyFor: the key algorithm the SPKI of a freshly generated key must show.
func wantKeyFor(c *refcfg.CertCfg) string {
	if c.KeyAlg == "" {
		return "default"
	}
	return c.KeyAlg
}
