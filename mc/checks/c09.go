package checks

import (
	"crypto/x509/pkix"
	"fmt"
	"strings"

	"github.com/wokdav/gopki/generator/config"
	"github.com/wokdav/gopki/generator/db"
	"github.com/wokdav/gopki/generator/db/filesystem"

	"verif/mc/drive"
	"verif/mc/engine"
	"verif/mc/refcfg"
	"verif/mc/simfs"
)

// C09 — profile subject constraints are enforced, and only those.

type c09Case struct {
	// pipe: a second profile whose name differs from the first only in letter case ("P") and which has no subject rules; 1: its file is read after, 2: before the profile under test
	Twin int `json:"twin,omitempty"`
	// pipe: 1 the profile file, 2 the constrained entity's configuration file, 3 both are symbolic links to files kept in another directory (binary, native directory)
	Linked     int      `json:"linked,omitempty"`
	Kind       string   `json:"kind"` // "pure" | "pipe"
	HasList    bool     `json:"hasList"`
	Attrs      []string `json:"attrs"`
	Optional   []bool   `json:"optional"`
	AllowOther bool     `json:"allowOther"`
	MaxSubj    int      `json:"maxSubj,omitempty"`
	Alpha      int      `json:"alpha,omitempty"` // which pair of alphabets the subjects are drawn from (c09Alphabets)
	// replay of one pure pair / pipeline
	Subject []string `json:"subject,omitempty"`
	Pos     int      `json:"pos,omitempty"`
	// pipe: Settled = the directory was first generated under a profile of the same name without subject rules,
	// then the profile file is replaced by the one under test and the run uses strategy Strat (0 = default flags)
	Settled bool `json:"settled,omitempty"`
	Strat   int  `json:"strat,omitempty"`
	// pipe: ReadFault > 0 = reading the profile file breaks off with an I/O error after ReadFault-1 bytes
	ReadFault int `json:"readFault,omitempty"`
	// pipe: Big > 0 = a comment block of that many bytes stands in the profile file, in front of its subject rules (1) or of its first line (2)
	Big    int `json:"big,omitempty"`
	BigPos int `json:"bigPos,omitempty"`
}

var c09Alphabet = []string{"CN", "O", "C", "1.2.3.4"}
var c09SubjAlphabet = []string{"CN", "O", "C", "1.2.3.4", "L"}

// second pair of alphabets: two different custom OIDs next to one short name
var c09Alphabet2 = []string{"1.2.3.4", "2.5.4.97", "CN"}
var c09SubjAlphabet2 = []string{"1.2.3.4", "2.5.4.97", "CN", "L"}

func c09Subjects(alpha, maxLen int, f func(s []string)) {
	subjAlphabet := c09SubjAlphabet
	if alpha == 1 {
		subjAlphabet = c09SubjAlphabet2
	}
	var rec func(cur []string)
	rec = func(cur []string) {
		f(cur) // the empty subject (reachable through the library interface only) included
		if len(cur) == maxLen {
			return
		}
		for _, a := range subjAlphabet {
			rec(append(cur, a))
		}
	}
	rec(nil)
}

func c09Enumerate(tier string, yield func(any)) {
	maxP, maxS := 4, 5 // measured: the full product takes a few seconds, so quick runs it too
	// nil list
	yield(&c09Case{Kind: "pure", HasList: false, MaxSubj: maxS})
	var rec func(attrs []string, opt []bool)
	rec = func(attrs []string, opt []bool) {
		for _, ao := range []bool{false, true} {
			yield(&c09Case{Kind: "pure", HasList: true, Attrs: append([]string{}, attrs...), Optional: append([]bool{}, opt...), AllowOther: ao, MaxSubj: maxS})
		}
		if len(attrs) == maxP {
			return
		}
		for _, a := range c09Alphabet {
			for _, o := range []bool{false, true} {
				rec(append(attrs, a), append(opt, o))
			}
		}
	}
	rec(nil, nil)
	// the same over the second pair of alphabets (two custom OIDs)
	var rec2 func(attrs []string, opt []bool)
	rec2 = func(attrs []string, opt []bool) {
		if len(attrs) > 0 {
			for _, ao := range []bool{false, true} {
				yield(&c09Case{Kind: "pure", HasList: true, Attrs: append([]string{}, attrs...), Optional: append([]bool{}, opt...), AllowOther: ao, MaxSubj: maxS, Alpha: 1})
			}
		}
		if len(attrs) == maxP {
			return
		}
		for _, a := range c09Alphabet2 {
			for _, o := range []bool{false, true} {
				rec2(append(attrs, a), append(opt, o))
			}
		}
	}
	rec2(nil, nil)
	// pipeline
	profs := []c09Case{
		{Attrs: []string{"CN"}, Optional: []bool{false}},
		{Attrs: []string{"CN", "O"}, Optional: []bool{false, true}},
		{Attrs: []string{"C", "O", "CN"}, Optional: []bool{false, false, false}},
		{Attrs: []string{"C", "O", "CN"}, Optional: []bool{true, true, false}},
		{Attrs: []string{"CN"}, Optional: []bool{false}, AllowOther: true},
		{Attrs: []string{"O", "CN"}, Optional: []bool{true, false}, AllowOther: true},
		{Attrs: []string{"L", "SERIALNUMBER"}, Optional: []bool{false, true}},
	}
	subjs := [][]string{{"CN"}, {"O", "CN"}, {"CN", "O"}, {"C", "O", "CN"}, {"L", "CN"}, {"C", "CN"}, {"O"}, {"L"}, {"L", "SERIALNUMBER"}}
	// the profile file cannot be read to its end: whatever arrived, the forbidden subject is not certified
	for _, rf := range []struct {
		p c09Case
		s []string
	}{{profs[2], []string{"O", "CN"}}, {profs[0], []string{"O"}}, {profs[6], []string{"CN"}}} {
		for off := 0; off <= 160; off++ {
			c := rf.p
			c.Kind, c.HasList, c.Subject, c.Pos, c.ReadFault = "pipe", true, rf.s, 0, off+1
			cc := c
			yield(&cc)
		}
	}
	for _, p := range profs {
		for _, s := range subjs {
			ca := p
			ca.Kind, ca.HasList, ca.Subject = "api", true, s
			yield(&ca)
			if len(p.Attrs) == 1 && !p.AllowOther && p.Attrs[0] == "CN" {
				// ... and a profile without any subject rules
				yield(&c09Case{Kind: "api", HasList: false, Subject: s})
			}
			for pos := 0; pos < 3; pos++ {
				c := p
				c.Kind, c.HasList, c.Subject, c.Pos = "pipe", true, s, pos
				cc := c
				yield(&cc)
				// the same with a large profile file (a long comment in front of the rules or at the top)
				for _, big := range []int{60 << 10, 80 << 10, 300 << 10} {
					for bp := 1; bp <= 2; bp++ {
						c3 := c
						c3.Big, c3.BigPos = big, bp
						yield(&c3)
					}
				}
				for _, st := range []int{0, 1, 15, 16} {
					c2 := c
					c2.Settled, c2.Strat = true, st
					yield(&c2)
				}
				for l := 1; l <= 3; l++ {
					c4 := c
					c4.Linked = l
					yield(&c4)
				}
				for tw := 1; tw <= 2; tw++ {
					c5 := c
					c5.Twin = tw
					yield(&c5)
				}
			}
		}
	}
}

func c09Profile(c *c09Case) config.CertificateProfile {
	p := config.CertificateProfile{Name: "p"}
	p.SubjectAttributes.AllowOther = c.AllowOther
	if c.HasList {
		p.SubjectAttributes.Attributes = []config.ProfileSubjectAttribute{}
		for i, a := range c.Attrs {
			p.SubjectAttributes.Attributes = append(p.SubjectAttributes.Attributes, config.ProfileSubjectAttribute{Attribute: a, Optional: c.Optional[i]})
		}
	}
	return p
}

func c09SubjectString(s []string) string {
	parts := make([]string, len(s))
	for i, k := range s {
		parts[i] = fmt.Sprintf("%s=v%d", k, i)
	}
	return strings.Join(parts, ",")
}

func c09Model(c *c09Case, subj []string) (bool, bool, string) {
	attrs := make([]refcfg.SubjAttr, len(c.Attrs))
	for i, a := range c.Attrs {
		attrs[i] = refcfg.SubjAttr{Attribute: a, Optional: refcfg.B(c.Optional[i])}
	}
	oids := make([]string, len(subj))
	for i, k := range subj {
		oids[i], _ = refcfg.AttrOID(k)
	}
	want, definite := refcfg.RefValidate(attrs, c.HasList, c.AllowOther, oids)
	reason := "accept"
	if !want {
		// which clause
		if a, _ := refcfg.RefValidate(attrs, c.HasList, true, oids); !a {
			reason = "required-missing"
		} else {
			reason = "not-an-in-order-selection"
		}
	}
	return want, definite, reason
}

func c09Class(want, got bool, reason string, allowOther bool) string {
	if want && !got {
		return fmt.Sprintf("C09/validate/rejects a subject the profile allows allowOther=%v", allowOther)
	}
	return fmt.Sprintf("C09/validate/accepts a subject the profile forbids reason=%s allowOther=%v", reason, allowOther)
}

func c09Exec(x *engine.Ctx, cc any) {
	c := cc.(*c09Case)
	if c.Kind == "pipe" {
		c09Pipe(x, c)
		return
	}
	if c.Kind == "api" {
		c09API(x, c)
		return
	}
	prof := c09Profile(c)
	one := func(s []string) {
		rdn, err := config.ParseRDNSequence(c09SubjectString(s))
		if len(s) == 0 {
			rdn, err = pkix.RDNSequence{}, nil
		}
		if err != nil {
			x.Violation("C09/parse-subject", err.Error())
			return
		}
		content := config.CertificateContent{Subject: append(pkix.RDNSequence{}, rdn...)}
		got := config.Validate(prof, content)
		// a second look at the same certificate (a caller that plans again) must give the same verdict; a verdict
		// that leaves the subject in another order is noted, and reported when it changes what the second look says
		if again := config.Validate(prof, content); again != got {
			x.ViolationCase("C09/validate/second-verdict-differs",
				fmt.Sprintf("profile attrs=%v optional=%v allowOther=%v, subject %q: first verdict %v, second verdict on the same objects %v (the subject now reads %v)", c.Attrs, c.Optional, c.AllowOther, c09SubjectString(s), got, again, content.Subject),
				&c09Case{Kind: "pure", HasList: c.HasList, Attrs: c.Attrs, Optional: c.Optional, AllowOther: c.AllowOther, Subject: s})
		}
		// the profile is shared by every certificate that names it: a verdict must not alter it
		changed := len(prof.SubjectAttributes.Attributes) != len(c.Attrs) && c.HasList
		for i := 0; !changed && c.HasList && i < len(c.Attrs); i++ {
			a := prof.SubjectAttributes.Attributes[i]
			changed = a.Attribute != c.Attrs[i] || a.Optional != c.Optional[i]
		}
		if changed {
			x.ViolationCase("C09/validate/alters-the-profile-it-checks",
				fmt.Sprintf("profile attrs=%v optional=%v allowOther=%v: after validating subject %q the profile's attribute list reads %v, so the next certificate of the same profile is judged against a different list", c.Attrs, c.Optional, c.AllowOther, c09SubjectString(s), prof.SubjectAttributes.Attributes),
				&c09Case{Kind: "pure", HasList: c.HasList, Attrs: c.Attrs, Optional: c.Optional, AllowOther: c.AllowOther, Subject: s})
			prof = c09Profile(c)
		}
		want, definite, reason := c09Model(c, s)
		if !definite {
			x.Outcome("open (repeated required attribute)")
			return
		}
		if got != want {
			x.ViolationCase(c09Class(want, got, reason, c.AllowOther),
				fmt.Sprintf("profile attrs=%v optional=%v allowOther=%v list=%v, subject %q: model says accept=%v (%s), config.Validate returned %v", c.Attrs, c.Optional, c.AllowOther, c.HasList, c09SubjectString(s), want, reason, got),
				&c09Case{Kind: "pure", HasList: c.HasList, Attrs: c.Attrs, Optional: c.Optional, AllowOther: c.AllowOther, Subject: s})
		}
		if want {
			x.Outcome("accept")
		} else {
			x.Outcome("reject:" + reason)
		}
	}
	if c.Subject != nil { // replay of a single pair
		one(c.Subject)
		return
	}
	var n int64
	c09Subjects(c.Alpha, c.MaxSubj, func(s []string) {
		n++
		one(s)
	})
	x.Eval(n - 1)
	x.NontrivialN(n)
	x.Transition(n)
}

// c09Pipe: 3-entity chain root -> mid -> leaf; entity at Pos carries the
// profile and the subject under test. Rejected => the run errors before
// anything is written.
// c09API: the same verdicts through db.AddAndSign (library interface): a settled entity under a profile without
// subject rules is fetched, pointed at the profile under test and signed again with overwrite; and a new alias is
// added under that profile. A rejected certificate gives an error and no artifact is written or changed.
func c09API(x *engine.Ctx, c *c09Case) {
	prof := &refcfg.ProfileCfg{Path: "prof.yaml", Name: "p", SubjAttrs: &refcfg.SubjectAttributes{}}
	if c.AllowOther {
		prof.SubjAttrs.AllowOther = refcfg.B(true)
	}
	for i, a := range c.Attrs {
		sa := refcfg.SubjAttr{Attribute: a}
		if c.Optional[i] {
			sa.Optional = refcfg.B(true)
		}
		prof.SubjAttrs.Attributes = append(prof.SubjAttrs.Attributes, sa)
	}
	if !c.HasList {
		prof.SubjAttrs = nil // a profile without subject rules accepts every subject
	}
	d := &Dir{Profiles: []*refcfg.ProfileCfg{prof, {Path: "open.yaml", Name: "open"}},
		Certs: []*refcfg.CertCfg{{Path: "ee.yaml", Subject: c09SubjectString(c.Subject), KeyAlg: "P-224", Profile: "open"}}}
	w := simfs.New(simfs.TickPerWrite)
	d.Render(w)
	if r0 := drive.Run(w, drive.Default, nil); !r0.OK() {
		x.Violation("C09/api/first-run-failed", fmt.Sprintf("%v %s", r0.Err(), r0.Panic))
		return
	}
	want, _, reason := c09Model(c, c.Subject)
	x.Nontrivial(fmt.Sprintf("api %v %v %v %v", c.Attrs, c.Optional, c.AllowOther, c.Subject))
	for mode := 0; mode < 3; mode++ {
		w2 := w.Clone()
		fsdb := filesystem.NewFilesystemDatabase(w2)
		if err := fsdb.Open(); err != nil {
			x.Violation("C09/api/open-failed", err.Error())
			return
		}
		profName := "p"
		if mode == 2 {
			// the profile as parsed from its file is registered once more under another name through AddProfile
			po, err := fsdb.GetProfile("p")
			if err != nil || po == nil {
				fsdb.Close()
				x.Violation("C09/api/no-profile", fmt.Sprint(err))
				return
			}
			np := *po
			np.Name = "p-added"
			if err := fsdb.AddProfile(np); err != nil {
				fsdb.Close()
				x.Violation("C09/api/add-profile-failed", err.Error())
				return
			}
			profName = "p-added"
		}
		cfg, err := fsdb.GetConfig("ee")
		if err != nil || cfg == nil {
			fsdb.Close()
			x.Violation("C09/api/no-config", fmt.Sprint(err))
			return
		}
		nc := *cfg
		nc.Profile = profName
		how := "stored entity pointed at the profile, overwrite"
		if mode >= 1 {
			nc.Alias = "fresh"
			how = "new alias under the profile"
		}
		if mode == 2 {
			how = "new alias under the profile registered through AddProfile"
		}
		before := w2.Clone()
		w2.BeginRun(nil)
		var aerr error
		var panicked string
		func() {
			defer func() {
				if r := recover(); r != nil {
					panicked = fmt.Sprint(r)
				}
			}()
			_, aerr = db.AddAndSign(fsdb, nc, mode == 0)
		}()
		fsdb.Close()
		x.Transition(1)
		if panicked != "" {
			x.Violation("C09/api/panic", panicked)
			continue
		}
		// "before anything is generated": artifacts; that the add step stores the configuration it was given is not at issue
		var changed []string
		for _, df := range simfs.Diff(before, w2) {
			if strings.HasSuffix(df, ".pem") {
				changed = append(changed, df)
			}
		}
		if !want && (aerr == nil || len(changed) != 0) {
			x.Violation("C09/validate/accepts a subject the profile forbids reason="+reason+fmt.Sprintf(" allowOther=%v (AddAndSign)", c.AllowOther),
				fmt.Sprintf("%s: profile attrs=%v optional=%v allowOther=%v, subject %q: error %v, files changed %v", how, c.Attrs, c.Optional, c.AllowOther, c09SubjectString(c.Subject), aerr, changed))
		}
		if want && aerr != nil {
			x.Violation(fmt.Sprintf("C09/validate/rejects a subject the profile allows allowOther=%v (AddAndSign)", c.AllowOther),
				fmt.Sprintf("%s: profile attrs=%v optional=%v allowOther=%v, subject %q: %v", how, c.Attrs, c.Optional, c.AllowOther, c09SubjectString(c.Subject), aerr))
		}
	}
	x.Outcome("api")
}

// c09PipeLinked: the same chain on a native directory, run by the binary, where the profile file and/or the
// constrained entity's configuration file is a symbolic link to a file kept elsewhere (a profile shared by several
// trees). The files are read through the links: an allowed subject is certified, a forbidden one stops the run
// before anything is written.
func c09PipeLinked(x *engine.Ctx, c *c09Case, d *Dir, w *simfs.World, prof *refcfg.ProfileCfg) {
	w.Symlinks = map[string]string{}
	move := func(p, to string) {
		f := w.Files[p]
		w.PutAt(to, f.Data, f.Tick)
		w.Remove(p)
		w.Symlinks[p] = to
	}
	if c.Linked&1 != 0 {
		move(prof.Path, "shared/profile-p.tpl")
	}
	if c.Linked&2 != 0 {
		move(d.Certs[c.Pos].Path, "shared/entity.conf")
	}
	before := w.Clone()
	res, err := drive.RunCLI(w, drive.Default, "y\n")
	if err != nil {
		x.Cap("cli: " + err.Error())
		return
	}
	x.TraceValidated(1)
	x.Transition(1)
	x.Nontrivial(fmt.Sprintf("pipe-linked %v %v %v %v %d %d", c.Attrs, c.Optional, c.AllowOther, c.Subject, c.Pos, c.Linked))
	want, _, reason := c09Model(c, c.Subject)
	what := []string{"", "the profile file is a symbolic link", "the entity's configuration file is a symbolic link", "profile and configuration file are symbolic links"}[c.Linked]
	target := ArtifactPath(d.Certs[c.Pos].Path)
	_, written := w.Files[target]
	if want {
		x.Outcome("pipe-linked accept")
		if res.Exit != 0 || !written {
			x.Violation(c09Class(true, false, reason, c.AllowOther)+" (binary, linked files)", fmt.Sprintf("%s; subject %q allowed by profile %v/%v allowOther=%v, yet exit=%d, %s exists=%v: %s", what, c09SubjectString(c.Subject), c.Attrs, c.Optional, c.AllowOther, res.Exit, target, written, short(res.Stdout+res.Stderr, 300)))
		}
		return
	}
	x.Outcome("pipe-linked reject:" + reason)
	if res.Exit == 0 {
		x.Violation(c09Class(false, true, reason, c.AllowOther)+" (binary, linked files)", fmt.Sprintf("%s; subject %q violates profile %v/%v allowOther=%v (%s), yet the binary ended with exit 0 (%s exists=%v)", what, c09SubjectString(c.Subject), c.Attrs, c.Optional, c.AllowOther, reason, target, written))
		return
	}
	if df := simfs.Diff(before, w); len(df) != 0 {
		x.Violation("C09/wrote-before-reject (binary, linked files)", fmt.Sprintf("%s; rejected certificate at position %d, yet files changed: %v", what, c.Pos, df))
	}
}

func c09Pipe(x *engine.Ctx, c *c09Case) {
	d := &Dir{}
	prof := &refcfg.ProfileCfg{Path: "prof.yaml", Name: "p", SubjAttrs: &refcfg.SubjectAttributes{}}
	if c.AllowOther {
		prof.SubjAttrs.AllowOther = refcfg.B(true)
	}
	for i, a := range c.Attrs {
		sa := refcfg.SubjAttr{Attribute: a}
		if c.Optional[i] {
			sa.Optional = refcfg.B(true)
		}
		prof.SubjAttrs.Attributes = append(prof.SubjAttrs.Attributes, sa)
	}
	d.Profiles = append(d.Profiles, prof)
	if c.Twin > 0 {
		// profile names are names, not words: "P" is another profile than "p"
		d.Profiles = append(d.Profiles, &refcfg.ProfileCfg{Path: []string{"", "zz-twin.yaml", "aa-twin.yaml"}[c.Twin], Name: "P"})
	}
	names := []string{"root", "mid", "leaf"}
	for i, n := range names {
		cfg := &refcfg.CertCfg{Path: n + ".yaml", Subject: "CN=" + n, KeyAlg: "P-224"}
		if i > 0 {
			cfg.Issuer = names[i-1]
		}
		if i == c.Pos {
			cfg.Profile = "p"
			cfg.Subject = c09SubjectString(c.Subject)
		}
		d.Certs = append(d.Certs, cfg)
	}
	w := simfs.New(simfs.TickPerWrite)
	strat := drive.Default
	if c.Settled {
		// the same hierarchy was generated earlier under a profile "p" without subject rules
		open := &refcfg.ProfileCfg{Path: "prof.yaml", Name: "p"}
		d.Profiles = []*refcfg.ProfileCfg{open}
		d.Render(w)
		if r0 := drive.Run(w, drive.Default, nil); !r0.OK() {
			x.Violation("C09/pipeline/open-profile-run-failed", fmt.Sprintf("%v %s", r0.Err(), r0.Panic))
			return
		}
		x.Transition(1)
		d.Profiles = []*refcfg.ProfileCfg{prof}
		w.Put(prof.Path, prof.YAML())
		if c.Strat != 0 {
			strat = dbStrat(c.Strat)
		}
	} else {
		d.Render(w)
	}
	if c.Big > 0 {
		block := strings.Repeat("# "+strings.Repeat("=", 61)+"\n", c.Big/64+1)
		text := string(w.Files[prof.Path].Data)
		if i := strings.Index(text, "subjectAttributes"); c.BigPos == 1 && i >= 0 {
			text = text[:i] + block + text[i:]
		} else {
			text = block + text
		}
		w.Put(prof.Path, []byte(text))
	}
	if c.ReadFault > 0 {
		if c.ReadFault-1 > len(w.Files[prof.Path].Data) {
			x.Outcome("pipe: read fault beyond the end of the profile file")
			return
		}
		w.ReadFaults = map[string]int{prof.Path: c.ReadFault - 1}
	}
	if c.Linked > 0 {
		c09PipeLinked(x, c, d, w, prof)
		return
	}
	before := w.Clone()
	res := drive.Run(w, strat, nil)
	want, _, reason := c09Model(c, c.Subject)
	if c.ReadFault > 0 {
		x.Transition(1)
		x.Nontrivial(fmt.Sprintf("pipe-readfault %v %v %d", c.Attrs, c.Subject, c.ReadFault))
		if res.Panic != "" {
			x.Violation("C09/panic/"+res.PanicSite, res.Panic)
			return
		}
		target := ArtifactPath(d.Certs[c.Pos].Path)
		if _, written := w.Files[target]; !want && (res.OK() || written) {
			x.Violation("C09/profile-read-error/forbidden-subject-certified", fmt.Sprintf("reading %s broke off after %d of %d bytes; subject %q violates the profile (%s), yet the run %s and %s exists=%v", prof.Path, c.ReadFault-1, len(w.Files[prof.Path].Data), c09SubjectString(c.Subject), reason, res.Summary(), target, written))
		}
		x.Outcome("pipe: profile read fault")
		return
	}
	x.Transition(1)
	x.Nontrivial(fmt.Sprintf("pipe %v %v %v %v %d %v %d %d %d %d", c.Attrs, c.Optional, c.AllowOther, c.Subject, c.Pos, c.Settled, c.Strat, c.Big, c.BigPos, c.Twin))
	if res.Panic != "" {
		x.Violation("C09/panic/"+res.PanicSite, res.Panic)
		return
	}
	if want {
		x.Outcome("pipe accept")
		if !res.OK() {
			x.Violation(c09Class(true, false, reason, c.AllowOther)+" (pipeline)", fmt.Sprintf("subject %q allowed by profile %v/%v allowOther=%v but the run failed: %v", c09SubjectString(c.Subject), c.Attrs, c.Optional, c.AllowOther, res.Err()))
		}
		return
	}
	x.Outcome("pipe reject:" + reason)
	if res.OK() {
		x.Violation(c09Class(false, true, reason, c.AllowOther)+" (pipeline)", fmt.Sprintf("subject %q violates profile %v/%v allowOther=%v (%s) but the run succeeded and generated %d certificates", c09SubjectString(c.Subject), c.Attrs, c.Optional, c.AllowOther, reason, res.Generated))
		return
	}
	if res.PlanErr == nil {
		x.Violation("C09/rejected-late", fmt.Sprintf("rejection did not come from planning: %s", res.Summary()))
	}
	if len(w.Log) != 0 || len(simfs.Diff(before, w)) != 0 {
		x.Violation("C09/wrote-before-reject", fmt.Sprintf("rejected certificate at position %d, yet files were written: %v", c.Pos, simfs.Diff(before, w)))
	}
}

func init() {
	register(&engine.Check{
		ID:          "C09",
		Level:       "model_checking",
		Rule:        "every profile = (attribute list of length 0..4 over {CN,O,C,1.2.3.4} x optional flag) x allowOther, plus the absent list (9363 profiles) x every subject of length 0..5 over {CN,O,C,1.2.3.4,L} (3905), and the same product over {1.2.3.4, 2.5.4.97, CN} with subjects over those plus L (3108 profiles x 1364 subjects): config.Validate on the real parsed RDN sequence vs. the reference predicate transcribed from the statement, one profile object shared by all its subjects as in a run and compared with its definition after every verdict, every verdict asked for twice on the same objects; plus 7 profiles x 9 subjects x 3 positions of the constrained entity in a root->mid->leaf chain through the whole file pipeline (rejected => planning error, empty write log), on a fresh directory, with a 60 / 80 / 300 KiB comment block in the profile file in front of its subject rules or at its top, next to a second profile without subject rules whose name differs only in letter case (its file read before or after), on a native directory run by the binary where the profile file, the constrained entity's configuration file or both are symbolic links to files kept elsewhere, and on a directory first generated under a profile of the same name without subject rules and then run with default / -m only / all four reasons / -a; the same 7 x 9 through db.AddAndSign (a settled entity fetched, pointed at the profile and signed again with overwrite; a new alias under the profile, also with the profile registered through AddProfile and with a profile that has no subject rules): a rejected certificate gives an error and no artifact is written or changed; and three forbidden subjects with the read of the profile file breaking off after every possible number of bytes (the subject must not be certified, whatever arrived). Pairs are distinct by construction; states = profiles, transitions = Validate calls / runs",
		Bound:       map[string]string{"profile length": "<=4", "subject length": "<=5", "alphabet": "3 short names + 1 custom OID + 1 foreign attribute"},
		Assumptions: []string{"profile attributes that the schema allows but no table resolves (PC, DC, T, UID, MAIL) are outside the statement"},
		Budget:      budgets(quickBudget, thoroughBudget),
		Enumerate:   c09Enumerate,
		NewCase:     func() any { return &c09Case{} },
		Exec: func(x *engine.Ctx, c any) {
			cc := c.(*c09Case)
			x.State(fmt.Sprintf("%v %v %v %v %s %v %d", cc.HasList, cc.Attrs, cc.Optional, cc.AllowOther, cc.Kind, cc.Subject, cc.Pos))
			c09Exec(x, c)
		},
	})
}
