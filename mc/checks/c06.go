package checks

import (
	"bytes"
	"fmt"
	"strings"

	"github.com/wokdav/gopki/generator/config"

	"verif/mc/drive"
	"verif/mc/engine"
	"verif/mc/refcfg"
	"verif/mc/refx509"
	"verif/mc/simfs"
)

// C06 — extension list, criticality and raw values reach the certificate unchanged.

type c06Case struct {
	Kind string `json:"kind"` // single | list | rot | sweep | bytesfield
	// single
	Ext  int `json:"ext,omitempty"`  // kind index
	Crit int `json:"crit,omitempty"` // 0 omitted, 1 false, 2 true
	Body int `json:"body,omitempty"` // index into c06Bodies
	// list: indexes (kind*3+crit)
	List []int `json:"list,omitempty"`
	Rot  int   `json:"rot,omitempty"`
	// sweep: lengths From..To at builder level (Through=false) or through certificates
	From    int  `json:"from,omitempty"`
	To      int  `json:"to,omitempty"`
	Through bool `json:"through,omitempty"`
	// bytesfield
	Req   bool   `json:"req,omitempty"`  // bytesfield: the entity exists as a certificate request only, under a CA
	Wrap  int    `json:"wrap,omitempty"` // the base64 text is wrapped into lines of this many characters
	Field string `json:"field,omitempty"`
	Len   int    `json:"len,omitempty"`
	// merged: profile entries (index*4 + 2*override + optional) and certificate entries into c06MergeAlphabet
	Prof []int `json:"prof,omitempty"`
	// rot / single: the entity also carries a version manipulation (0 = none, k+1 = .version k) - the
	// extension list does not depend on the version number written into the certificate
	Ver int `json:"ver,omitempty"`
}

var c06BodyLens = []int{1, 2, 3, 127, 128, 767, 768, 769, 1024, 65536}

// body index: 0 raw !null, 1 raw !empty, 2.. raw !binary of c06BodyLens, last = simplest content
func c06NBodies() int { return 2 + len(c06BodyLens) + 1 }

func c06Payload(n int) []byte {
	b := make([]byte, n)
	for i := range b {
		b[i] = byte(i*7 + n)
	}
	return b
}

func c06Crit(i int) *bool {
	switch i {
	case 1:
		return refcfg.B(false)
	case 2:
		return refcfg.B(true)
	}
	return nil
}

// c06Simple gives each kind its simplest content.
func c06Simple(kind string) refcfg.Ext {
	e := refcfg.Ext{Kind: kind}
	switch kind {
	case refcfg.KSKI:
		e.SKI = refcfg.S("hash")
	case refcfg.KKU:
		e.KU = refcfg.Strs("digitalSignature", "crlSign")
	case refcfg.KSAN:
		e.SAN = &[]refcfg.GeneralName{{Type: "dns", Name: "x.example"}}
	case refcfg.KBC:
		e.BC = &refcfg.BasicConstraints{Ca: refcfg.B(true)}
	case refcfg.KCP:
		e.CP = &[]refcfg.Policy{{Oid: "1.2.3.4"}}
	case refcfg.KAIA:
		e.AIA = refcfg.Strs("http://ocsp.example")
	case refcfg.KAKI:
		e.AKIHash = true
	case refcfg.KEKU:
		e.EKU = refcfg.Strs("serverAuth")
	case refcfg.KADM:
		e.ADM = &refcfg.Admission{Admissions: []refcfg.Admissions{{ProfessionInfos: []refcfg.ProfessionInfo{{ProfessionItems: []string{"Item"}}}}}}
	case refcfg.KOCSP:
	case refcfg.KCustom:
		e.CustomOID = "1.2.3.4.5.6.7"
		e.Raw = refcfg.Bin([]byte{0xca, 0xfe})
	}
	return e
}

func c06Ext(kind, crit, body int) refcfg.Ext {
	k := refcfg.AllKinds[kind]
	var e refcfg.Ext
	switch {
	case body == c06NBodies()-1:
		e = c06Simple(k)
	default:
		e = refcfg.Ext{Kind: k}
		if k == refcfg.KCustom {
			e.CustomOID = "1.2.3.4.5.6.7"
		}
		switch body {
		case 0:
			e.Raw = refcfg.Null()
		case 1:
			e.Raw = refcfg.Empty()
		default:
			e.Raw = refcfg.Bin(c06Payload(c06BodyLens[body-2]))
		}
	}
	e.Critical = c06Crit(crit)
	return e
}

func c06Enumerate(tier string, yield func(any)) {
	nk := len(refcfg.AllKinds)
	for k := 0; k < nk; k++ {
		for cr := 0; cr < 3; cr++ {
			for b := 0; b < c06NBodies(); b++ {
				yield(&c06Case{Kind: "single", Ext: k, Crit: cr, Body: b})
			}
		}
	}
	// lists of length 0..2 over kind x critical
	yield(&c06Case{Kind: "list", List: []int{}})
	for a := 0; a < nk*3; a++ {
		for b := 0; b < nk*3; b++ {
			yield(&c06Case{Kind: "list", List: []int{a, b}})
		}
	}
	// every ordered pair of different kinds given with the same raw body (!null, !empty, 4 octets) and the same critical flag,
	// and every kind followed by its two successors that way
	for a := 0; a < nk; a++ {
		for b := 0; b < nk; b++ {
			if a == b {
				continue
			}
			for cr := 0; cr < 3; cr++ {
				for _, body := range []int{0, 1, 2} {
					yield(&c06Case{Kind: "rawpair", List: []int{a, b}, Crit: cr, Body: body})
				}
			}
		}
		yield(&c06Case{Kind: "rawpair", List: []int{a, (a + 1) % nk, (a + 2) % nk}, Crit: 1, Body: 2})
	}
	// the effective list under a profile: profile lists <=2 x certificate lists <=3 over repeated types
	{
		na := len(c06MergeAlphabet())
		var certLists [][]int
		lists(na, 3, func(l []int) { certLists = append(certLists, append([]int{}, l...)) })
		lists(na*4, 2, func(pl []int) {
			if len(pl) == 0 {
				return
			}
			for _, cl := range certLists {
				if tier != "thorough" && len(pl) == 2 && len(cl) == 3 && (pl[0]+pl[1]+cl[0]+cl[1]+cl[2])%4 != 0 {
					continue
				}
				yield(&c06Case{Kind: "merged", Prof: append([]int{}, pl...), List: cl})
			}
		})
	}
	// rotations of a 12-entry list: each kind once plus one repeat
	for r := 0; r < 12; r++ {
		yield(&c06Case{Kind: "rot", Rot: r})
		for ver := 1; ver <= 5; ver++ {
			yield(&c06Case{Kind: "rot", Rot: r, Ver: ver})
		}
	}
	for k := 0; k < nk; k++ {
		for ver := 1; ver <= 5; ver++ {
			yield(&c06Case{Kind: "single", Ext: k, Crit: ver % 3, Body: c06NBodies() - 1 - ver%2*(c06NBodies()-3), Ver: ver})
		}
	}
	// payload length sweep
	maxB, maxT, step := 4096, 1100, 256
	if tier == "thorough" {
		maxB, maxT = 65536, 4096
	}
	for from := 1; from <= maxB; from += step {
		to := from + step - 1
		if to > maxB {
			to = maxB
		}
		yield(&c06Case{Kind: "sweep", From: from, To: to})
	}
	for from := 1; from <= maxT; from += 64 {
		to := from + 63
		if to > maxT {
			to = maxT
		}
		yield(&c06Case{Kind: "sweep", From: from, To: to, Through: true})
	}
	// the byte-valued fields the statement names, one at a time and all four at once with different values; key ids and addProfessionInfo belong to C07 / C16
	for _, f := range []string{"issuerUniqueId", "subjectUniqueId", "manip.signatureValue", "manip.tbsPublicKey", "all-four-with-different-values"} {
		for _, l := range append([]int{0}, c06BodyLens...) {
			yield(&c06Case{Kind: "bytesfield", Field: f, Len: l})
		}
	}
	// the byte-valued manipulations on an entity that exists as a certificate request only (its key bits come from the request unless manipulated)
	for _, f := range []string{"manip.signatureValue", "manip.tbsPublicKey", "all-four-with-different-values"} {
		for _, l := range []int{0, 1, 4, 128, 1024} {
			yield(&c06Case{Kind: "bytesfield", Field: f, Len: l, Req: true})
		}
	}
	// the same fields and a raw extension body with the base64 text wrapped into lines of 64 or 76 characters
	for _, f := range []string{"issuerUniqueId", "subjectUniqueId", "manip.signatureValue", "manip.tbsPublicKey", "all-four-with-different-values", "ext.raw"} {
		for _, l := range []int{1, 47, 48, 49, 57, 58, 96, 200, 1000, 65536} {
			for _, wrap := range []int{64, 76} {
				yield(&c06Case{Kind: "bytesfield", Field: f, Len: l, Wrap: wrap})
			}
		}
	}
}

func c06Exec(x *engine.Ctx, cc any) {
	c := cc.(*c06Case)
	switch c.Kind {
	case "single":
		c06Run(x, []refcfg.Ext{c06Ext(c.Ext, c.Crit, c.Body)}, fmt.Sprintf("single %d %d %d v%d", c.Ext, c.Crit, c.Body, c.Ver), c.Ver)
	case "list":
		var l []refcfg.Ext
		for _, ix := range c.List {
			l = append(l, c06Ext(ix/3, ix%3, c06NBodies()-1))
		}
		c06Run(x, l, fmt.Sprintf("list %v", c.List), 0)
	case "rawpair":
		// two (three) extensions of different kinds that share the raw body and the critical flag
		l := []refcfg.Ext{c06Ext(c.List[0], c.Crit, c.Body), c06Ext(c.List[1], c.Crit, c.Body)}
		if len(c.List) > 2 {
			l = append(l, c06Ext(c.List[2], c.Crit, c.Body))
		}
		c06Run(x, l, fmt.Sprintf("rawpair %v crit=%d body=%d", c.List, c.Crit, c.Body), 0)
	case "rot":
		var base []refcfg.Ext
		for k := range refcfg.AllKinds {
			base = append(base, c06Ext(k, k%3, c06NBodies()-1))
		}
		rep := c06Ext(2, 2, 4) // repeated type: a second subjectAlternativeName, raw
		base = append(base, rep)
		l := append(append([]refcfg.Ext{}, base[c.Rot:]...), base[:c.Rot]...)
		c06Run(x, l, fmt.Sprintf("rot %d v%d", c.Rot, c.Ver), c.Ver)
		if c.Ver == 0 {
			c06RunEdited(x, l, fmt.Sprintf("rot %d edited-in", c.Rot))
		}
	case "merged":
		c06Merged(x, c)
	case "sweep":
		c06Sweep(x, c)
	case "bytesfield":
		c06BytesField(x, c)
	}
}

// c06MergeAlphabet: few kinds, repeated types, different criticality and raw/content forms
func c06MergeAlphabet() []refcfg.Ext {
	t := true
	return []refcfg.Ext{
		{Kind: refcfg.KSAN, SAN: &[]refcfg.GeneralName{{Type: "dns", Name: "a1.example"}}},
		{Kind: refcfg.KSAN, Critical: &t, Raw: refcfg.Bin([]byte{0x30, 0x03, 0x82, 0x01, 0x78})},
		{Kind: refcfg.KEKU, EKU: refcfg.Strs("clientAuth")},
		{Kind: refcfg.KCustom, CustomOID: "2.5.29.17", Critical: &t, Raw: refcfg.Bin([]byte{4, 5, 6})}, // custom extension with the SAN OID
		{Kind: refcfg.KCustom, CustomOID: "2.5.29.17", Critical: &t, Raw: refcfg.Bin([]byte{7, 8, 9})}, // the same with another value of the same length
	}
}

func c06Merged(x *engine.Ctx, c *c06Case) {
	alpha := c06MergeAlphabet()
	prof := &refcfg.ProfileCfg{Path: "prof.yaml", Name: "p"}
	for _, pe := range c.Prof {
		e := alpha[pe/4]
		if pe&2 != 0 {
			e.Override = refcfg.B(true)
		}
		if pe&1 != 0 {
			e.Optional = refcfg.B(true)
		}
		prof.Exts = append(prof.Exts, e)
	}
	cfg := &refcfg.CertCfg{Path: "ent.yaml", Subject: "CN=merged", KeyAlg: "P-224", Profile: "p"}
	for _, ce := range c.List {
		cfg.Exts = append(cfg.Exts, alpha[ce])
	}
	d := &Dir{Certs: []*refcfg.CertCfg{cfg}, Profiles: []*refcfg.ProfileCfg{prof}}
	g := Generate(d, func(w *simfs.World) { w.Put("ent.pem", FixtureKeyPEM("P-224-0")) }, drive.Default)
	x.Nontrivial(fmt.Sprintf("merged %v %v", c.Prof, c.List))
	if g.Res.Panic != "" {
		x.Violation("C06/panic/"+g.Res.PanicSite, g.Res.Panic)
		return
	}
	if !g.Res.OK() {
		x.Violation("C06/merged/run-failed", fmt.Sprintf("%v\n%s\n%s", g.Res.Err(), prof.YAML(), cfg.YAML()))
		return
	}
	diffs, _, err := g.CompareEntity(d, "ent", "")
	if err != nil {
		x.Violation("C06/merged/no-certificate", err.Error())
		return
	}
	for _, df := range diffs {
		if df.Owner == "C06" {
			x.Violation(strings.Replace(df.Class, "C06/", "C06/merged/", 1), fmt.Sprintf("%s\nprofile:\n%s\ncertificate:\n%s", df.Detail, prof.YAML(), cfg.YAML()))
		}
	}
	x.Outcome("merged compared")
}

func c06Run(x *engine.Ctx, exts []refcfg.Ext, key string, ver int) {
	cfg := &refcfg.CertCfg{Path: "ent.yaml", Subject: "CN=ext", KeyAlg: "P-224", Exts: exts, ExtsPresent: len(exts) == 0}
	if ver > 0 {
		v := int64(ver - 1)
		cfg.Manip = &refcfg.Manip{Version: &v}
	}
	d := &Dir{Certs: []*refcfg.CertCfg{cfg}}
	g := Generate(d, func(w *simfs.World) { w.Put("ent.pem", FixtureKeyPEM("P-224-0")) }, drive.Default)
	x.Nontrivial(key)
	if g.Res.Panic != "" {
		x.Violation("C06/panic/"+g.Res.PanicSite, g.Res.Panic)
		return
	}
	if !g.Res.OK() {
		x.Violation("C06/run-failed", fmt.Sprintf("%s: %v\n%s", key, g.Res.Err(), short(string(cfg.YAML()), 600)))
		return
	}
	diffs, _, err := g.CompareEntity(d, "ent", "")
	if err != nil {
		x.Violation("C06/no-certificate", fmt.Sprintf("%s: %v\n%s", key, err, short(string(cfg.YAML()), 600)))
		return
	}
	reportOwned(x, "C06", diffs)
	x.Outcome(fmt.Sprintf("compared n=%d", len(exts)))
}

// c06RunEdited: the entity exists already (generated with the same extensions in reverse order); the
// list under test is then edited into its file and the default run re-issues it because its hash
// changed - the path on which the effective configuration passes through change detection first.
func c06RunEdited(x *engine.Ctx, exts []refcfg.Ext, key string) {
	rev := make([]refcfg.Ext, len(exts))
	for i := range exts {
		rev[len(exts)-1-i] = exts[i]
	}
	cfg := &refcfg.CertCfg{Path: "ent.yaml", Subject: "CN=ext", KeyAlg: "P-224", Exts: rev}
	d := &Dir{Certs: []*refcfg.CertCfg{cfg}}
	g := Generate(d, func(w *simfs.World) { w.Put("ent.pem", FixtureKeyPEM("P-224-0")) }, drive.Default)
	x.Nontrivial(key)
	if !g.Res.OK() {
		x.Violation("C06/edited/first-run-failed", fmt.Sprintf("%s: %v %s", key, g.Res.Err(), g.Res.Panic))
		return
	}
	cfg.Exts = exts
	g.W.Put(cfg.Path, cfg.YAML())
	g2 := &GenResult{W: g.W, Before: g.W.Clone(), RunStart: g.RunStart}
	g2.Res = drive.Run(g.W, drive.Default, nil)
	g2.RunEnd = g.RunEnd + 5
	if !g2.Res.OK() || !g2.Res.Planned("ent") {
		x.Violation("C06/edited/not-reissued", fmt.Sprintf("%s: %v %s plan %v", key, g2.Res.Err(), g2.Res.Panic, g2.Res.PlanAliases()))
		return
	}
	diffs, _, err := g2.CompareEntity(d, "ent", "")
	if err != nil {
		x.Violation("C06/edited/no-certificate", fmt.Sprintf("%s: %v", key, err))
		return
	}
	for _, df := range diffs {
		if df.Owner == "C06" {
			x.Violation(strings.Replace(df.Class, "C06/", "C06/edited/", 1), fmt.Sprintf("%s (list edited into an existing entity): %s", key, df.Detail))
		}
	}
	x.Outcome("edited-in compared")
}

// c06Sweep: every !binary payload length in [From,To].
func c06Sweep(x *engine.Ctx, c *c06Case) {
	for n := c.From; n <= c.To; n++ {
		payload := c06Payload(n)
		ext := refcfg.Ext{Kind: refcfg.KCustom, CustomOID: "1.2.3.4", Raw: refcfg.Bin(payload)}
		cfg := &refcfg.CertCfg{Path: "ent.yaml", Subject: "CN=sweep", KeyAlg: "P-224", Exts: []refcfg.Ext{ext}}
		var got []byte
		if c.Through {
			d := &Dir{Certs: []*refcfg.CertCfg{cfg}}
			g := Generate(d, func(w *simfs.World) { w.Put("ent.pem", FixtureKeyPEM("P-224-0")) }, drive.Default)
			a := ReadArtifact(g.W, cfg.Path)
			if !g.Res.OK() || a.Cert == nil || len(a.Cert.Exts) != 1 {
				x.ViolationCase("C06/sweep/no-certificate", fmt.Sprintf("length %d: %v %s", n, g.Res.Err(), g.Res.Panic), &c06Case{Kind: "sweep", From: n, To: n, Through: true})
				continue
			}
			got = a.Cert.Exts[0].Value
		} else {
			parsed, err := config.ParseConfig(strings.NewReader(string(cfg.YAML())))
			if err != nil {
				x.ViolationCase("C06/sweep/parse-error", fmt.Sprintf("length %d: %v", n, err), &c06Case{Kind: "sweep", From: n, To: n})
				continue
			}
			cc, ok := parsed.(*config.CertificateContent)
			if !ok || len(cc.Extensions) != 1 {
				continue
			}
			b, err := cc.Extensions[0].Builder()
			if err != nil {
				x.ViolationCase("C06/sweep/builder-error", fmt.Sprintf("length %d: %v", n, err), &c06Case{Kind: "sweep", From: n, To: n})
				continue
			}
			e, err := b.Compile(nil)
			if err != nil {
				x.ViolationCase("C06/sweep/compile-error", fmt.Sprintf("length %d: %v", n, err), &c06Case{Kind: "sweep", From: n, To: n})
				continue
			}
			got = e.Value
		}
		if !bytes.Equal(got, payload) {
			x.ViolationCase(fmt.Sprintf("C06/raw/kind=custom form=binary len=%s", c06LenClass(n)), fmt.Sprintf("!binary payload of %d bytes arrives as %d bytes (through-certificate=%v)", n, len(got), c.Through), &c06Case{Kind: "sweep", From: n, To: n, Through: c.Through})
		}
	}
	n := int64(c.To - c.From + 1)
	x.Eval(n - 1)
	x.NontrivialN(n)
	x.Outcome(fmt.Sprintf("sweep through=%v", c.Through))
}

func c06LenClass(n int) string {
	switch {
	case n == 0:
		return "0"
	case n <= 127:
		return "1..127"
	case n <= 255:
		return "128..255"
	case n <= 767:
		return "256..767"
	case n == 768:
		return "768"
	}
	return ">768"
}

// c06BytesField: the other byte-valued fields at the boundary lengths.
func c06BytesField(x *engine.Ctx, c *c06Case) {
	var raw *refcfg.Raw
	if c.Len == 0 {
		raw = refcfg.Empty()
	} else {
		raw = refcfg.Bin(c06Payload(c.Len))
	}
	if raw.Kind == "binary" {
		raw.Wrap = c.Wrap
	}
	cfg := &refcfg.CertCfg{Path: "ent.yaml", Subject: "CN=bytes", KeyAlg: "P-224"}
	owner := "C06"
	switch c.Field {
	case "issuerUniqueId":
		cfg.IssuerUID = raw
	case "subjectUniqueId":
		cfg.SubjectUID = raw
	case "manip.signatureValue":
		cfg.Manip = &refcfg.Manip{SigValue: raw}
	case "manip.tbsPublicKey":
		cfg.Manip = &refcfg.Manip{TbsPubKey: raw}
	case "all-four-with-different-values":
		// each field its own payload (different length and content): none may take another's value
		pl := func(i int) *refcfg.Raw {
			if c.Len == 0 && i == 0 {
				return refcfg.Empty()
			}
			b := c06Payload(c.Len + i + 1)
			b[0] ^= byte(0x10 << uint(i%4))
			r := refcfg.Bin(b)
			r.Wrap = c.Wrap
			return r
		}
		cfg.IssuerUID, cfg.SubjectUID = pl(0), pl(1)
		cfg.Manip = &refcfg.Manip{SigValue: pl(2), TbsPubKey: pl(3)}
	case "ext.raw":
		cfg.Exts = []refcfg.Ext{{Kind: refcfg.KCustom, CustomOID: "1.2.3.4.5", Raw: raw}, {Kind: refcfg.KKU, Raw: raw}}
	case "aki.id":
		if c.Len == 0 {
			return
		}
		cfg.Exts = []refcfg.Ext{{Kind: refcfg.KAKI, AKIBin: raw}}
	case "admission.addProfessionInfo":
		cfg.Exts = []refcfg.Ext{{Kind: refcfg.KADM, ADM: &refcfg.Admission{Admissions: []refcfg.Admissions{{ProfessionInfos: []refcfg.ProfessionInfo{{ProfessionItems: []string{"I"}, AddProfessionInfo: raw}}}}}}}
	}
	d := &Dir{Certs: []*refcfg.CertCfg{cfg}}
	if c.Req {
		cfg.Issuer = "ca"
		d.Certs = []*refcfg.CertCfg{{Path: "ca.yaml", Subject: "CN=bytes ca", KeyAlg: "P-256"}, cfg}
	}
	g := Generate(d, func(w *simfs.World) {
		if c.Req {
			k, _ := refx509.ParsePKCS8(FixtureKeyDER("P-224-0"))
			w.Put("ent.pem", refx509.EncodePem("CERTIFICATE REQUEST", refx509.BuildCSR(k, "bytes", nil)))
			w.Put("ca.pem", FixtureKeyPEM("P-256-0"))
			return
		}
		w.Put("ent.pem", FixtureKeyPEM("P-224-0"))
	}, drive.Default)
	x.Nontrivial(fmt.Sprintf("bytes %s %d %d %v", c.Field, c.Len, c.Wrap, c.Req))
	if !g.Res.OK() {
		x.Violation("C06/bytes-field/run-failed field="+c.Field, fmt.Sprintf("len %d: %v %s", c.Len, g.Res.Err(), g.Res.Panic))
		return
	}
	diffs, _, err := g.CompareEntity(d, "ent", "")
	if err != nil {
		x.Violation("C06/bytes-field/no-certificate field="+c.Field, err.Error())
		return
	}
	// a byte-valued field that does not arrive unchanged is C06's, whichever property owns the field otherwise
	for _, df := range diffs {
		if df.Owner == owner || strings.Contains(df.Class, "uid/") || strings.Contains(df.Class, "signature-value") || strings.Contains(df.Class, "spki-key") ||
			strings.Contains(df.Class, "explicit-key-id") || strings.Contains(df.Class, "addProfessionInfo") {
			x.Violation(fmt.Sprintf("C06/bytes-field/field=%s len=%s%s", c.Field, c06LenClass(c.Len), map[bool]string{true: " request-based", false: ""}[c.Req]), df.Detail)
		}
	}
	x.Outcome("bytes-field " + c.Field)
}

func init() {
	register(&engine.Check{
		ID:          "C06",
		Level:       "exploration",
		Rule:        "11 extension kinds x critical {omitted,false,true} x body {raw !null, raw !empty, raw !binary of 1,2,3,127,128,767,768,769,1024,65536 bytes, simplest content}; every list of length 0 and 2 over kind x critical (33^2); all 12 rotations of a list holding each kind once plus a repeated type (each also edited into an entity that was generated with the reverse order, so that it is re-issued through change detection), each also with a .version manipulation of 0..4 (and every kind alone with each), since the list does not depend on the version number written; the effective list under a profile: every profile list of length 1..2 over 4 entries (two SAN forms, EKU, a custom extension with the SAN OID) x override x optional against every certificate list of length 0..3 over the same entries (quick thins the largest block to a quarter); every !binary payload length 1..4096 (quick) / 1..65536 (thorough) at ParseConfig->Builder->Compile level and 1..1100 / 1..4096 through whole certificates; unique ids, signature value, public-key bits, authority key id and addProfessionInfo at the boundary lengths (signature value and public-key bits also on an entity that exists as a certificate request only). Oracle: same list, order, OIDs, critical exactly as configured (absent in DER when false/omitted), raw bodies byte-identical. non-trivial = distinct case (payload lengths distinct by construction); the byte-valued fields and a raw extension body also with the base64 text wrapped into lines of 64 or 76 characters (10 lengths); every ordered pair of different kinds carrying the same raw body and critical flag",
		Bound:       map[string]string{"list length": "0..2 exhaustive, 12 by rotation", "payload length": "every length up to 4096 / 65536"},
		Assumptions: []string{"payload contents are one deterministic pattern per length", "subjectKeyIdentifier content !binary may or may not be wrapped in an OCTET STRING (documentation and code disagree)"},
		Budget:      budgets(quickBudget, thoroughBudget),
		Enumerate:   c06Enumerate,
		NewCase:     func() any { return &c06Case{} },
		Exec:        c06Exec,
	})
}
