package checks

import (
	"bytes"
	"crypto/sha1"
	"fmt"
	"math/big"
	"strings"
	"sync"

	"verif/mc/drive"
	"verif/mc/engine"
	"verif/mc/refcfg"
	"verif/mc/refder"
	"verif/mc/refx509"
	"verif/mc/simfs"
)

// C07 — structured RFC 5280 extensions encode exactly the configured content.

type c07Case struct {
	Kind string `json:"kind"` // ku | san | bc | cp | aia | eku | aki | ski | ocsp
	A    int    `json:"a,omitempty"`
	B    int    `json:"b,omitempty"`
	C    int    `json:"c,omitempty"`
	L    []int  `json:"l,omitempty"`
}

var c07SANItems = []refcfg.GeneralName{
	{Type: "mail", Name: "admin@example.com"}, {Type: "mail", Name: "x@y.z"},
	{Type: "dns", Name: "server.example.com"}, {Type: "dns", Name: "*.example.org"},
	{Type: "ip", Name: "127.0.0.1"}, {Type: "ip", Name: "255.0.128.7"},
	{Type: "ip", Name: "0.0.0.0"}, // the address whose four octets are all zero
	{Type: "dns", Name: "MiXed.Case.Example.ORG"},
	// names whose text looks like another kind: the configured kind decides
	{Type: "dns", Name: "192.168.0.1"}, {Type: "mail", Name: "host.example.org"},
}

var c07LongMembers = []string{"san-dns", "san-mail", "many-san", "aia-uri", "many-aia", "cps", "notice-text", "notice-org", "many-numbers", "many-policies", "many-eku", "long-oid", "aki-id"}

var c07URIs = []string{"http://ocsp.example.com", "https://o.example.org:8080/path?q=1",
	// spellings that a normalising library would rewrite: the URI is carried as written
	"HTTP://OCSP.Example.COM/Status", "http://ocsp.example.com/responder#", "http://ocsp.example.com/a%20b/%7Euser?x=%41", "ocsp.example.com", "ldap://ldap.example.com/cn=CA,dc=example?cACertificate"}
var c07EKUs = []string{"serverAuth", "clientAuth", "codeSigning", "emailProtection", "timeStamping", "OCSPSigning", "1.2.3.4.5", "2.16.840.1.113730.4.1", "2.999.1"}
var c07AKILens = []int{1, 20, 32, 127, 128, 768, 769, 1024}

// policy alphabet: plain, cps, and every user notice shape with at least one member
func c07Policies() []refcfg.Policy {
	out := []refcfg.Policy{{Oid: "1.2.3.4"}, {Oid: "2.16.840.1.101.3.2.1.48.1", Qualifiers: &[]refcfg.Qualifier{{Cps: refcfg.S("http://pki.example.com/cps")}}}}
	orgs := []*string{nil, refcfg.S("Org")}
	nums := []*[]int{nil, {1}, {1, 2, 300}, {0, 127, 128, 65536}}
	texts := []*string{nil, refcfg.S("txt"), refcfg.S("ünï notice")}
	n := 0
	for _, o := range orgs {
		for _, nu := range nums {
			for _, t := range texts {
				if o == nil && nu == nil && t == nil {
					continue
				}
				n++
				out = append(out, refcfg.Policy{Oid: fmt.Sprintf("1.2.3.%d", 100+n), Qualifiers: &[]refcfg.Qualifier{{Notice: &refcfg.UserNotice{Organization: o, Numbers: nu, Text: t}}}})
			}
		}
	}
	// two qualifiers on one policy
	out = append(out, refcfg.Policy{Oid: "1.2.3.200", Qualifiers: &[]refcfg.Qualifier{{Cps: refcfg.S("http://a")}, {Notice: &refcfg.UserNotice{Text: refcfg.S("both")}}}})
	// policy OIDs below the joint arc 2 with a second arc above 39, and a two-arc OID
	out = append(out, refcfg.Policy{Oid: "2.49.0.1", Qualifiers: &[]refcfg.Qualifier{{Cps: refcfg.S("http://j.example")}}}, refcfg.Policy{Oid: "2.999"})
	// spellings that are carried as written: upper-case scheme and host, empty fragment, quotes, ampersand
	out = append(out, refcfg.Policy{Oid: "1.2.3.201", Qualifiers: &[]refcfg.Qualifier{{Cps: refcfg.S("HTTP://CPS.Example.ORG/Path%20x#")}, {Cps: refcfg.S("ldap://dir.example.org/cn=CPS?x")},
		{Notice: &refcfg.UserNotice{Organization: refcfg.S("ACME & Söhne \"Holding\""), Numbers: &[]int{3, 2, 1, 1}, Text: refcfg.S("'single' and \"double\" quotes,  two  spaces")}}}})
	return out
}

func lists(n, maxLen int, f func(l []int)) {
	var rec func(cur []int)
	rec = func(cur []int) {
		f(cur)
		if len(cur) == maxLen {
			return
		}
		for i := 0; i < n; i++ {
			rec(append(cur, i))
		}
	}
	rec([]int{})
}

func c07Enumerate(tier string, yield func(any)) {
	for mask := 0; mask < 128; mask++ {
		for cr := 0; cr < 3; cr++ {
			yield(&c07Case{Kind: "ku", A: mask, B: cr})
		}
	}
	sl := 4
	if tier == "thorough" {
		sl = 5
	}
	lists(len(c07SANItems), sl, func(l []int) { yield(&c07Case{Kind: "san", L: append([]int{}, l...)}) })
	for ca := 0; ca < 3; ca++ {
		for pl := -1; pl <= 255; pl++ {
			yield(&c07Case{Kind: "bc", A: ca, B: pl})
		}
		for _, pl := range []int{256, 65535, 1 << 31} {
			yield(&c07Case{Kind: "bc", A: ca, B: pl})
		}
	}
	np := len(c07Policies())
	maxCP := 2
	sanLen, aiaLen := 3, 3
	if tier == "thorough" {
		sanLen, aiaLen = 4, 4
	}
	lists(np, maxCP, func(l []int) {
		if len(l) > 0 {
			yield(&c07Case{Kind: "cp", L: append([]int{}, l...)})
		}
	})
	_ = sanLen
	lists(len(c07URIs), aiaLen, func(l []int) { yield(&c07Case{Kind: "aia", L: append([]int{}, l...)}) })
	maxEKU := 3
	if tier == "thorough" {
		maxEKU = 4
	}
	lists(len(c07EKUs), maxEKU, func(l []int) { yield(&c07Case{Kind: "eku", L: append([]int{}, l...)}) })
	// DER length-form boundaries of every string- and list-valued member
	for m := range c07LongMembers {
		for _, l := range []int{100, 118, 120, 122, 123, 124, 125, 126, 127, 128, 129, 130, 131, 200, 250, 252, 253, 254, 255, 256, 257, 258, 300, 1000, 70000} {
			yield(&c07Case{Kind: "long", A: m, B: l})
		}
	}
	for cr := 0; cr < 3; cr++ {
		yield(&c07Case{Kind: "aki", A: -1, B: cr})
		yield(&c07Case{Kind: "aki", A: -1, B: cr, C: 1}) // under a separate issuer
		yield(&c07Case{Kind: "aki", A: -1, B: cr, C: 2}) // self-signed, with its own key bits manipulated: the hash follows the bits in the issuer's (its own) certificate
		yield(&c07Case{Kind: "aki", A: -1, B: cr, C: 3}) // under a separate issuer, own key bits manipulated (the issuer's are not)
		yield(&c07Case{Kind: "ski", B: cr, C: 2})
		yield(&c07Case{Kind: "ski", B: cr, C: 3})
		for i := range c07AKILens {
			yield(&c07Case{Kind: "aki", A: i, B: cr})
		}
		yield(&c07Case{Kind: "ski", B: cr})
		yield(&c07Case{Kind: "ski", B: cr, C: 1})
		yield(&c07Case{Kind: "ocsp", B: cr})
	}
	c07EnumKeyIDs(yield)
	// request-based entity whose key BIT STRING declares 0..7 unused bits: the key id is the hash of the octets of the bit string
	for unused := 0; unused < 8; unused++ {
		for _, curve := range []int{0, 1} {
			yield(&c07Case{Kind: "skireq", A: unused, B: curve})
		}
	}
	for pos := 0; pos < 4; pos++ {
		for v := 0; v < 256; v++ {
			for pad := 0; pad < 3; pad++ {
				yield(&c07Case{Kind: "sanip", A: pos, B: v, C: pad})
			}
		}
	}
}

// c07KeyIDBytes: every one-octet key id and, for every pair of leading base64
// characters of the "!binary:" spelling, a three-octet key id starting with it.
func c07KeyIDBytes(a, b int) []byte {
	if b < 0 {
		return []byte{byte(a)}
	}
	return []byte{byte(a<<2 | b>>4), byte((b&15)<<4 | 5), 0xa7}
}

func c07EnumKeyIDs(yield func(any)) {
	for a := 0; a < 256; a++ {
		yield(&c07Case{Kind: "akibytes", A: a, B: -1})
	}
	for a := 0; a < 64; a++ {
		for b := 0; b < 64; b++ {
			yield(&c07Case{Kind: "akibytes", A: a, B: b})
		}
	}
}

func c07Exec(x *engine.Ctx, cc any) {
	c := cc.(*c07Case)
	var e refcfg.Ext
	subordinate := false
	switch c.Kind {
	case "ku":
		var names []string
		for b := 0; b < 7; b++ {
			if c.A&(1<<uint(b)) != 0 {
				names = append(names, refcfg.KUNames[b])
			}
		}
		// vary the written order: reversed for odd masks
		if c.A%2 == 1 {
			for i, j := 0, len(names)-1; i < j; i, j = i+1, j-1 {
				names[i], names[j] = names[j], names[i]
			}
		}
		if names == nil {
			names = []string{}
		}
		e = refcfg.Ext{Kind: refcfg.KKU, KU: &names, Critical: c06Crit(c.B)}
	case "san":
		l := []refcfg.GeneralName{}
		for _, i := range c.L {
			l = append(l, c07SANItems[i])
		}
		e = refcfg.Ext{Kind: refcfg.KSAN, SAN: &l}
	case "sanip":
		// one octet position (A) takes every value (B), written plain or with C leading zeros; the others are fixed
		oct := []string{"10", "200", "0", "99"}
		oct[c.A] = strings.Repeat("0", c.C) + fmt.Sprint(c.B)
		e = refcfg.Ext{Kind: refcfg.KSAN, SAN: &[]refcfg.GeneralName{{Type: "ip", Name: strings.Join(oct, ".")}}}
	case "bc":
		bc := &refcfg.BasicConstraints{}
		switch c.A {
		case 1:
			bc.Ca = refcfg.B(false)
		case 2:
			bc.Ca = refcfg.B(true)
		}
		if c.B >= 0 {
			bc.PathLen = refcfg.I(c.B)
		}
		e = refcfg.Ext{Kind: refcfg.KBC, BC: bc, Critical: c06Crit(c.B % 3)}
		if c.B < 0 {
			e.Critical = nil
		}
	case "cp":
		pols := c07Policies()
		l := []refcfg.Policy{}
		for _, i := range c.L {
			l = append(l, pols[i])
		}
		e = refcfg.Ext{Kind: refcfg.KCP, CP: &l}
	case "long":
		str := func(prefix string) string {
			if c.B <= len(prefix) {
				return prefix[:c.B]
			}
			return prefix + strings.Repeat("y", c.B-len(prefix))
		}
		switch c07LongMembers[c.A] {
		case "san-dns":
			e = refcfg.Ext{Kind: refcfg.KSAN, SAN: &[]refcfg.GeneralName{{Type: "dns", Name: str("host.")}}}
		case "san-mail":
			e = refcfg.Ext{Kind: refcfg.KSAN, SAN: &[]refcfg.GeneralName{{Type: "dns", Name: "first.example"}, {Type: "mail", Name: str("a@")}, {Type: "ip", Name: "1.2.3.4"}}}
		case "many-san":
			l := []refcfg.GeneralName{}
			for k := 0; k < c.B/12+1; k++ {
				l = append(l, refcfg.GeneralName{Type: "dns", Name: fmt.Sprintf("h%04d.example", k)})
			}
			e = refcfg.Ext{Kind: refcfg.KSAN, SAN: &l}
		case "aia-uri":
			e = refcfg.Ext{Kind: refcfg.KAIA, AIA: refcfg.Strs(str("http://ocsp/"), "http://second.example")}
		case "many-aia":
			l := []string{}
			for k := 0; k < c.B/30+1; k++ {
				l = append(l, fmt.Sprintf("http://ocsp%03d.example", k))
			}
			e = refcfg.Ext{Kind: refcfg.KAIA, AIA: &l}
		case "cps":
			e = refcfg.Ext{Kind: refcfg.KCP, CP: &[]refcfg.Policy{{Oid: "1.2.3.4", Qualifiers: &[]refcfg.Qualifier{{Cps: refcfg.S(str("http://cps/"))}}}}}
		case "notice-text":
			e = refcfg.Ext{Kind: refcfg.KCP, CP: &[]refcfg.Policy{{Oid: "1.2.3.4", Qualifiers: &[]refcfg.Qualifier{{Notice: &refcfg.UserNotice{Text: refcfg.S(str("Notice "))}}}}}}
		case "notice-org":
			e = refcfg.Ext{Kind: refcfg.KCP, CP: &[]refcfg.Policy{{Oid: "1.2.3.4", Qualifiers: &[]refcfg.Qualifier{{Notice: &refcfg.UserNotice{Organization: refcfg.S(str("Org ")), Numbers: &[]int{1}}}}}}}
		case "many-numbers":
			nums := []int{}
			for k := 0; k < c.B/3+1; k++ {
				nums = append(nums, k*37)
			}
			e = refcfg.Ext{Kind: refcfg.KCP, CP: &[]refcfg.Policy{{Oid: "1.2.3.4", Qualifiers: &[]refcfg.Qualifier{{Notice: &refcfg.UserNotice{Organization: refcfg.S("Org"), Numbers: &nums}}}}}}
		case "many-policies":
			l := []refcfg.Policy{}
			for k := 0; k < c.B/8+1; k++ {
				l = append(l, refcfg.Policy{Oid: fmt.Sprintf("1.2.3.%d", 1000+k)})
			}
			e = refcfg.Ext{Kind: refcfg.KCP, CP: &l}
		case "many-eku":
			l := []string{}
			for k := 0; k < c.B/8+1; k++ {
				l = append(l, fmt.Sprintf("1.2.3.4.%d", 1000+k))
			}
			e = refcfg.Ext{Kind: refcfg.KEKU, EKU: &l}
		case "long-oid":
			e = refcfg.Ext{Kind: refcfg.KEKU, EKU: refcfg.Strs("1.2"+strings.Repeat(".4294967295", c.B/5+1), "serverAuth")}
		case "aki-id":
			e = refcfg.Ext{Kind: refcfg.KAKI, AKIBin: refcfg.Bin(bytes.Repeat([]byte{0x77}, c.B))}
		}
	case "aia":
		l := []string{}
		for _, i := range c.L {
			l = append(l, c07URIs[i])
		}
		e = refcfg.Ext{Kind: refcfg.KAIA, AIA: &l}
	case "eku":
		l := []string{}
		for _, i := range c.L {
			l = append(l, c07EKUs[i])
		}
		e = refcfg.Ext{Kind: refcfg.KEKU, EKU: &l}
	case "aki":
		e = refcfg.Ext{Kind: refcfg.KAKI, Critical: c06Crit(c.B)}
		if c.A < 0 {
			e.AKIHash = true
			subordinate = c.C == 1 || c.C == 3
		} else {
			e.AKIBin = refcfg.Bin(bytes.Repeat([]byte{byte(0x30 + c.A)}, c07AKILens[c.A]))
		}
	case "akibytes":
		e = refcfg.Ext{Kind: refcfg.KAKI, AKIBin: refcfg.Bin(c07KeyIDBytes(c.A, c.B))}
	case "ski":
		e = refcfg.Ext{Kind: refcfg.KSKI, SKI: refcfg.S("hash"), Critical: c06Crit(c.B)}
		subordinate = c.C == 1 || c.C == 3
	case "ocsp":
		e = refcfg.Ext{Kind: refcfg.KOCSP, Critical: c06Crit(c.B)}
	case "skireq":
		c07SkiReq(x, c)
		return
	}
	cfg := &refcfg.CertCfg{Path: "ent.yaml", Subject: "CN=ext", KeyAlg: "P-224", Exts: []refcfg.Ext{e}}
	if (c.Kind == "aki" || c.Kind == "ski") && c.C >= 2 {
		cfg.Manip = &refcfg.Manip{TbsPubKey: refcfg.Bin([]byte{0xde, 0xad, 0xbe, 0xef, 0x01})}
	}
	d := &Dir{Certs: []*refcfg.CertCfg{cfg}}
	if subordinate {
		cfg.Issuer = "ca"
		d.Certs = append([]*refcfg.CertCfg{{Path: "ca.yaml", Subject: "CN=ca", KeyAlg: "P-256"}}, d.Certs...)
	}
	g := Generate(d, func(w *simfs.World) {
		w.Put("ent.pem", FixtureKeyPEM("P-224-0"))
		if subordinate {
			w.Put("ca.pem", FixtureKeyPEM("P-256-0"))
		}
	}, drive.Default)
	x.Nontrivial(fmt.Sprintf("%s %d %d %d %v", c.Kind, c.A, c.B, c.C, c.L))
	if g.Res.Panic != "" {
		x.Violation("C07/panic/"+g.Res.PanicSite, g.Res.Panic)
		return
	}
	if !g.Res.OK() {
		x.Violation("C07/run-failed kind="+c.Kind, fmt.Sprintf("%v\n%s", g.Res.Err(), short(string(cfg.YAML()), 500)))
		return
	}
	diffs, a, err := g.CompareEntity(d, "ent", "")
	if err != nil {
		x.Violation("C07/no-certificate kind="+c.Kind, err.Error())
		return
	}
	for _, df := range diffs {
		if df.Owner == "C07" || ((df.Owner == "C01" || df.Owner == "C19") && strings.Contains(df.Class, "keyid") && (c.Kind == "ski" || c.Kind == "aki")) || (df.Owner == "C01" && (c.Kind == "ski" || c.Kind == "aki") && c.C < 2) {
			x.Violation(df.Class, df.Detail+"\n"+short(string(cfg.YAML()), 400))
		}
	}
	_ = a
	x.Outcome("compared " + c.Kind)
}

var c07ReqScalars sync.Map

// c07SkiReq: "ent" exists only as a certificate request whose subjectPublicKey
// BIT STRING declares c.A unused bits (DER-valid: the point ends in that many
// zero bits). Its certificate repeats the request's key, and the hashed key
// identifiers - its own subjectKeyIdentifier and the authorityKeyIdentifier -
// are SHA-1 over the octets of that bit string (RFC 5280 4.2.1.2 (1)).
func c07SkiReq(x *engine.Ctx, c *c07Case) {
	ci := refx509.CurveByName([]string{"P-224", "brainpoolP256r1"}[c.B])
	key := fmt.Sprintf("%s/%d", ci.Name, c.A)
	dv, ok := c07ReqScalars.Load(key)
	if !ok {
		dv = refx509.ECScalarWithTrailingZeroBits(ci, c.A)
		c07ReqScalars.Store(key, dv)
	}
	req := refx509.BuildCSRUnusedBits(ci, dv.(*big.Int), c.A, "ext")
	ent := &refcfg.CertCfg{Path: "ent.yaml", Subject: "CN=ext", Issuer: "ca", Exts: []refcfg.Ext{{Kind: refcfg.KSKI, SKI: refcfg.S("hash")}, {Kind: refcfg.KAKI, AKIHash: true}}}
	d := &Dir{Certs: []*refcfg.CertCfg{{Path: "ca.yaml", Subject: "CN=ca", KeyAlg: "P-256"}, ent}}
	g := Generate(d, func(w *simfs.World) {
		w.Put("ca.pem", FixtureKeyPEM("P-256-0"))
		w.Put("ent.pem", refx509.EncodePem("CERTIFICATE REQUEST", req))
	}, drive.Default)
	x.Nontrivial(fmt.Sprintf("skireq %d %d %d", c.A, c.B, c.C))
	if g.Res.Panic != "" {
		x.Violation("C07/panic/"+g.Res.PanicSite, g.Res.Panic)
		return
	}
	if !g.Res.OK() {
		x.Violation("C07/run-failed kind=skireq", fmt.Sprint(g.Res.Err()))
		return
	}
	a := ReadArtifact(g.W, "ent.yaml")
	if a.Cert == nil {
		x.Violation("C07/no-certificate kind=skireq", "ent.pem holds no certificate after the run")
		return
	}
	csr, err := refx509.ParseCSR(req)
	if err != nil {
		x.Violation("C07/harness-request-does-not-parse", err.Error())
		return
	}
	if !bytes.Equal(a.Cert.PubKey.Bytes, csr.PubKey.Bytes) || a.Cert.PubKey.Unused != csr.PubKey.Unused {
		x.Outcome("certificate does not repeat the request's key (C14 owns that)")
		return
	}
	want := sha1.Sum(csr.PubKey.Bytes)
	found := false
	for _, ext := range a.Cert.Exts {
		if ext.OID == "2.5.29.14" {
			found = true
			if !bytes.Equal(ext.Value, refder.EncOctets(want[:])) {
				x.Violation(fmt.Sprintf("C07/subjectKeyIdentifier/hash-of-request-key unused-bits=%d", c.A), fmt.Sprintf("got %x want 0414%x", ext.Value, want))
			}
		}
	}
	if !found {
		x.Violation("C07/subjectKeyIdentifier/missing kind=skireq", "")
	}
	x.Outcome("compared skireq")
}

func init() {
	register(&engine.Check{
		ID:          "C07",
		Level:       "exploration",
		Rule:        "keyUsage: all 128 flag subsets x critical 3 (written order varied); subjectAlternativeName: all lists of length 0..4 over {mail,dns,ip} x 2 values plus the all-zero address, a mixed-case dns name, a dns name that reads like an address and a mail name that reads like a host (11111; thorough 0..5), and every octet value 0..255 in each of the four positions of an ip name written plain or with one or two leading zeros (3072); basicConstraints: ca {omitted,false,true} x pathLen {omitted, 0..255, 256, 65535, 2^31} (780); certificatePolicies: 30 policy shapes (plain, cps, every userNotice combination of organization x numbers x text, two qualifiers), singles and all pairs; authorityInformationAccess: lists 0..3 (thorough 0..4) over 7 URIs (two plain ones and five spellings a normalising library would rewrite); extendedKeyUsage: lists 0..3 (thorough 0..4) over 6 names + 3 OIDs (one of them below arc 2 with a second arc above 39); subjectAlternativeName lists up to 4 (thorough 5); authorityKeyIdentifier: hash (self-signed and under an issuer, each also with the entity's own key bits manipulated) and explicit ids of 1,20,32,127,128,768,769,1024 bytes x critical 3, every one-octet id (256) and a three-octet id for every pair of leading base64 characters of its !binary spelling (4096); subjectKeyIdentifier hash, also for a request-based entity whose key BIT STRING declares 0..7 unused bits (two curves; the key id is SHA-1 over the octets of the bit string); ocspNoCheck; every string-, OID- and list-valued member at 25 lengths around the 127/128, 255/256 and 65535/65536 DER length-form boundaries. Each through a whole run; the emitted body must equal the reference DER encoding written from RFC 5280 / 6960 (DER is canonical, so byte equality = an independent decoder reading back exactly the configured value). non-trivial = distinct case",
		Bound:       map[string]string{"lists": "quick <=3, thorough SAN<=4 AIA<=5 EKU<=4", "pathLen": "0..255 + 3 large"},
		Assumptions: []string{"a userNotice with neither organization, numbers nor text has no defined encoding and is excluded", "SAN ip octets outside 0..255 are outside the domain (C20 covers the error clause)"},
		Budget:      budgets(quickBudget, thoroughBudget),
		Enumerate:   c07Enumerate,
		NewCase:     func() any { return &c07Case{} },
		Exec:        c07Exec,
	})
}
