package refx509

import (
	"crypto/ecdsa"
	"crypto/rsa"
	"errors"
	"fmt"
	"math/big"

	"verif/mc/refder"
)

// PrivateKey is a decoded PKCS#8 private key.
type PrivateKey struct {
	RSA   *rsa.PrivateKey
	EC    *ecdsa.PrivateKey
	Curve *CurveInfo
	// facts about the encoding
	OuterCurveOID string // curve OID in the PKCS#8 AlgorithmIdentifier ("" if absent)
	InnerCurveOID string // curve OID inside ECPrivateKey [0] ("" if absent)
	HasPublic     bool   // ECPrivateKey carries [1] publicKey
	ScalarLen     int    // length of the privateKey OCTET STRING
}

func (k *PrivateKey) Describe() string {
	if k.RSA != nil {
		return fmt.Sprintf("RSA-%d", k.RSA.N.BitLen())
	}
	return k.Curve.Name
}

// Ident is a canonical identity of the key material.
func (k *PrivateKey) Ident() string {
	if k.RSA != nil {
		return "rsa:" + k.RSA.N.Text(16) + ":" + k.RSA.D.Text(16)
	}
	return "ec:" + k.Curve.Name + ":" + k.EC.D.Text(16)
}

// Public returns the matching public key computed from the private material.
func (k *PrivateKey) Public() *PublicKey {
	if k.RSA != nil {
		return &PublicKey{RSA: &rsa.PublicKey{N: k.RSA.N, E: k.RSA.E}}
	}
	x, y := k.Curve.Curve.ScalarBaseMult(k.EC.D.Bytes())
	return &PublicKey{EC: &ecdsa.PublicKey{Curve: k.Curve.Curve, X: x, Y: y}, Curve: k.Curve}
}

// SamePublic compares a decoded certificate public key with this key's.
func (k *PrivateKey) SamePublic(p *PublicKey) bool {
	mine := k.Public()
	if (mine.RSA != nil) != (p.RSA != nil) {
		return false
	}
	if mine.RSA != nil {
		return mine.RSA.N.Cmp(p.RSA.N) == 0 && mine.RSA.E == p.RSA.E
	}
	return mine.Curve.OID == p.Curve.OID && mine.EC.X.Cmp(p.EC.X) == 0 && mine.EC.Y.Cmp(p.EC.Y) == 0
}

func ints(ts []refder.TLV) ([]*big.Int, error) {
	out := make([]*big.Int, len(ts))
	for i, t := range ts {
		if !t.IsU(refder.TagInteger) {
			return nil, fmt.Errorf("member %d is not an INTEGER", i)
		}
		n, err := refder.Int(t)
		if err != nil {
			return nil, err
		}
		out[i] = n
	}
	return out, nil
}

// ParsePKCS8 decodes an unencrypted PKCS#8 PrivateKeyInfo (RFC 5208/5958).
func ParsePKCS8(der []byte) (*PrivateKey, error) {
	top, err := refder.ReadAll(der)
	if err != nil {
		return nil, fmt.Errorf("pkcs8: %v", err)
	}
	if !top.IsU(refder.TagSequence) {
		return nil, errors.New("pkcs8: not a SEQUENCE")
	}
	m, err := refder.Children(top.Content)
	if err != nil {
		return nil, fmt.Errorf("pkcs8: %v", err)
	}
	if len(m) < 3 || !m[0].IsU(refder.TagInteger) || !m[2].IsU(refder.TagOctetString) {
		return nil, errors.New("pkcs8: malformed PrivateKeyInfo")
	}
	alg, err := parseAlgID(m[1])
	if err != nil {
		return nil, fmt.Errorf("pkcs8: %v", err)
	}
	switch alg.OID {
	case OIDRSAEncryption:
		t, err := refder.ReadAll(m[2].Content)
		if err != nil || !t.IsU(refder.TagSequence) {
			return nil, fmt.Errorf("pkcs8: RSAPrivateKey: %v", err)
		}
		k, err := refder.Children(t.Content)
		if err != nil || len(k) < 9 {
			return nil, fmt.Errorf("pkcs8: RSAPrivateKey malformed (%v)", err)
		}
		v, err := ints(k[:9])
		if err != nil {
			return nil, fmt.Errorf("pkcs8: RSAPrivateKey: %v", err)
		}
		if v[0].Sign() != 0 {
			return nil, errors.New("pkcs8: multi-prime RSA not supported by the reference decoder")
		}
		if !v[2].IsInt64() {
			return nil, errors.New("pkcs8: RSA exponent too large")
		}
		if new(big.Int).Mul(v[4], v[5]).Cmp(v[1]) != 0 {
			return nil, errors.New("pkcs8: RSA p*q != n")
		}
		key := &rsa.PrivateKey{PublicKey: rsa.PublicKey{N: v[1], E: int(v[2].Int64())}, D: v[3], Primes: []*big.Int{v[4], v[5]}}
		return &PrivateKey{RSA: key}, nil
	case OIDECPublicKey:
		out := &PrivateKey{}
		if alg.Params != nil {
			if pt, err := refder.ReadAll(alg.Params); err == nil && pt.IsU(refder.TagOID) {
				out.OuterCurveOID, _ = refder.OID(pt)
			}
		}
		t, err := refder.ReadAll(m[2].Content)
		if err != nil || !t.IsU(refder.TagSequence) {
			return nil, fmt.Errorf("pkcs8: ECPrivateKey: %v", err)
		}
		k, err := refder.Children(t.Content)
		if err != nil || len(k) < 2 || !k[0].IsU(refder.TagInteger) || !k[1].IsU(refder.TagOctetString) {
			return nil, fmt.Errorf("pkcs8: ECPrivateKey malformed (%v)", err)
		}
		ver, err := refder.Int(k[0])
		if err != nil || ver.Cmp(big.NewInt(1)) != 0 {
			return nil, fmt.Errorf("pkcs8: ECPrivateKey version %v", ver)
		}
		out.ScalarLen = len(k[1].Content)
		var pubBits []byte
		for _, e := range k[2:] {
			switch {
			case e.Is(refder.ClassContext, 0) && e.Constructed:
				if it, err := refder.ReadAll(e.Content); err == nil && it.IsU(refder.TagOID) {
					out.InnerCurveOID, _ = refder.OID(it)
				}
			case e.Is(refder.ClassContext, 1) && e.Constructed:
				if it, err := refder.ReadAll(e.Content); err == nil && it.IsU(refder.TagBitString) {
					b, _, err := refder.BitString(it)
					if err == nil {
						out.HasPublic = true
						pubBits = b
					}
				}
			}
		}
		oid := out.OuterCurveOID
		if oid == "" {
			oid = out.InnerCurveOID
		}
		ci := CurveByOID(oid)
		if ci == nil {
			return nil, fmt.Errorf("pkcs8: unknown or missing curve %q", oid)
		}
		out.Curve = ci
		d := new(big.Int).SetBytes(k[1].Content)
		if d.Sign() == 0 || d.Cmp(ci.Curve.Params().N) >= 0 {
			return nil, errors.New("pkcs8: EC scalar out of range")
		}
		x, y := ci.Curve.ScalarBaseMult(d.Bytes())
		out.EC = &ecdsa.PrivateKey{PublicKey: ecdsa.PublicKey{Curve: ci.Curve, X: x, Y: y}, D: d}
		if pubBits != nil {
			px, py, err := unmarshalPoint(ci, pubBits)
			if err != nil {
				return nil, fmt.Errorf("pkcs8: embedded public key: %v", err)
			}
			if px.Cmp(x) != 0 || py.Cmp(y) != 0 {
				return nil, errors.New("pkcs8: embedded public key does not match the scalar")
			}
		}
		return out, nil
	}
	return nil, fmt.Errorf("pkcs8: unknown algorithm %s", alg.OID)
}

// ECEncoding selects how BuildECPKCS8 lays out the optional parts.
type ECEncoding struct {
	OuterOID   bool // curve OID in the PKCS#8 AlgorithmIdentifier
	InnerOID   bool // curve OID inside ECPrivateKey [0]
	Public     bool // embed [1] publicKey
	Compressed bool // the embedded public key uses the compressed point form (02/03 || X)
	ScalarLen  int  // 0 = fixed width of the curve order; otherwise exact length (must fit)
	V2         bool // RFC 5958 OneAsymmetricKey: version v2(1) and the public key as trailing [1] IMPLICIT BIT STRING
}

// BuildECPKCS8 encodes an EC private key as PKCS#8 with the chosen layout,
// using only refder.
func BuildECPKCS8(ci *CurveInfo, d *big.Int, enc ECEncoding) []byte {
	l := (ci.Curve.Params().N.BitLen() + 7) / 8
	if enc.ScalarLen != 0 {
		l = enc.ScalarLen
	}
	sc := d.Bytes()
	for len(sc) < l {
		sc = append([]byte{0}, sc...)
	}
	parts := [][]byte{refder.EncInt64(1), refder.EncOctets(sc)}
	if enc.InnerOID {
		parts = append(parts, refder.Explicit(0, refder.MustOID(ci.OID)))
	}
	if enc.Public {
		x, y := ci.Curve.ScalarBaseMult(d.Bytes())
		pt := MarshalPoint(ci, x, y)
		if enc.Compressed {
			l := (ci.Curve.Params().BitSize + 7) / 8
			pt = append([]byte{byte(2 + y.Bit(0))}, pt[1:1+l]...)
		}
		parts = append(parts, refder.Explicit(1, refder.EncBitString(pt, 0)))
	}
	ecpk := refder.Seq(parts...)
	algParts := [][]byte{refder.MustOID(OIDECPublicKey)}
	if enc.OuterOID {
		algParts = append(algParts, refder.MustOID(ci.OID))
	}
	if enc.V2 {
		x, y := ci.Curve.ScalarBaseMult(d.Bytes())
		return refder.Seq(refder.EncInt64(1), refder.Seq(algParts...), refder.EncOctets(ecpk),
			refder.Enc(refder.ClassContext, 1, false, refder.BitStringContent(MarshalPoint(ci, x, y), 0)))
	}
	return refder.Seq(refder.EncInt64(0), refder.Seq(algParts...), refder.EncOctets(ecpk))
}

// MarshalPoint is the uncompressed SEC1 encoding.
func MarshalPoint(ci *CurveInfo, x, y *big.Int) []byte {
	l := (ci.Curve.Params().BitSize + 7) / 8
	out := make([]byte, 1+2*l)
	out[0] = 4
	x.FillBytes(out[1 : 1+l])
	y.FillBytes(out[1+l:])
	return out
}

// BuildRSAPKCS8 encodes an RSA key (two primes) as PKCS#8 using only refder.
func BuildRSAPKCS8(k *rsa.PrivateKey) []byte {
	p, q := k.Primes[0], k.Primes[1]
	one := big.NewInt(1)
	dp := new(big.Int).Mod(k.D, new(big.Int).Sub(p, one))
	dq := new(big.Int).Mod(k.D, new(big.Int).Sub(q, one))
	qinv := new(big.Int).ModInverse(q, p)
	body := refder.Seq(refder.EncInt64(0), refder.EncInt(k.N), refder.EncInt64(int64(k.E)), refder.EncInt(k.D),
		refder.EncInt(p), refder.EncInt(q), refder.EncInt(dp), refder.EncInt(dq), refder.EncInt(qinv))
	return refder.Seq(refder.EncInt64(0), refder.Seq(refder.MustOID(OIDRSAEncryption), refder.EncNull()), refder.EncOctets(body))
}

// BuildRSAPKCS8V2 is the same key as an RFC 5958 OneAsymmetricKey: version v2(1) and the
// RSAPublicKey as trailing [1] IMPLICIT BIT STRING (what BouncyCastle and RustCrypto write).
func BuildRSAPKCS8V2(k *rsa.PrivateKey) []byte {
	top, _ := refder.ReadAll(BuildRSAPKCS8(k))
	m, _ := refder.Children(top.Content)
	pub := refder.Seq(refder.EncInt(k.N), refder.EncInt64(int64(k.E)))
	return refder.Seq(refder.EncInt64(1), m[1].Full, m[2].Full, refder.Enc(refder.ClassContext, 1, false, refder.BitStringContent(pub, 0)))
}

// CSR is a decoded PKCS#10 request (only what the properties need).
type CSR struct {
	Raw     []byte
	SPKIRaw []byte
	SPKIAlg AlgID
	PubKey  BitStr
}

func ParseCSR(der []byte) (*CSR, error) {
	top, err := refder.ReadAll(der)
	if err != nil || !top.IsU(refder.TagSequence) {
		return nil, fmt.Errorf("csr: %v", err)
	}
	m, err := refder.Children(top.Content)
	if err != nil || len(m) != 3 || !m[0].IsU(refder.TagSequence) {
		return nil, fmt.Errorf("csr: malformed (%v)", err)
	}
	info, err := refder.Children(m[0].Content)
	if err != nil || len(info) < 3 {
		return nil, fmt.Errorf("csr: malformed info (%v)", err)
	}
	out := &CSR{Raw: der, SPKIRaw: info[2].Full}
	sp, err := refder.Children(info[2].Content)
	if err != nil || len(sp) != 2 {
		return nil, fmt.Errorf("csr: malformed spki (%v)", err)
	}
	if out.SPKIAlg, err = parseAlgID(sp[0]); err != nil {
		return nil, err
	}
	if out.PubKey, err = parseBitStr(sp[1]); err != nil {
		return nil, err
	}
	return out, nil
}

// SPKIFor builds the SubjectPublicKeyInfo of a private key with refder.
func SPKIFor(k *PrivateKey) []byte {
	if k.RSA != nil {
		pk := refder.Seq(refder.EncInt(k.RSA.N), refder.EncInt64(int64(k.RSA.E)))
		return refder.Seq(refder.Seq(refder.MustOID(OIDRSAEncryption), refder.EncNull()), refder.EncBitString(pk, 0))
	}
	pub := k.Public()
	return refder.Seq(refder.Seq(refder.MustOID(OIDECPublicKey), refder.MustOID(k.Curve.OID)),
		refder.EncBitString(MarshalPoint(k.Curve, pub.EC.X, pub.EC.Y), 0))
}

// BuildCSR makes a minimal PKCS#10 request for the key. The signature is a
// placeholder unless sign is given (gopki never verifies requests).
func BuildCSR(k *PrivateKey, cn string, sign func(tbs []byte) (algID []byte, sig []byte)) []byte {
	name := refder.Seq(refder.SetOf(refder.Seq(refder.MustOID("2.5.4.3"), refder.EncUTF8(cn))))
	info := refder.Seq(refder.EncInt64(0), name, SPKIFor(k), refder.Enc(refder.ClassContext, 0, true, nil))
	alg := refder.Seq(refder.MustOID(OIDSHA256ECDSA))
	sig := []byte{0x30, 0x06, 0x02, 0x01, 0x01, 0x02, 0x01, 0x01}
	if sign != nil {
		alg, sig = sign(info)
	}
	return refder.Seq(info, alg, refder.EncBitString(sig, 0))
}

// ECScalarWithTrailingZeroBits returns the smallest scalar d >= 2 whose
// uncompressed public point ends in at least `bits` zero bits, so that the
// same octets can be carried by a DER BIT STRING that declares that many
// unused bits.
func ECScalarWithTrailingZeroBits(ci *CurveInfo, bits int) *big.Int {
	mask := byte(1<<uint(bits) - 1)
	for d := int64(2); ; d++ {
		x, y := ci.Curve.ScalarBaseMult(big.NewInt(d).Bytes())
		pt := MarshalPoint(ci, x, y)
		if pt[len(pt)-1]&mask == 0 {
			return big.NewInt(d)
		}
	}
}

// BuildCSRUnusedBits is BuildCSR for an EC key whose subjectPublicKey BIT
// STRING declares `unused` unused bits (the point must end in that many zero
// bits; see ECScalarWithTrailingZeroBits).
func BuildCSRUnusedBits(ci *CurveInfo, d *big.Int, unused int, cn string) []byte {
	x, y := ci.Curve.ScalarBaseMult(d.Bytes())
	spki := refder.Seq(refder.Seq(refder.MustOID(OIDECPublicKey), refder.MustOID(ci.OID)),
		refder.EncBitString(MarshalPoint(ci, x, y), unused))
	name := refder.Seq(refder.SetOf(refder.Seq(refder.MustOID("2.5.4.3"), refder.EncUTF8(cn))))
	info := refder.Seq(refder.EncInt64(0), name, spki, refder.Enc(refder.ClassContext, 0, true, nil))
	return refder.Seq(info, refder.Seq(refder.MustOID(OIDSHA256ECDSA)), refder.EncBitString([]byte{0x30, 0x06, 0x02, 0x01, 0x01, 0x02, 0x01, 0x01}, 0))
}
