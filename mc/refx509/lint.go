package refx509

import (
	"bytes"
	"fmt"
	"unicode/utf8"

	"verif/mc/refder"
)

// LintIssue is one departure from canonical DER / RFC 5280 structure.
type LintIssue struct {
	Class  string
	Detail string
}

// Reencode rebuilds a TLV tree from its decoded parts.
func Reencode(b []byte) ([]byte, error) {
	t, rest, err := refder.Read(b)
	if err != nil {
		return nil, err
	}
	if len(rest) != 0 {
		return nil, fmt.Errorf("%d trailing bytes", len(rest))
	}
	return reenc(t)
}

func reenc(t refder.TLV) ([]byte, error) {
	if !t.Constructed {
		return refder.Enc(t.Class, t.Tag, false, t.Content), nil
	}
	kids, err := refder.Children(t.Content)
	if err != nil {
		return nil, err
	}
	var c []byte
	for _, k := range kids {
		e, err := reenc(k)
		if err != nil {
			return nil, err
		}
		c = append(c, e...)
	}
	return refder.Enc(t.Class, t.Tag, true, c), nil
}

// LintCert checks a certificate for canonical DER and the structural rules of
// the C02 statement. structured[i] tells whether extension i was generated
// from structured content (then its value must itself be canonical DER).
func LintCert(der []byte, structured func(i int, oid string) bool) []LintIssue {
	var out []LintIssue
	add := func(class, f string, a ...any) { out = append(out, LintIssue{class, fmt.Sprintf(f, a...)}) }
	if err := refder.Lint(der); err != nil {
		add("der/non-canonical", "%v", err)
		return out
	}
	re, err := Reencode(der)
	if err != nil || !bytes.Equal(re, der) {
		add("der/reencode-differs", "decode then re-encode does not reproduce the bytes (%v)", err)
	}
	c, err := ParseCert(der)
	if err != nil {
		add("structure/not-a-certificate", "%v", err)
		return out
	}
	if c.VersionPresent && c.Version.Sign() == 0 {
		add("default/version-v1-encoded", "version [0] present with DEFAULT value 0")
	}
	for i, e := range c.Exts {
		if e.CriticalPresent && !e.Critical {
			add("default/critical-false-encoded", "extension #%d %s encodes critical FALSE", i, e.OID)
		}
	}
	if c.ExtsPresent && len(c.Exts) == 0 {
		add("structure/empty-extensions", "extensions field present but empty (SIZE (1..MAX))")
	}
	// names: string contents
	for _, dn := range [][]RDN{c.Issuer, c.Subject} {
		for _, r := range dn {
			for _, a := range r {
				if a.Tag == refder.TagUTF8 && !utf8.Valid(a.Value) {
					add("string/invalid-utf8", "%s value is not valid UTF-8", a.OID)
				}
			}
		}
	}
	// public key
	switch c.SPKIAlg.OID {
	case OIDRSAEncryption:
		if err := refder.Lint(c.PubKey.Bytes); err != nil {
			add("spki/rsa-key-not-der", "%v", err)
		}
	}
	if _, err := c.PublicKey(); err != nil {
		add("spki/undecodable", "%v", err)
	}
	// signature value
	if SigFamily(c.OuterSig.OID) == "EC" {
		if err := refder.Lint(c.Sig.Bytes); err != nil {
			add("signature/ecdsa-sig-value-not-der", "%v", err)
		}
	}
	if c.Sig.Unused != 0 {
		add("signature/unused-bits", "%d", c.Sig.Unused)
	}
	// extension values
	for i, e := range c.Exts {
		if structured == nil || !structured(i, e.OID) {
			continue
		}
		if err := refder.Lint(e.Value); err != nil {
			add("extension/value-not-der oid="+e.OID, "extension #%d: %v", i, err)
			continue
		}
		if e.OID == "2.5.29.15" { // keyUsage: named bit list
			t, err := refder.ReadAll(e.Value)
			if err == nil && t.IsU(refder.TagBitString) {
				b, un, err := refder.BitString(t)
				if err == nil {
					if len(b) > 0 && b[len(b)-1] == 0 {
						add("named-bit-list/trailing-zero-octet oid="+e.OID, "keyUsage %x", e.Value)
					} else if len(b) > 0 && (b[len(b)-1]>>uint(un))&1 == 0 {
						add("named-bit-list/trailing-zero-bits oid="+e.OID, "keyUsage %x: last named bit is 0 (unused=%d)", e.Value, un)
					} else if len(b) == 0 && un != 0 {
						add("named-bit-list/empty-with-unused oid="+e.OID, "keyUsage %x", e.Value)
					}
				}
			}
		}
	}
	return out
}
