// Package refx509 decodes certificates, keys and requests over refder into
// abstract models and verifies signatures. It does not use encoding/asn1 or
// crypto/x509 for decoding.
package refx509

import (
	"bytes"
	"crypto"
	"crypto/ecdsa"
	"crypto/elliptic"
	"crypto/rsa"
	"crypto/sha1"
	"crypto/sha256"
	"crypto/sha512"
	"encoding/pem"
	"errors"
	"fmt"
	"math/big"
	"strings"
	"time"

	"github.com/keybase/go-crypto/brainpool"

	"verif/mc/refder"
)

// Well-known OIDs.
const (
	OIDRSAEncryption = "1.2.840.113549.1.1.1"
	OIDECPublicKey   = "1.2.840.10045.2.1"

	OIDSHA1RSA     = "1.2.840.113549.1.1.5"
	OIDSHA256RSA   = "1.2.840.113549.1.1.11"
	OIDSHA384RSA   = "1.2.840.113549.1.1.12"
	OIDSHA512RSA   = "1.2.840.113549.1.1.13"
	OIDSHA1ECDSA   = "1.2.840.10045.4.1"
	OIDSHA256ECDSA = "1.2.840.10045.4.3.2"
	OIDSHA384ECDSA = "1.2.840.10045.4.3.3"
	OIDSHA512ECDSA = "1.2.840.10045.4.3.4"
)

// SigAlgByName maps configuration names to OIDs.
var SigAlgByName = map[string]string{
	"RSAwithSHA1": OIDSHA1RSA, "RSAwithSHA256": OIDSHA256RSA, "RSAwithSHA384": OIDSHA384RSA, "RSAwithSHA512": OIDSHA512RSA,
	"ECDSAwithSHA1": OIDSHA1ECDSA, "ECDSAwithSHA256": OIDSHA256ECDSA, "ECDSAwithSHA384": OIDSHA384ECDSA, "ECDSAwithSHA512": OIDSHA512ECDSA,
}

// SigAlgNames in documentation order.
var SigAlgNames = []string{"RSAwithSHA1", "RSAwithSHA256", "RSAwithSHA384", "RSAwithSHA512", "ECDSAwithSHA1", "ECDSAwithSHA256", "ECDSAwithSHA384", "ECDSAwithSHA512"}

// KeyAlgNames in documentation order.
var KeyAlgNames = []string{"RSA-1024", "RSA-2048", "RSA-4096", "RSA-8192", "P-224", "P-256", "P-384", "P-521",
	"brainpoolP256r1", "brainpoolP384r1", "brainpoolP512r1", "brainpoolP256t1", "brainpoolP384t1", "brainpoolP512t1"}

// CurveInfo describes a named curve from the standards (SEC 2, RFC 5639).
type CurveInfo struct {
	Name  string
	OID   string
	Bits  int
	Curve elliptic.Curve
}

var Curves = []CurveInfo{
	{"P-224", "1.3.132.0.33", 224, elliptic.P224()},
	{"P-256", "1.2.840.10045.3.1.7", 256, elliptic.P256()},
	{"P-384", "1.3.132.0.34", 384, elliptic.P384()},
	{"P-521", "1.3.132.0.35", 521, elliptic.P521()},
	{"brainpoolP256r1", "1.3.36.3.3.2.8.1.1.7", 256, brainpool.P256r1()},
	{"brainpoolP384r1", "1.3.36.3.3.2.8.1.1.11", 384, brainpool.P384r1()},
	{"brainpoolP512r1", "1.3.36.3.3.2.8.1.1.13", 512, brainpool.P512r1()},
	{"brainpoolP256t1", "1.3.36.3.3.2.8.1.1.8", 256, brainpool.P256t1()},
	{"brainpoolP384t1", "1.3.36.3.3.2.8.1.1.12", 384, brainpool.P384t1()},
	{"brainpoolP512t1", "1.3.36.3.3.2.8.1.1.14", 512, brainpool.P512t1()},
}

func CurveByOID(oid string) *CurveInfo {
	for i := range Curves {
		if Curves[i].OID == oid {
			return &Curves[i]
		}
	}
	return nil
}

func CurveByName(name string) *CurveInfo {
	for i := range Curves {
		if Curves[i].Name == name {
			return &Curves[i]
		}
	}
	return nil
}

// RSABits returns the modulus length for an RSA-nnnn name, or 0.
func RSABits(name string) int {
	switch name {
	case "RSA-1024":
		return 1024
	case "RSA-2048":
		return 2048
	case "RSA-4096":
		return 4096
	case "RSA-8192":
		return 8192
	}
	return 0
}

type AlgID struct {
	OID    string
	Params []byte // complete TLV of the parameters, nil if absent
	Raw    []byte
}

type ATV struct {
	OID   string
	Tag   int    // universal tag of the value (12 UTF8, 19 Printable, ...), -1 if not universal
	Value []byte // content octets
	Raw   []byte // TLV of the value
}

type RDN []ATV

type Time struct {
	Tag  int // 23 UTCTime, 24 GeneralizedTime
	Text string
	T    time.Time
}

type Ext struct {
	OID             string
	Critical        bool
	CriticalPresent bool
	Value           []byte // content of the extnValue OCTET STRING
}

type BitStr struct {
	Bytes  []byte
	Unused int
}

type Cert struct {
	Raw            []byte
	TBSRaw         []byte
	VersionPresent bool
	Version        *big.Int
	Serial         *big.Int
	SerialContent  []byte
	InnerSig       AlgID
	OuterSig       AlgID
	IssuerRaw      []byte
	Issuer         []RDN
	NotBefore      Time
	NotAfter       Time
	SubjectRaw     []byte
	Subject        []RDN
	SPKIRaw        []byte
	SPKIAlg        AlgID
	PubKey         BitStr
	IssuerUID      *BitStr
	SubjectUID     *BitStr
	ExtsPresent    bool
	Exts           []Ext
	Sig            BitStr
	// FieldRaw holds the raw TLV of each top-level TBS field in order, keyed by name.
	FieldOrder []string
	FieldRaw   map[string][]byte
}

func parseAlgID(t refder.TLV) (AlgID, error) {
	a := AlgID{Raw: t.Full}
	if !t.IsU(refder.TagSequence) {
		return a, errors.New("AlgorithmIdentifier is not a SEQUENCE")
	}
	kids, err := refder.Children(t.Content)
	if err != nil {
		return a, err
	}
	if len(kids) < 1 || len(kids) > 2 {
		return a, fmt.Errorf("AlgorithmIdentifier has %d members", len(kids))
	}
	if !kids[0].IsU(refder.TagOID) {
		return a, errors.New("AlgorithmIdentifier.algorithm is not an OID")
	}
	a.OID, err = refder.OID(kids[0])
	if err != nil {
		return a, err
	}
	if len(kids) == 2 {
		a.Params = kids[1].Full
	}
	return a, nil
}

func parseName(t refder.TLV) ([]RDN, error) {
	if !t.IsU(refder.TagSequence) {
		return nil, errors.New("Name is not a SEQUENCE")
	}
	sets, err := refder.Children(t.Content)
	if err != nil {
		return nil, err
	}
	var out []RDN
	for _, s := range sets {
		if !s.IsU(refder.TagSet) {
			return nil, errors.New("RDN is not a SET")
		}
		atvs, err := refder.Children(s.Content)
		if err != nil {
			return nil, err
		}
		if len(atvs) == 0 {
			return nil, errors.New("empty RDN")
		}
		var rdn RDN
		for _, a := range atvs {
			if !a.IsU(refder.TagSequence) {
				return nil, errors.New("AttributeTypeAndValue is not a SEQUENCE")
			}
			kv, err := refder.Children(a.Content)
			if err != nil {
				return nil, err
			}
			if len(kv) != 2 || !kv[0].IsU(refder.TagOID) {
				return nil, errors.New("malformed AttributeTypeAndValue")
			}
			oid, err := refder.OID(kv[0])
			if err != nil {
				return nil, err
			}
			tag := -1
			if kv[1].Class == refder.ClassUniversal {
				tag = kv[1].Tag
			}
			rdn = append(rdn, ATV{OID: oid, Tag: tag, Value: kv[1].Content, Raw: kv[1].Full})
		}
		out = append(out, rdn)
	}
	return out, nil
}

func parseTime(t refder.TLV) (Time, error) {
	out := Time{Text: string(t.Content)}
	switch {
	case t.IsU(refder.TagUTCTime):
		out.Tag = refder.TagUTCTime
		if len(t.Content) != 13 || t.Content[12] != 'Z' {
			return out, fmt.Errorf("UTCTime %q not YYMMDDHHMMSSZ", t.Content)
		}
		tt, err := time.Parse("060102150405Z", string(t.Content))
		if err != nil {
			return out, err
		}
		// RFC 5280: YY >= 50 -> 19YY else 20YY (Go's two-digit year pivot is 69)
		yy := int(t.Content[0]-'0')*10 + int(t.Content[1]-'0')
		year := 2000 + yy
		if yy >= 50 {
			year = 1900 + yy
		}
		out.T = time.Date(year, tt.Month(), tt.Day(), tt.Hour(), tt.Minute(), tt.Second(), 0, time.UTC)
	case t.IsU(refder.TagGenTime):
		out.Tag = refder.TagGenTime
		if len(t.Content) != 15 || t.Content[14] != 'Z' {
			return out, fmt.Errorf("GeneralizedTime %q not YYYYMMDDHHMMSSZ", t.Content)
		}
		tt, err := time.Parse("20060102150405Z", string(t.Content))
		if err != nil {
			return out, err
		}
		out.T = tt
	default:
		return out, fmt.Errorf("time has tag %v", t)
	}
	return out, nil
}

func parseBitStr(t refder.TLV) (BitStr, error) {
	b, un, err := refder.BitString(t)
	return BitStr{Bytes: b, Unused: un}, err
}

// ParseCert decodes a certificate. It is strict about DER but makes no
// assumption about field *values* (so manipulated certificates decode).
func ParseCert(der []byte) (*Cert, error) {
	c := &Cert{Raw: der, FieldRaw: map[string][]byte{}}
	top, err := refder.ReadAll(der)
	if err != nil {
		return nil, fmt.Errorf("certificate: %v", err)
	}
	if !top.IsU(refder.TagSequence) {
		return nil, errors.New("certificate is not a SEQUENCE")
	}
	parts, err := refder.Children(top.Content)
	if err != nil {
		return nil, fmt.Errorf("certificate: %v", err)
	}
	if len(parts) != 3 {
		return nil, fmt.Errorf("certificate has %d members", len(parts))
	}
	c.TBSRaw = parts[0].Full
	if c.OuterSig, err = parseAlgID(parts[1]); err != nil {
		return nil, fmt.Errorf("signatureAlgorithm: %v", err)
	}
	if !parts[2].IsU(refder.TagBitString) {
		return nil, errors.New("signatureValue is not a BIT STRING")
	}
	if c.Sig, err = parseBitStr(parts[2]); err != nil {
		return nil, fmt.Errorf("signatureValue: %v", err)
	}
	if !parts[0].IsU(refder.TagSequence) {
		return nil, errors.New("tbsCertificate is not a SEQUENCE")
	}
	f, err := refder.Children(parts[0].Content)
	if err != nil {
		return nil, fmt.Errorf("tbsCertificate: %v", err)
	}
	i := 0
	next := func(name string) (refder.TLV, error) {
		if i >= len(f) {
			return refder.TLV{}, fmt.Errorf("tbsCertificate: missing %s", name)
		}
		t := f[i]
		i++
		c.FieldOrder = append(c.FieldOrder, name)
		c.FieldRaw[name] = t.Full
		return t, nil
	}
	if i < len(f) && f[i].Is(refder.ClassContext, 0) {
		t, _ := next("version")
		if !t.Constructed {
			return nil, errors.New("version: [0] not constructed")
		}
		inner, err := refder.ReadAll(t.Content)
		if err != nil || !inner.IsU(refder.TagInteger) {
			return nil, fmt.Errorf("version: not an INTEGER (%v)", err)
		}
		c.VersionPresent = true
		if c.Version, err = refder.Int(inner); err != nil {
			return nil, fmt.Errorf("version: %v", err)
		}
	} else {
		c.Version = big.NewInt(0)
	}
	t, err := next("serialNumber")
	if err != nil {
		return nil, err
	}
	if !t.IsU(refder.TagInteger) {
		return nil, errors.New("serialNumber is not an INTEGER")
	}
	c.SerialContent = t.Content
	if c.Serial, err = refder.Int(t); err != nil {
		return nil, fmt.Errorf("serialNumber: %v", err)
	}
	if t, err = next("signature"); err != nil {
		return nil, err
	}
	if c.InnerSig, err = parseAlgID(t); err != nil {
		return nil, fmt.Errorf("tbs.signature: %v", err)
	}
	if t, err = next("issuer"); err != nil {
		return nil, err
	}
	c.IssuerRaw = t.Full
	if c.Issuer, err = parseName(t); err != nil {
		return nil, fmt.Errorf("issuer: %v", err)
	}
	if t, err = next("validity"); err != nil {
		return nil, err
	}
	if !t.IsU(refder.TagSequence) {
		return nil, errors.New("validity is not a SEQUENCE")
	}
	vt, err := refder.Children(t.Content)
	if err != nil || len(vt) != 2 {
		return nil, fmt.Errorf("validity malformed (%v)", err)
	}
	if c.NotBefore, err = parseTime(vt[0]); err != nil {
		return nil, fmt.Errorf("notBefore: %v", err)
	}
	if c.NotAfter, err = parseTime(vt[1]); err != nil {
		return nil, fmt.Errorf("notAfter: %v", err)
	}
	if t, err = next("subject"); err != nil {
		return nil, err
	}
	c.SubjectRaw = t.Full
	if c.Subject, err = parseName(t); err != nil {
		return nil, fmt.Errorf("subject: %v", err)
	}
	if t, err = next("subjectPublicKeyInfo"); err != nil {
		return nil, err
	}
	c.SPKIRaw = t.Full
	if !t.IsU(refder.TagSequence) {
		return nil, errors.New("subjectPublicKeyInfo is not a SEQUENCE")
	}
	sp, err := refder.Children(t.Content)
	if err != nil || len(sp) != 2 {
		return nil, fmt.Errorf("subjectPublicKeyInfo malformed (%v)", err)
	}
	if c.SPKIAlg, err = parseAlgID(sp[0]); err != nil {
		return nil, fmt.Errorf("spki.algorithm: %v", err)
	}
	if !sp[1].IsU(refder.TagBitString) {
		return nil, errors.New("subjectPublicKey is not a BIT STRING")
	}
	if c.PubKey, err = parseBitStr(sp[1]); err != nil {
		return nil, fmt.Errorf("subjectPublicKey: %v", err)
	}
	if i < len(f) && f[i].Is(refder.ClassContext, 1) {
		t, _ := next("issuerUniqueID")
		if t.Constructed {
			return nil, errors.New("issuerUniqueID constructed")
		}
		bs, err := parseBitStr(t)
		if err != nil {
			return nil, fmt.Errorf("issuerUniqueID: %v", err)
		}
		c.IssuerUID = &bs
	}
	if i < len(f) && f[i].Is(refder.ClassContext, 2) {
		t, _ := next("subjectUniqueID")
		if t.Constructed {
			return nil, errors.New("subjectUniqueID constructed")
		}
		bs, err := parseBitStr(t)
		if err != nil {
			return nil, fmt.Errorf("subjectUniqueID: %v", err)
		}
		c.SubjectUID = &bs
	}
	if i < len(f) && f[i].Is(refder.ClassContext, 3) {
		t, _ := next("extensions")
		if !t.Constructed {
			return nil, errors.New("extensions: [3] not constructed")
		}
		seq, err := refder.ReadAll(t.Content)
		if err != nil || !seq.IsU(refder.TagSequence) {
			return nil, fmt.Errorf("extensions: not a SEQUENCE (%v)", err)
		}
		c.ExtsPresent = true
		es, err := refder.Children(seq.Content)
		if err != nil {
			return nil, fmt.Errorf("extensions: %v", err)
		}
		for n, e := range es {
			if !e.IsU(refder.TagSequence) {
				return nil, fmt.Errorf("extension %d is not a SEQUENCE", n)
			}
			m, err := refder.Children(e.Content)
			if err != nil || len(m) < 2 || len(m) > 3 || !m[0].IsU(refder.TagOID) {
				return nil, fmt.Errorf("extension %d malformed (%v)", n, err)
			}
			var x Ext
			if x.OID, err = refder.OID(m[0]); err != nil {
				return nil, err
			}
			vi := 1
			if len(m) == 3 {
				if !m[1].IsU(refder.TagBoolean) {
					return nil, fmt.Errorf("extension %d: second member is not BOOLEAN", n)
				}
				x.CriticalPresent = true
				if x.Critical, err = refder.Bool(m[1]); err != nil {
					return nil, fmt.Errorf("extension %d critical: %v", n, err)
				}
				vi = 2
			}
			if !m[vi].IsU(refder.TagOctetString) {
				return nil, fmt.Errorf("extension %d: extnValue is not an OCTET STRING", n)
			}
			x.Value = m[vi].Content
			c.Exts = append(c.Exts, x)
		}
	}
	if i != len(f) {
		return nil, fmt.Errorf("tbsCertificate: %d unexpected trailing members (next %v)", len(f)-i, f[i])
	}
	return c, nil
}

// ExtByOID returns all extensions with the OID.
func (c *Cert) ExtByOID(oid string) []Ext {
	var out []Ext
	for _, e := range c.Exts {
		if e.OID == oid {
			out = append(out, e)
		}
	}
	return out
}

// PublicKey is a decoded SubjectPublicKeyInfo key.
type PublicKey struct {
	RSA   *rsa.PublicKey
	EC    *ecdsa.PublicKey
	Curve *CurveInfo
}

func (p *PublicKey) Family() string {
	if p.RSA != nil {
		return "RSA"
	}
	return "EC"
}

// Describe names the algorithm the way the configuration does.
func (p *PublicKey) Describe() string {
	if p.RSA != nil {
		return fmt.Sprintf("RSA-%d", p.RSA.N.BitLen())
	}
	return p.Curve.Name
}

// ParseSPKI decodes the algorithm and key bits of a SubjectPublicKeyInfo.
func ParseSPKI(alg AlgID, key BitStr) (*PublicKey, error) {
	if key.Unused != 0 {
		return nil, errors.New("subjectPublicKey has unused bits")
	}
	switch alg.OID {
	case OIDRSAEncryption:
		if !bytes.Equal(alg.Params, []byte{5, 0}) {
			return nil, fmt.Errorf("rsaEncryption parameters are %x, want NULL", alg.Params)
		}
		t, err := refder.ReadAll(key.Bytes)
		if err != nil || !t.IsU(refder.TagSequence) {
			return nil, fmt.Errorf("RSAPublicKey: %v", err)
		}
		k, err := refder.Children(t.Content)
		if err != nil || len(k) != 2 || !k[0].IsU(refder.TagInteger) || !k[1].IsU(refder.TagInteger) {
			return nil, fmt.Errorf("RSAPublicKey malformed (%v)", err)
		}
		n, err := refder.Int(k[0])
		if err != nil {
			return nil, err
		}
		e, err := refder.Int(k[1])
		if err != nil {
			return nil, err
		}
		if n.Sign() <= 0 || e.Sign() <= 0 || !e.IsInt64() {
			return nil, errors.New("RSAPublicKey: bad n/e")
		}
		return &PublicKey{RSA: &rsa.PublicKey{N: n, E: int(e.Int64())}}, nil
	case OIDECPublicKey:
		if alg.Params == nil {
			return nil, errors.New("id-ecPublicKey without parameters")
		}
		pt, err := refder.ReadAll(alg.Params)
		if err != nil || !pt.IsU(refder.TagOID) {
			return nil, fmt.Errorf("EC parameters are not a named curve (%v)", err)
		}
		oid, err := refder.OID(pt)
		if err != nil {
			return nil, err
		}
		ci := CurveByOID(oid)
		if ci == nil {
			return nil, fmt.Errorf("unknown curve OID %s", oid)
		}
		x, y, err := unmarshalPoint(ci, key.Bytes)
		if err != nil {
			return nil, err
		}
		return &PublicKey{EC: &ecdsa.PublicKey{Curve: ci.Curve, X: x, Y: y}, Curve: ci}, nil
	}
	return nil, fmt.Errorf("unknown public key algorithm %s", alg.OID)
}

func unmarshalPoint(ci *CurveInfo, b []byte) (*big.Int, *big.Int, error) {
	l := (ci.Curve.Params().BitSize + 7) / 8
	if len(b) == 1+l && (b[0] == 2 || b[0] == 3) && strings.HasPrefix(ci.Name, "P-") {
		// compressed form (SEC1 2.3.4), which RFC 5480 permits in certificates of other tools
		x, y := elliptic.UnmarshalCompressed(ci.Curve, b)
		if x == nil {
			return nil, nil, errors.New("compressed EC point not on curve " + ci.Name)
		}
		return x, y, nil
	}
	if len(b) != 1+2*l || b[0] != 4 {
		return nil, nil, fmt.Errorf("EC point: want uncompressed %d bytes, got %d (first %x)", 1+2*l, len(b), b[:min(1, len(b))])
	}
	x := new(big.Int).SetBytes(b[1 : 1+l])
	y := new(big.Int).SetBytes(b[1+l:])
	if !ci.Curve.IsOnCurve(x, y) {
		return nil, nil, errors.New("EC point not on curve " + ci.Name)
	}
	return x, y, nil
}

func min(a, b int) int {
	if a < b {
		return a
	}
	return b
}

// PublicKey decodes the certificate's own SPKI.
func (c *Cert) PublicKey() (*PublicKey, error) { return ParseSPKI(c.SPKIAlg, c.PubKey) }

func hashFor(sigOID string) (crypto.Hash, string, error) {
	switch sigOID {
	case OIDSHA1RSA:
		return crypto.SHA1, "RSA", nil
	case OIDSHA256RSA:
		return crypto.SHA256, "RSA", nil
	case OIDSHA384RSA:
		return crypto.SHA384, "RSA", nil
	case OIDSHA512RSA:
		return crypto.SHA512, "RSA", nil
	case OIDSHA1ECDSA:
		return crypto.SHA1, "EC", nil
	case OIDSHA256ECDSA:
		return crypto.SHA256, "EC", nil
	case OIDSHA384ECDSA:
		return crypto.SHA384, "EC", nil
	case OIDSHA512ECDSA:
		return crypto.SHA512, "EC", nil
	}
	return 0, "", fmt.Errorf("unknown signature algorithm %s", sigOID)
}

// SigFamily returns "RSA" or "EC" for a signature algorithm OID.
func SigFamily(oid string) string {
	_, f, _ := hashFor(oid)
	return f
}

func digest(h crypto.Hash, b []byte) []byte {
	switch h {
	case crypto.SHA1:
		s := sha1.Sum(b)
		return s[:]
	case crypto.SHA256:
		s := sha256.Sum256(b)
		return s[:]
	case crypto.SHA384:
		s := sha512.Sum384(b)
		return s[:]
	case crypto.SHA512:
		s := sha512.Sum512(b)
		return s[:]
	}
	return nil
}

// VerifyWith checks sig over tbs under pub with the algorithm named by sigOID.
func VerifyWith(pub *PublicKey, sigOID string, tbs []byte, sig BitStr) error {
	h, fam, err := hashFor(sigOID)
	if err != nil {
		return err
	}
	if sig.Unused != 0 {
		return errors.New("signature BIT STRING has unused bits")
	}
	d := digest(h, tbs)
	switch fam {
	case "RSA":
		if pub.RSA == nil {
			return errors.New("RSA signature algorithm but issuer key is not RSA")
		}
		return rsa.VerifyPKCS1v15(pub.RSA, h, d, sig.Bytes)
	default:
		if pub.EC == nil {
			return errors.New("ECDSA signature algorithm but issuer key is not EC")
		}
		t, err := refder.ReadAll(sig.Bytes)
		if err != nil || !t.IsU(refder.TagSequence) {
			return fmt.Errorf("ECDSA-Sig-Value: %v", err)
		}
		k, err := refder.Children(t.Content)
		if err != nil || len(k) != 2 {
			return fmt.Errorf("ECDSA-Sig-Value malformed (%v)", err)
		}
		r, err := refder.Int(k[0])
		if err != nil {
			return err
		}
		s, err := refder.Int(k[1])
		if err != nil {
			return err
		}
		if !ecdsa.Verify(pub.EC, d, r, s) {
			return errors.New("ECDSA signature does not verify")
		}
		return nil
	}
}

// VerifyUnder verifies c's signature, using the algorithm its own outer
// signatureAlgorithm names, under the issuer certificate's public key.
func (c *Cert) VerifyUnder(issuer *Cert) error {
	pub, err := issuer.PublicKey()
	if err != nil {
		return fmt.Errorf("issuer key: %v", err)
	}
	return VerifyWith(pub, c.OuterSig.OID, c.TBSRaw, c.Sig)
}

// KeyID is SHA-1 over the subjectPublicKey bits.
func (c *Cert) KeyID() []byte {
	s := sha1.Sum(c.PubKey.Bytes)
	return s[:]
}

// --- PEM files ---

type PemBlock struct {
	Type  string
	Bytes []byte
}

// PemFile is the harness' view of an artifact file.
type PemFile struct {
	HashLine  *string // raw text after "#HASH:" up to newline, nil if absent
	Blocks    []PemBlock
	Trailing  bool // undecodable rest
	CertDER   []byte
	KeyDER    []byte
	ReqDER    []byte
	NumCerts  int
	NumKeys   int
	NumReqs   int
	BlockText map[int]string
}

// SplitPem decodes an artifact file with the standard library's PEM decoder.
func SplitPem(data []byte) *PemFile {
	pf := &PemFile{}
	if i := bytes.Index(data, []byte("#HASH:")); i >= 0 {
		rest := data[i+6:]
		if j := bytes.IndexByte(rest, '\n'); j >= 0 {
			s := string(rest[:j])
			pf.HashLine = &s
		} else {
			s := string(rest)
			pf.HashLine = &s
		}
	}
	rest := data
	for {
		var p *pem.Block
		p, rest = pem.Decode(rest)
		if p == nil {
			break
		}
		pf.Blocks = append(pf.Blocks, PemBlock{p.Type, p.Bytes})
		switch {
		case p.Type == "CERTIFICATE":
			pf.CertDER = p.Bytes
			pf.NumCerts++
		case p.Type == "CERTIFICATE REQUEST":
			pf.ReqDER = p.Bytes
			pf.NumReqs++
		case strings.Contains(p.Type, "PRIVATE KEY"):
			pf.KeyDER = p.Bytes
			pf.NumKeys++
		}
	}
	if len(bytes.TrimSpace(rest)) != 0 {
		pf.Trailing = true
	}
	return pf
}

// EncodePem renders one block the canonical way (RFC 7468 strict, 64 columns).
func EncodePem(typ string, der []byte) []byte {
	return pem.EncodeToMemory(&pem.Block{Type: typ, Bytes: der})
}
