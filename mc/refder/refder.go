// Package refder is a strict DER reader/writer written from X.690, without
// encoding/asn1. The reader rejects every non-canonical form, so "parses with
// refder and re-encodes to the same bytes" is a DER lint.
package refder

import (
	"errors"
	"fmt"
	"math/big"
	"sort"
	"strconv"
	"strings"
)

const (
	ClassUniversal = 0
	ClassApp       = 1
	ClassContext   = 2
	ClassPrivate   = 3
)

const (
	TagBoolean     = 1
	TagInteger     = 2
	TagBitString   = 3
	TagOctetString = 4
	TagNull        = 5
	TagOID         = 6
	TagUTF8        = 12
	TagSequence    = 16
	TagSet         = 17
	TagPrintable   = 19
	TagT61         = 20
	TagIA5         = 22
	TagUTCTime     = 23
	TagGenTime     = 24
	TagBMP         = 30
)

// TLV is one decoded element.
type TLV struct {
	Class       int
	Tag         int
	Constructed bool
	Content     []byte // value octets
	Full        []byte // complete encoding
}

func (t TLV) Is(class, tag int) bool { return t.Class == class && t.Tag == tag }
func (t TLV) IsU(tag int) bool       { return t.Class == ClassUniversal && t.Tag == tag }

func (t TLV) String() string {
	return fmt.Sprintf("[class %d tag %d cons %v len %d]", t.Class, t.Tag, t.Constructed, len(t.Content))
}

// Read parses one TLV from the front of b (strict DER header rules) and
// returns the rest.
func Read(b []byte) (TLV, []byte, error) {
	var t TLV
	if len(b) < 2 {
		return t, nil, errors.New("der: truncated header")
	}
	id := b[0]
	t.Class = int(id >> 6)
	t.Constructed = id&0x20 != 0
	t.Tag = int(id & 0x1f)
	off := 1
	if t.Tag == 0x1f {
		// high tag number form
		t.Tag = 0
		first := true
		for {
			if off >= len(b) {
				return t, nil, errors.New("der: truncated high tag")
			}
			c := b[off]
			off++
			if first && c == 0x80 {
				return t, nil, errors.New("der: non-minimal high tag")
			}
			first = false
			if t.Tag > 1<<23 {
				return t, nil, errors.New("der: tag too large")
			}
			t.Tag = t.Tag<<7 | int(c&0x7f)
			if c&0x80 == 0 {
				break
			}
		}
		if t.Tag < 0x1f {
			return t, nil, errors.New("der: high tag form used for low tag")
		}
	}
	if off >= len(b) {
		return t, nil, errors.New("der: truncated length")
	}
	l := int(b[off])
	off++
	if l == 0x80 {
		return t, nil, errors.New("der: indefinite length")
	}
	if l > 0x80 {
		n := l & 0x7f
		if n > 4 {
			return t, nil, errors.New("der: length too large")
		}
		if off+n > len(b) {
			return t, nil, errors.New("der: truncated long length")
		}
		if b[off] == 0 {
			return t, nil, errors.New("der: non-minimal length (leading zero)")
		}
		l = 0
		for i := 0; i < n; i++ {
			l = l<<8 | int(b[off+i])
		}
		off += n
		if l < 0x80 {
			return t, nil, errors.New("der: non-minimal length (long form for short value)")
		}
	}
	if off+l > len(b) || l < 0 {
		return t, nil, fmt.Errorf("der: content truncated (need %d have %d)", l, len(b)-off)
	}
	t.Content = b[off : off+l]
	t.Full = b[:off+l]
	if t.Class == ClassUniversal {
		switch t.Tag {
		case TagSequence, TagSet:
			if !t.Constructed {
				return t, nil, errors.New("der: primitive SEQUENCE/SET")
			}
		case TagBoolean, TagInteger, TagBitString, TagOctetString, TagNull, TagOID, TagUTF8, TagPrintable, TagIA5, TagUTCTime, TagGenTime, TagT61, TagBMP:
			if t.Constructed {
				return t, nil, errors.New("der: constructed encoding of primitive type")
			}
		}
	}
	return t, b[off+l:], nil
}

// ReadAll parses exactly one TLV consuming all of b.
func ReadAll(b []byte) (TLV, error) {
	t, rest, err := Read(b)
	if err != nil {
		return t, err
	}
	if len(rest) != 0 {
		return t, fmt.Errorf("der: %d trailing bytes", len(rest))
	}
	return t, nil
}

// Children parses the content of a constructed element into its TLVs.
func Children(content []byte) ([]TLV, error) {
	var out []TLV
	for len(content) > 0 {
		t, rest, err := Read(content)
		if err != nil {
			return out, err
		}
		out = append(out, t)
		content = rest
	}
	return out, nil
}

// --- primitive decoders (strict) ---

func Bool(t TLV) (bool, error) {
	if len(t.Content) != 1 {
		return false, errors.New("der: BOOLEAN length != 1")
	}
	switch t.Content[0] {
	case 0:
		return false, nil
	case 0xff:
		return true, nil
	}
	return false, errors.New("der: BOOLEAN not 00/FF")
}

func Int(t TLV) (*big.Int, error) {
	c := t.Content
	if len(c) == 0 {
		return nil, errors.New("der: empty INTEGER")
	}
	if len(c) > 1 {
		if (c[0] == 0 && c[1]&0x80 == 0) || (c[0] == 0xff && c[1]&0x80 != 0) {
			return nil, errors.New("der: non-minimal INTEGER")
		}
	}
	n := new(big.Int).SetBytes(c)
	if c[0]&0x80 != 0 {
		n.Sub(n, new(big.Int).Lsh(big.NewInt(1), uint(8*len(c))))
	}
	return n, nil
}

// BitString returns bytes and the number of unused bits.
func BitString(t TLV) ([]byte, int, error) {
	c := t.Content
	if len(c) == 0 {
		return nil, 0, errors.New("der: empty BIT STRING")
	}
	un := int(c[0])
	if un > 7 {
		return nil, 0, errors.New("der: BIT STRING unused bits > 7")
	}
	if len(c) == 1 && un != 0 {
		return nil, 0, errors.New("der: empty BIT STRING with unused bits")
	}
	if un > 0 && c[len(c)-1]&(byte(1)<<uint(un)-1) != 0 {
		return nil, 0, errors.New("der: BIT STRING padding bits not zero")
	}
	return c[1:], un, nil
}

func OID(t TLV) (string, error) {
	c := t.Content
	if len(c) == 0 {
		return "", errors.New("der: empty OID")
	}
	var arcs []*big.Int
	cur := new(big.Int)
	start := true
	for i, b := range c {
		if start && b == 0x80 {
			return "", errors.New("der: non-minimal OID arc")
		}
		start = false
		cur.Lsh(cur, 7)
		cur.Or(cur, big.NewInt(int64(b&0x7f)))
		if b&0x80 == 0 {
			arcs = append(arcs, cur)
			cur = new(big.Int)
			start = true
		} else if i == len(c)-1 {
			return "", errors.New("der: truncated OID arc")
		}
	}
	first := arcs[0]
	var parts []string
	switch {
	case first.Cmp(big.NewInt(40)) < 0:
		parts = append(parts, "0", first.String())
	case first.Cmp(big.NewInt(80)) < 0:
		parts = append(parts, "1", new(big.Int).Sub(first, big.NewInt(40)).String())
	default:
		parts = append(parts, "2", new(big.Int).Sub(first, big.NewInt(80)).String())
	}
	for _, a := range arcs[1:] {
		parts = append(parts, a.String())
	}
	return strings.Join(parts, "."), nil
}

func isPrintable(s []byte) bool {
	for _, c := range s {
		switch {
		case c >= 'a' && c <= 'z', c >= 'A' && c <= 'Z', c >= '0' && c <= '9':
		case strings.IndexByte(" '()+,-./:=?", c) >= 0:
		default:
			return false
		}
	}
	return true
}

// IsPrintable reports whether s lies inside the PrintableString repertoire.
func IsPrintable(s string) bool { return isPrintable([]byte(s)) }

// --- writers ---

func header(class, tag int, constructed bool, l int) []byte {
	var out []byte
	id := byte(class << 6)
	if constructed {
		id |= 0x20
	}
	if tag < 0x1f {
		out = append(out, id|byte(tag))
	} else {
		out = append(out, id|0x1f)
		var tmp []byte
		for t := tag; t > 0; t >>= 7 {
			tmp = append([]byte{byte(t & 0x7f)}, tmp...)
		}
		for i := range tmp {
			if i < len(tmp)-1 {
				tmp[i] |= 0x80
			}
		}
		out = append(out, tmp...)
	}
	if l < 0x80 {
		return append(out, byte(l))
	}
	var lb []byte
	for x := l; x > 0; x >>= 8 {
		lb = append([]byte{byte(x)}, lb...)
	}
	out = append(out, 0x80|byte(len(lb)))
	return append(out, lb...)
}

// Enc encodes one TLV.
func Enc(class, tag int, constructed bool, content []byte) []byte {
	return append(header(class, tag, constructed, len(content)), content...)
}

func cat(parts ...[]byte) []byte {
	var out []byte
	for _, p := range parts {
		out = append(out, p...)
	}
	return out
}

func Seq(parts ...[]byte) []byte { return Enc(ClassUniversal, TagSequence, true, cat(parts...)) }

// SetOf sorts the element encodings as DER demands.
func SetOf(parts ...[]byte) []byte {
	s := append([][]byte{}, parts...)
	sort.Slice(s, func(i, j int) bool { return string(s[i]) < string(s[j]) })
	return Enc(ClassUniversal, TagSet, true, cat(s...))
}

func Explicit(tag int, inner []byte) []byte { return Enc(ClassContext, tag, true, inner) }

// Implicit retags a primitive value.
func Implicit(tag int, content []byte) []byte { return Enc(ClassContext, tag, false, content) }

func EncBool(v bool) []byte {
	if v {
		return []byte{1, 1, 0xff}
	}
	return []byte{1, 1, 0}
}

func intContent(n *big.Int) []byte {
	if n.Sign() == 0 {
		return []byte{0}
	}
	if n.Sign() > 0 {
		b := n.Bytes()
		if b[0]&0x80 != 0 {
			b = append([]byte{0}, b...)
		}
		return b
	}
	// negative: two's complement
	l := (n.BitLen() + 8) / 8
	m := new(big.Int).Add(n, new(big.Int).Lsh(big.NewInt(1), uint(8*l)))
	b := m.Bytes()
	for len(b) < l {
		b = append([]byte{0xff}, b...)
	}
	for len(b) > 1 && b[0] == 0xff && b[1]&0x80 != 0 {
		b = b[1:]
	}
	return b
}

func EncInt(n *big.Int) []byte     { return Enc(0, TagInteger, false, intContent(n)) }
func EncInt64(n int64) []byte      { return EncInt(big.NewInt(n)) }
func EncOctets(b []byte) []byte    { return Enc(0, TagOctetString, false, b) }
func EncNull() []byte              { return []byte{5, 0} }
func EncUTF8(s string) []byte      { return Enc(0, TagUTF8, false, []byte(s)) }
func EncPrintable(s string) []byte { return Enc(0, TagPrintable, false, []byte(s)) }
func EncIA5(s string) []byte       { return Enc(0, TagIA5, false, []byte(s)) }

func EncBitString(b []byte, unused int) []byte {
	return Enc(0, TagBitString, false, append([]byte{byte(unused)}, b...))
}

// BitStringContent is the content octets (for IMPLICIT retagging).
func BitStringContent(b []byte, unused int) []byte { return append([]byte{byte(unused)}, b...) }

// EncOID encodes a dotted OID with arbitrarily large arcs.
func EncOID(dotted string) ([]byte, error) {
	parts := strings.Split(dotted, ".")
	if len(parts) < 2 {
		return nil, errors.New("der: OID needs two arcs")
	}
	var arcs []*big.Int
	for _, p := range parts {
		n, ok := new(big.Int).SetString(p, 10)
		if !ok || n.Sign() < 0 {
			return nil, errors.New("der: bad OID arc " + strconv.Quote(p))
		}
		arcs = append(arcs, n)
	}
	if arcs[0].Cmp(big.NewInt(2)) > 0 || (arcs[0].Cmp(big.NewInt(2)) < 0 && arcs[1].Cmp(big.NewInt(39)) > 0) {
		return nil, errors.New("der: invalid first OID arcs")
	}
	first := new(big.Int).Add(new(big.Int).Mul(arcs[0], big.NewInt(40)), arcs[1])
	var c []byte
	for _, a := range append([]*big.Int{first}, arcs[2:]...) {
		c = append(c, base128(a)...)
	}
	return Enc(0, TagOID, false, c), nil
}

func MustOID(dotted string) []byte {
	b, err := EncOID(dotted)
	if err != nil {
		panic(err)
	}
	return b
}

func base128(n *big.Int) []byte {
	if n.Sign() == 0 {
		return []byte{0}
	}
	var out []byte
	x := new(big.Int).Set(n)
	m := big.NewInt(0x7f)
	for x.Sign() > 0 {
		out = append([]byte{byte(new(big.Int).And(x, m).Int64())}, out...)
		x.Rsh(x, 7)
	}
	for i := 0; i < len(out)-1; i++ {
		out[i] |= 0x80
	}
	return out
}

// Lint walks a complete DER value and checks every universal primitive it can
// interpret for canonical form. It descends into constructed elements and,
// optionally, into OCTET STRING / BIT STRING contents the caller names.
func Lint(b []byte) error {
	t, err := ReadAll(b)
	if err != nil {
		return err
	}
	return lintTLV(t, "")
}

func lintTLV(t TLV, path string) error {
	if t.Constructed {
		kids, err := Children(t.Content)
		if err != nil {
			return fmt.Errorf("%s: %v", path, err)
		}
		for i, k := range kids {
			if err := lintTLV(k, fmt.Sprintf("%s/%d", path, i)); err != nil {
				return err
			}
		}
		if t.IsU(TagSet) {
			for i := 1; i < len(kids); i++ {
				if string(kids[i-1].Full) > string(kids[i].Full) {
					return fmt.Errorf("%s: SET OF not sorted", path)
				}
			}
		}
		return nil
	}
	if t.Class != ClassUniversal {
		return nil
	}
	var err error
	switch t.Tag {
	case TagBoolean:
		_, err = Bool(t)
	case TagInteger:
		_, err = Int(t)
	case TagBitString:
		_, _, err = BitString(t)
	case TagOID:
		_, err = OID(t)
	case TagNull:
		if len(t.Content) != 0 {
			err = errors.New("der: NULL with content")
		}
	case TagPrintable:
		if !isPrintable(t.Content) {
			err = errors.New("der: PrintableString outside repertoire")
		}
	case TagIA5:
		for _, c := range t.Content {
			if c > 0x7f {
				err = errors.New("der: IA5String with 8-bit character")
			}
		}
	case TagUTCTime:
		err = lintTime(t.Content, 12)
	case TagGenTime:
		err = lintTime(t.Content, 14)
	}
	if err != nil {
		return fmt.Errorf("%s: %v", path, err)
	}
	return nil
}

func lintTime(c []byte, digits int) error {
	if len(c) != digits+1 || c[digits] != 'Z' {
		return fmt.Errorf("der: time %q not in the %d-digit Z form", c, digits)
	}
	for _, d := range c[:digits] {
		if d < '0' || d > '9' {
			return fmt.Errorf("der: time %q has non-digit", c)
		}
	}
	return nil
}
