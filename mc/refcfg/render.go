// Package refcfg holds the harness' own configuration AST, its YAML and JSON
// renderers and the reference semantics (what a configuration means), written
// from the documentation and the property statements, not from gopki's code.
package refcfg

import (
	"fmt"
	"regexp"
	"strconv"
	"strings"
)

// Generic document tree: Map (ordered), List, string, Plain, int64, bool, nil.
type KV struct {
	K string
	V any
}
type Map []KV
type List []any

// Plain is emitted verbatim as a YAML plain scalar (and as a JSON string).
type Plain string

// Num is emitted verbatim as a number token in both YAML and JSON.
type Num string

var plainSafe = regexp.MustCompile(`^[A-Za-z][A-Za-z0-9_./@-]*( [A-Za-z0-9_./@=-]+)*$`)
var looksSpecial = regexp.MustCompile(`^(?i:y|n|yes|no|true|false|on|off|null|~|nan|inf)$`)

func yamlQuote(s string) string {
	var b strings.Builder
	b.WriteByte('"')
	for _, r := range s {
		switch {
		case r == '"':
			b.WriteString(`\"`)
		case r == '\\':
			b.WriteString(`\\`)
		case r == '\n':
			b.WriteString(`\n`)
		case r == '\t':
			b.WriteString(`\t`)
		case r == '\r':
			b.WriteString(`\r`)
		case r < 0x20 || r == 0x7f:
			fmt.Fprintf(&b, `\x%02x`, r)
		case r == 0x85 || r == 0x2028 || r == 0x2029 || r == 0xfeff:
			fmt.Fprintf(&b, `\u%04x`, r)
		default:
			b.WriteRune(r)
		}
	}
	b.WriteByte('"')
	return b.String()
}

func yamlScalar(v any, forceQuote bool) (string, bool) {
	switch t := v.(type) {
	case nil:
		return "null", true
	case string:
		if !forceQuote && plainSafe.MatchString(t) && !looksSpecial.MatchString(t) {
			return t, true
		}
		return yamlQuote(t), true
	case Plain:
		return string(t), true
	case Num:
		return string(t), true
	case int:
		return strconv.Itoa(t), true
	case int64:
		return strconv.FormatInt(t, 10), true
	case bool:
		if t {
			return "true", true
		}
		return "false", true
	case Map:
		if len(t) == 0 {
			return "{}", true
		}
	case List:
		if len(t) == 0 {
			return "[]", true
		}
	}
	return "", false
}

var keySafe = regexp.MustCompile(`^[A-Za-z][A-Za-z0-9_]*$`)

func yamlKey(k string) string {
	if keySafe.MatchString(k) {
		return k
	}
	return yamlQuote(k)
}

// YAML renders block-style YAML.
func YAML(v any) string {
	var b strings.Builder
	yamlNode(&b, v, 0, false)
	return b.String()
}

// YAMLQuoted renders block-style YAML with every string double-quoted.
func YAMLQuoted(v any) string {
	var b strings.Builder
	yamlNode(&b, v, 0, true)
	return b.String()
}

func yamlNode(b *strings.Builder, v any, ind int, q bool) {
	pad := strings.Repeat("  ", ind)
	switch t := v.(type) {
	case Map:
		if len(t) == 0 {
			b.WriteString(pad + "{}\n")
			return
		}
		for _, kv := range t {
			if s, ok := yamlScalar(kv.V, q); ok {
				fmt.Fprintf(b, "%s%s: %s\n", pad, yamlKey(kv.K), s)
			} else {
				fmt.Fprintf(b, "%s%s:\n", pad, yamlKey(kv.K))
				yamlNode(b, kv.V, ind+1, q)
			}
		}
	case List:
		if len(t) == 0 {
			b.WriteString(pad + "[]\n")
			return
		}
		for _, e := range t {
			if s, ok := yamlScalar(e, q); ok {
				fmt.Fprintf(b, "%s- %s\n", pad, s)
				continue
			}
			// nested container: render it indented and splice "- " into the first line
			var sub strings.Builder
			yamlNode(&sub, e, ind+1, q)
			s := sub.String()
			pp := strings.Repeat("  ", ind+1)
			if _, isList := e.(List); isList {
				fmt.Fprintf(b, "%s-\n%s", pad, s)
			} else {
				b.WriteString(pad + "- " + strings.TrimPrefix(s, pp))
			}
		}
	default:
		s, _ := yamlScalar(v, q)
		b.WriteString(pad + s + "\n")
	}
}

// JSON renders the tree as JSON text (key order preserved).
func JSON(v any) string {
	var b strings.Builder
	jsonNode(&b, v)
	return b.String()
}

func jsonNode(b *strings.Builder, v any) {
	switch t := v.(type) {
	case nil:
		b.WriteString("null")
	case string:
		b.WriteString(jsonQuote(t))
	case Plain:
		b.WriteString(jsonQuote(string(t)))
	case Num:
		b.WriteString(string(t))
	case int:
		b.WriteString(strconv.Itoa(t))
	case int64:
		b.WriteString(strconv.FormatInt(t, 10))
	case bool:
		if t {
			b.WriteString("true")
		} else {
			b.WriteString("false")
		}
	case Map:
		b.WriteByte('{')
		for i, kv := range t {
			if i > 0 {
				b.WriteByte(',')
			}
			b.WriteString(jsonQuote(kv.K))
			b.WriteByte(':')
			jsonNode(b, kv.V)
		}
		b.WriteByte('}')
	case List:
		b.WriteByte('[')
		for i, e := range t {
			if i > 0 {
				b.WriteByte(',')
			}
			jsonNode(b, e)
		}
		b.WriteByte(']')
	default:
		b.WriteString(jsonQuote(fmt.Sprint(t)))
	}
}

func jsonQuote(s string) string {
	var b strings.Builder
	b.WriteByte('"')
	for _, r := range s {
		switch {
		case r == '"':
			b.WriteString(`\"`)
		case r == '\\':
			b.WriteString(`\\`)
		case r == '\n':
			b.WriteString(`\n`)
		case r == '\t':
			b.WriteString(`\t`)
		case r == '\r':
			b.WriteString(`\r`)
		case r < 0x20:
			fmt.Fprintf(&b, `\u%04x`, r)
		default:
			b.WriteRune(r)
		}
	}
	b.WriteByte('"')
	return b.String()
}
