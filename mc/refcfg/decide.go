package refcfg

// Decision table of C11, transcribed from the statement.

const (
	FlagMissing = 1
	FlagExpired = 2
	FlagNewer   = 4
	FlagChanged = 8
	FlagAll     = 16
)

// EntityState is what the statement's conditions read.
type EntityState struct {
	HasArtifactFile bool // some artifact file exists (timestamps are meaningful)
	HasCert         bool
	HasKey          bool
	HasCSR          bool
	HashPresent     bool
	HashEqual       bool // stored hash equals the current effective configuration's
	CertExpired     bool
	ConfigEndFuture bool // the configuration would yield an unexpired certificate
	ConfigNewer     bool // config file newer than the artifact
	IssuerNewer     bool // issuer's artifact newer than own artifact (false if no issuer / issuer has none)
	HasIssuer       bool
}

// Verdict: regenerate / keep / either (the statement does not decide).
type Verdict int

const (
	Keep Verdict = iota
	Regen
	Either
)

// Decide applies the rule for one entity given whether its issuer is
// regenerated in the same run.
func Decide(s EntityState, strat int, issuerRegenerated bool) (Verdict, string) {
	if strat&FlagAll != 0 {
		return Regen, "generate-all"
	}
	if s.HasIssuer && issuerRegenerated {
		return Regen, "issuer regenerated"
	}
	if strat == 0 {
		return Keep, ""
	}
	either := false
	if s.HasIssuer && s.IssuerNewer {
		if s.HasArtifactFile {
			return Regen, "issuer artifact newer"
		}
		either = true // "newer than its own" has no meaning without an own artifact
	}
	if strat&FlagNewer != 0 && s.ConfigNewer {
		if s.HasArtifactFile {
			return Regen, "config newer than artifact"
		}
		either = true
	}
	if strat&FlagExpired != 0 && s.HasCert && s.CertExpired && s.ConfigEndFuture {
		return Regen, "expired"
	}
	if strat&FlagMissing != 0 && (!s.HasCert || (!s.HasKey && !s.HasCSR)) {
		return Regen, "missing"
	}
	if strat&FlagChanged != 0 && s.HashPresent && !s.HashEqual {
		return Regen, "changed"
	}
	if either {
		return Either, ""
	}
	return Keep, ""
}
