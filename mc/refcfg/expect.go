package refcfg

import (
	"bytes"
	"encoding/json"
	"fmt"
	"math/big"
	"strings"
	"time"

	"verif/mc/refder"
	"verif/mc/refx509"
)

// extIdentity is the configuration-entry identity used by the merge rule
// ("differs from the entry"): kind, criticality and content, not the
// profile-only flags.
func extIdentity(e *Ext) string {
	c := *e
	c.Optional, c.Override = nil, nil
	c.NullBody = false
	if c.Critical != nil && !*c.Critical {
		c.Critical = nil
	}
	if !c.HasContent() || (c.Kind == KOCSP && c.Raw == nil) {
		// content-less entries of one kind are all alike
	}
	b, _ := json.Marshal(c)
	return string(b)
}

// EffectiveExts applies the C08 merge rule to harness ASTs.
func EffectiveExts(c *CertCfg, p *ProfileCfg) []Ext {
	if p == nil {
		return c.Exts
	}
	var pi, ci []MergeItem
	for i := range p.Exts {
		e := &p.Exts[i]
		pi = append(pi, MergeItem{OID: e.OID(), Content: extIdentity(e), Optional: e.Optional != nil && *e.Optional, Override: e.Override != nil && *e.Override, Ref: i, FromProf: true})
	}
	for i := range c.Exts {
		e := &c.Exts[i]
		ci = append(ci, MergeItem{OID: e.OID(), Content: extIdentity(e), Ref: i})
	}
	var out []Ext
	for _, m := range RefMerge(pi, ci) {
		if m.FromProf {
			out = append(out, p.Exts[m.Ref])
		} else {
			out = append(out, c.Exts[m.Ref])
		}
	}
	return out
}

// Diff is one disagreement between a certificate and the reference
// translation of its configuration, attributed to the property that owns the
// field.
type Diff struct {
	Owner  string
	Class  string
	Detail string
}

type CmpIn struct {
	Cfg      *CertCfg
	Prof     *ProfileCfg
	Cert     *refx509.Cert
	Issuer   *refx509.Cert // issuer's current certificate; nil = self-signed
	Loc      *time.Location
	RunStart int64
	RunEnd   int64
	// WantKeyAlg: key algorithm name the SPKI must show ("" = not checked here,
	// e.g. a re-used key; "default" = P-256 or P-224).
	WantKeyAlg string
	// SkipValidity: the certificate predates this run (relative dates not comparable).
	SkipValidity bool
	// SkipSignature: do not verify (e.g. issuer certificate unknown).
	SkipSignature bool
	// IssuerRealKey: the public half of the issuer's private key, for an issuer whose certificate shows
	// manipulated key bits or a manipulated key algorithm (the signature is made with the real key).
	IssuerRealKey *refx509.PublicKey
}

func familyOfKeyAlg(name string) string {
	if strings.HasPrefix(name, "RSA") {
		return "RSA"
	}
	return "EC"
}

// DefaultSigAlg: SHA-256 with the scheme of the entity's own key type.
func DefaultSigAlg(keyAlg string) string {
	if familyOfKeyAlg(keyAlg) == "RSA" {
		return "RSAwithSHA256"
	}
	return "ECDSAwithSHA256"
}

// ExpectedSigAlgOID for a configuration.
func ExpectedSigAlgOID(c *CertCfg) string {
	name := c.SigAlg
	if name == "" {
		name = DefaultSigAlg(c.KeyAlg)
	}
	return refx509.SigAlgByName[name]
}

func hexs(b []byte) string {
	if len(b) > 48 {
		return fmt.Sprintf("%x...(%d bytes)", b[:48], len(b))
	}
	return fmt.Sprintf("%x", b)
}

func lenClass(n int) string {
	switch {
	case n == 0:
		return "0"
	case n <= 127:
		return "1..127"
	case n <= 255:
		return "128..255"
	case n <= 767:
		return "256..767"
	case n == 768:
		return "768"
	default:
		return ">768"
	}
}

// Compare checks every field of the certificate against the reference
// translation of the configuration (DESIGN appendix A).
func Compare(in CmpIn) []Diff {
	var out []Diff
	add := func(owner, class, format string, a ...any) {
		out = append(out, Diff{owner, owner + "/" + class, fmt.Sprintf(format, a...)})
	}
	c, cert := in.Cfg, in.Cert
	m := c.Manip
	if m == nil {
		m = &Manip{}
	}

	// version
	if m.Version != nil {
		v := *m.Version
		if cert.Version.Cmp(big.NewInt(v)) != 0 || cert.VersionPresent != (v != 0) {
			add("C19", "version", ".version=%d but certificate has version=%v present=%v", v, cert.Version, cert.VersionPresent)
		}
	} else if !cert.VersionPresent || cert.Version.Cmp(big.NewInt(2)) != 0 {
		add("C02", "version", "version is %v (present=%v), want v3 (2)", cert.Version, cert.VersionPresent)
	}

	// serial
	if c.Serial != nil && *c.Serial != 0 {
		if cert.Serial.Cmp(big.NewInt(*c.Serial)) != 0 {
			add("C03", "serial/configured-not-kept", "configured serialNumber %d, certificate has %v", *c.Serial, cert.Serial)
		}
	} else {
		if cert.Serial.Sign() < 0 {
			add("C02", "serial/negative configured=no", "drawn serial %v is negative", cert.Serial)
		}
		if len(cert.SerialContent) > 20 {
			add("C02", fmt.Sprintf("serial/content-octets=%d configured=no", len(cert.SerialContent)), "drawn serial has %d content octets: %x", len(cert.SerialContent), cert.SerialContent)
		}
	}

	// signature algorithm identifiers
	wantOID := ExpectedSigAlgOID(c)
	fam := refx509.SigFamily(wantOID)
	var wantParams []byte
	if fam == "RSA" {
		wantParams = []byte{5, 0}
	}
	checkAlg := func(where string, got refx509.AlgID, manip *string) {
		if manip != nil {
			if got.OID != CanonOID(*manip) || got.Params != nil {
				add("C19", where, "%s manipulated to %s but certificate has %s params=%x", where, *manip, got.OID, got.Params)
			}
			return
		}
		if got.OID != wantOID {
			add("C05", "sigalg/"+where+" configured="+orDefault(c.SigAlg), "%s is %s, want %s (%s, keyAlgorithm %s)", where, got.OID, wantOID, orDefault(c.SigAlg), orDefault(c.KeyAlg))
			return
		}
		if !bytes.Equal(got.Params, wantParams) {
			add("C02", "algid-params/"+where+" family="+fam, "%s parameters are %x, want %x (%s)", where, got.Params, wantParams, map[string]string{"RSA": "NULL", "EC": "absent"}[fam])
		}
	}
	checkAlg("tbs.signature", cert.InnerSig, m.TbsSig)
	checkAlg("signatureAlgorithm", cert.OuterSig, m.OuterSigAlg)
	if m.TbsSig == nil && m.OuterSigAlg == nil && !bytes.Equal(cert.InnerSig.Raw, cert.OuterSig.Raw) {
		add("C02", "algid-inner-outer-differ", "inner %x outer %x", cert.InnerSig.Raw, cert.OuterSig.Raw)
	}

	// issuer DN
	issuer := in.Issuer
	if issuer == nil {
		issuer = cert
	}
	if !bytes.Equal(cert.IssuerRaw, issuer.SubjectRaw) {
		add("C01", "issuer-dn/"+dnDiffFeature(cert.Issuer, issuer.Subject), "issuer DN %x is not byte-identical to the issuer certificate's subject DN %x", cert.IssuerRaw, issuer.SubjectRaw)
	}

	// validity
	if !in.SkipValidity {
		w := RefWindow(EffectiveValidity(c, in.Prof), in.Loc)
		if w.Err == nil {
			if err := w.Check(cert.NotBefore.T, cert.NotAfter.T, in.RunStart, in.RunEnd, in.Loc); err != nil {
				add("C04", "validity/"+ValidityFeature(EffectiveValidity(c, in.Prof), c, in.Prof), "%v", err)
			}
		}
		for _, tt := range []struct {
			n string
			t refx509.Time
		}{{"notBefore", cert.NotBefore}, {"notAfter", cert.NotAfter}} {
			y := tt.t.T.Year()
			wantTag := refder.TagUTCTime
			if y >= 2050 || y < 1950 {
				wantTag = refder.TagGenTime
			}
			if tt.t.Tag != wantTag {
				add("C04", "time-type/"+tt.n, "%s %s (year %d) encoded with tag %d, want %d", tt.n, tt.t.Text, y, tt.t.Tag, wantTag)
			}
		}
	}

	// subject
	if want, err := RefSubject(c.Subject); err == nil {
		if d := subjectDiff(want, cert.Subject); d != "" {
			add("C03", "subject/"+d+fmt.Sprintf(" profile-constrains-subject=%v", in.Prof != nil && in.Prof.SubjAttrs != nil), "subject %q: certificate has %s, want %s", c.Subject, dnString(cert.Subject), wantDNString(want))
		}
	}

	// subject public key info
	if m.TbsPubKeyAlg != nil {
		if cert.SPKIAlg.OID != CanonOID(*m.TbsPubKeyAlg) || cert.SPKIAlg.Params != nil {
			add("C19", "spki-algorithm", "manipulated to %s but certificate has %s params=%x", *m.TbsPubKeyAlg, cert.SPKIAlg.OID, cert.SPKIAlg.Params)
		}
	}
	if m.TbsPubKey != nil {
		if !bytes.Equal(cert.PubKey.Bytes, m.TbsPubKey.Value()) || cert.PubKey.Unused != 0 {
			add("C19", "spki-key", "manipulated to %s but certificate has %s (unused %d)", hexs(m.TbsPubKey.Value()), hexs(cert.PubKey.Bytes), cert.PubKey.Unused)
		}
	}
	if m.TbsPubKeyAlg == nil && m.TbsPubKey == nil && in.WantKeyAlg != "" {
		pk, err := cert.PublicKey()
		if err != nil {
			add("C05", "spki/undecodable", "%v", err)
		} else {
			got := pk.Describe()
			ok := got == in.WantKeyAlg
			if in.WantKeyAlg == "default" {
				ok = got == "P-256" || got == "P-224"
			}
			if !ok {
				add("C05", fmt.Sprintf("spki/configured=%s got=%s", in.WantKeyAlg, got), "keyAlgorithm %s but SubjectPublicKeyInfo holds a %s key", in.WantKeyAlg, got)
			}
		}
	}

	// unique ids
	for _, u := range []struct {
		n    string
		cfg  *Raw
		have *refx509.BitStr
	}{{"issuerUniqueId", c.IssuerUID, cert.IssuerUID}, {"subjectUniqueId", c.SubjectUID, cert.SubjectUID}} {
		switch {
		case u.cfg == nil && u.have != nil:
			add("C03", "uid/"+u.n+" unconfigured-but-present", "%s not configured but certificate has %x", u.n, u.have.Bytes)
		case u.cfg != nil && u.have == nil:
			add("C03", "uid/"+u.n+" dropped kind="+u.cfg.Kind, "%s %s configured but absent from the certificate", u.n, u.cfg.Text())
		case u.cfg != nil:
			if !bytes.Equal(u.cfg.Value(), u.have.Bytes) || u.have.Unused != 0 {
				add("C03", "uid/"+u.n+" changed kind="+u.cfg.Kind+" len="+lenClass(len(u.cfg.Value())), "%s configured %s, certificate has %s (unused bits %d)", u.n, hexs(u.cfg.Value()), hexs(u.have.Bytes), u.have.Unused)
			}
		}
	}

	// extensions
	eff := EffectiveExts(c, in.Prof)
	if len(eff) == 0 {
		if cert.ExtsPresent {
			add("C06", "ext-list/empty-list-emitted", "no extensions configured but the certificate has an extensions field with %d entries", len(cert.Exts))
		}
	} else if len(eff) != len(cert.Exts) {
		add("C06", "ext-list/count", "effective configuration has %d extensions %v, certificate has %d %v", len(eff), extOIDs(eff), len(cert.Exts), certExtOIDs(cert))
	} else {
		ctx := BodyCtx{OwnKeyBits: cert.PubKey.Bytes, IssuerKeyBits: issuer.PubKey.Bytes}
		for i := range eff {
			e, got := &eff[i], cert.Exts[i]
			if got.OID != e.OID() {
				add("C06", "ext-list/oid-or-order", "extension #%d: certificate has %s, effective configuration has %s (%s); cert %v cfg %v", i, got.OID, e.OID(), e.Kind, certExtOIDs(cert), extOIDs(eff))
				continue
			}
			if got.Critical != e.IsCritical() || (got.CriticalPresent && !got.Critical) {
				add("C06", fmt.Sprintf("critical/kind=%s configured=%s got=%v", e.Kind, critStr(e.Critical), got.Critical), "extension #%d %s: critical configured %s, certificate has critical=%v (present=%v)", i, e.Kind, critStr(e.Critical), got.Critical, got.CriticalPresent)
			}
			body, alts, err := Body(e, ctx)
			if err != nil {
				continue // no defined value: generation should have failed (C08/C20 own that)
			}
			match := bytes.Equal(body, got.Value)
			for _, a := range alts {
				if bytes.Equal(a, got.Value) {
					match = true
				}
			}
			if match {
				continue
			}
			switch {
			case e.Raw != nil:
				add("C06", fmt.Sprintf("raw/kind=%s form=%s len=%s", kindClass(e.Kind), e.Raw.Kind, lenClass(len(body))), "extension #%d %s raw %s (%d bytes): certificate value is %d bytes %s", i, e.Kind, short(e.Raw.Text(), 60), len(body), len(got.Value), hexs(got.Value))
			case e.Kind == KADM:
				add("C16", "admission/"+admissionFeature(e.ADM, body, got.Value), "admission value\n   got  %x\n   want %x", got.Value, body)
			case (e.Kind == KSKI && e.SKI != nil) || (e.Kind == KAKI && e.AKIHash):
				add("C01", "keyid/"+e.Kind, "%s hash: certificate has %x, want %x", e.Kind, got.Value, body)
			default:
				add("C07", e.Kind+"/"+bodyFeature(e, body, got.Value), "%s value\n   got  %x\n   want %x", e.Kind, got.Value, body)
			}
		}
	}

	// signature
	if m.SigValue != nil {
		if !bytes.Equal(cert.Sig.Bytes, m.SigValue.Value()) || cert.Sig.Unused != 0 {
			add("C19", "signature-value", "manipulated to %s, certificate has %s", hexs(m.SigValue.Value()), hexs(cert.Sig.Bytes))
		}
	} else if !in.SkipSignature {
		pub, err := issuer.PublicKey()
		if in.IssuerRealKey != nil {
			pub, err = in.IssuerRealKey, nil
		}
		if in.Issuer == nil && (m.TbsPubKey != nil || m.TbsPubKeyAlg != nil) {
			pub, err = nil, nil // self-signed with manipulated key: the real key is not in the certificate
		}
		if err != nil {
			add("C01", "signature/issuer-key-undecodable", "%v", err)
		} else if pub != nil {
			sigOID := cert.OuterSig.OID
			if m.OuterSigAlg != nil || m.TbsSig != nil {
				sigOID = wantOID // "verifies ... with the real issuer key under the real algorithm"
			}
			if err := refx509.VerifyWith(pub, sigOID, cert.TBSRaw, cert.Sig); err != nil {
				add("C01", "signature/does-not-verify", "%v", err)
			}
		}
	}
	return out
}

// CanonOID: the dotted text of an OID with every arc as a plain decimal number (leading zeros of the
// configuration spelling dropped; they do not change the number).
func CanonOID(s string) string {
	parts := strings.Split(s, ".")
	for i, p := range parts {
		t := strings.TrimLeft(p, "0")
		if t == "" && p != "" {
			t = "0"
		}
		parts[i] = t
	}
	return strings.Join(parts, ".")
}

func short(s string, n int) string {
	if len(s) > n {
		return s[:n] + "..."
	}
	return s
}

func orDefault(s string) string {
	if s == "" {
		return "omitted"
	}
	return s
}

func critStr(b *bool) string {
	if b == nil {
		return "omitted"
	}
	return fmt.Sprint(*b)
}

func kindClass(k string) string { return k }

func extOIDs(es []Ext) []string {
	var out []string
	for i := range es {
		out = append(out, es[i].OID())
	}
	return out
}

func certExtOIDs(c *refx509.Cert) []string {
	var out []string
	for _, e := range c.Exts {
		out = append(out, e.OID)
	}
	return out
}

func dnString(dn []refx509.RDN) string {
	var parts []string
	for _, r := range dn {
		var a []string
		for _, v := range r {
			a = append(a, fmt.Sprintf("%s=(tag %d)%q", v.OID, v.Tag, v.Value))
		}
		parts = append(parts, strings.Join(a, "+"))
	}
	return "[" + strings.Join(parts, ", ") + "]"
}

func wantDNString(w []SubjATV) string {
	var parts []string
	for _, a := range w {
		parts = append(parts, fmt.Sprintf("%s=%q", a.OID, a.Value))
	}
	return "[" + strings.Join(parts, ", ") + "]"
}

// subjectDiff returns "" when the decoded subject is the reference RDN
// sequence, else a feature naming the first kind of difference.
func subjectDiff(want []SubjATV, got []refx509.RDN) string {
	if len(want) != len(got) {
		return "rdn-count"
	}
	same := func(a SubjATV, r refx509.RDN) string {
		if len(r) != 1 {
			return "multi-valued-rdn"
		}
		if r[0].OID != a.OID {
			return "attribute-type"
		}
		if string(r[0].Value) != a.Value {
			return "value-text"
		}
		switch r[0].Tag {
		case refder.TagUTF8:
		case refder.TagPrintable:
			if !refder.IsPrintable(a.Value) {
				return "printablestring-outside-repertoire"
			}
		default:
			return fmt.Sprintf("string-type-tag-%d", r[0].Tag)
		}
		return ""
	}
	first := ""
	for i := range want {
		if d := same(want[i], got[i]); d != "" {
			first = d
			break
		}
	}
	if first == "" {
		return ""
	}
	// reversed?
	rev := true
	for i := range want {
		if same(want[len(want)-1-i], got[i]) != "" {
			rev = false
			break
		}
	}
	if rev && len(want) > 1 {
		return "order-reversed"
	}
	return first
}

func dnDiffFeature(got, want []refx509.RDN) string {
	if len(got) != len(want) {
		return "rdn-count"
	}
	for i := range got {
		if len(got[i]) != len(want[i]) {
			return "multi-valued-rdn"
		}
		for j := range got[i] {
			g, w := got[i][j], want[i][j]
			if g.OID != w.OID || string(g.Value) != string(w.Value) {
				return "different-name"
			}
			if g.Tag != w.Tag {
				return fmt.Sprintf("string-type issuer-cert-tag=%d child-tag=%d", w.Tag, g.Tag)
			}
		}
	}
	return "encoding"
}

func ValidityFeature(v *Validity, c *CertCfg, p *ProfileCfg) string {
	if v == nil {
		return "none-configured"
	}
	src := "own"
	if c.Validity != v {
		src = "profile"
	}
	var f []string
	if v.From != "" {
		f = append(f, "from "+dayMonth(v.From))
	}
	if v.Until != "" {
		f = append(f, "until "+dayMonth(v.Until))
	}
	if v.Duration != "" {
		f = append(f, "duration")
	}
	return src + " " + strings.Join(f, "+")
}

func dayMonth(d string) string {
	_, m, dd, ok := ParseDate(d)
	if !ok {
		return "invalid"
	}
	if m == dd {
		return "day==month"
	}
	if dd <= 12 {
		return "day!=month,day<=12"
	}
	return "day>12"
}

// bodyFeature names what is wrong with a structured extension body, computed
// from the configuration and a shallow look at the bytes.
func bodyFeature(e *Ext, want, got []byte) string {
	switch e.Kind {
	case KKU:
		tw, err1 := refder.ReadAll(want)
		tg, err2 := refder.ReadAll(got)
		if err1 == nil && err2 == nil && tg.IsU(refder.TagBitString) && len(tg.Content) > 0 && len(tw.Content) > 0 {
			wb, gb := tw.Content[1:], tg.Content[1:]
			// same flags?
			flagsEq := true
			for i := 0; i < len(wb) || i < len(gb); i++ {
				var a, b byte
				if i < len(wb) {
					a = wb[i]
				}
				if i < len(gb) {
					b = gb[i]
				}
				if a != b {
					flagsEq = false
				}
			}
			if flagsEq {
				return "non-minimal-bit-string"
			}
			return "flags-differ"
		}
		return "not-a-bit-string"
	case KBC:
		f := "ca=" + optBool(e.BC.Ca)
		if e.BC.PathLen == nil {
			return f + " pathLen=omitted"
		}
		if *e.BC.PathLen == 0 {
			return f + " pathLen=0"
		}
		return f + " pathLen>0"
	case KSAN:
		for _, g := range *e.SAN {
			b, _ := GeneralNameDER(g)
			if !bytes.Contains(got, b) {
				return "name-kind=" + g.Type
			}
		}
		return "list"
	case KCP:
		return "policies"
	case KAIA:
		return "access-descriptions"
	case KEKU:
		return "usages"
	case KAKI:
		return "explicit-key-id len=" + lenClass(len(e.AKIBin.Value()))
	case KSKI:
		return "explicit-key-id"
	}
	return "body"
}

func optBool(b *bool) string {
	if b == nil {
		return "omitted"
	}
	return fmt.Sprint(*b)
}

// admissionFeature names the first configured member whose reference
// encoding does not occur in the emitted value.
func admissionFeature(a *Admission, want, got []byte) string {
	gnF := func(where string, g *GeneralName) string {
		if g == nil {
			return ""
		}
		b, err := GeneralNameDER(*g)
		if err == nil && !bytes.Contains(got, b) {
			return where + " kind=" + g.Type
		}
		return ""
	}
	if f := gnF("top-level-authority", a.AdmissionAuthority); f != "" {
		return f
	}
	for _, ad := range a.Admissions {
		if f := gnF("admission-authority", ad.AdmissionAuthority); f != "" {
			return f
		}
		if ad.AdmissionAuthority != nil {
			g, _ := GeneralNameDER(*ad.AdmissionAuthority)
			if !bytes.Contains(got, refder.Explicit(0, g)) {
				return "admission-authority explicit-tag"
			}
		}
		if ad.NamingAuthority != nil {
			n, _ := namingAuthorityDER(ad.NamingAuthority)
			if !bytes.Contains(got, refder.Explicit(1, n)) {
				return "admission-naming-authority"
			}
		}
		for _, pi := range ad.ProfessionInfos {
			if pi.NamingAuthority != nil {
				n, _ := namingAuthorityDER(pi.NamingAuthority)
				if !bytes.Contains(got, refder.Explicit(0, n)) {
					return "profession-naming-authority"
				}
			}
			if pi.AddProfessionInfo != nil && !bytes.Contains(got, refder.EncOctets(pi.AddProfessionInfo.Value())) {
				return "addProfessionInfo form=" + pi.AddProfessionInfo.Kind
			}
			if pi.RegistrationNumber != nil && !bytes.Contains(got, refder.EncPrintable(*pi.RegistrationNumber)) {
				return "registrationNumber"
			}
			for _, it := range pi.ProfessionItems {
				if !bytes.Contains(got, refder.EncUTF8(it)) {
					return "professionItems"
				}
			}
			if pi.ProfessionOids != nil {
				for _, o := range *pi.ProfessionOids {
					if b, err := refder.EncOID(o); err == nil && !bytes.Contains(got, b) {
						return "professionOids"
					}
				}
			}
		}
	}
	return "structure"
}
