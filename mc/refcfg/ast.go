package refcfg

import (
	"encoding/base64"
	"strconv"
	"strings"
)

// Raw is a raw value as the documentation defines it: !binary:<base64>, !null, !empty.
type Raw struct {
	Kind  string `json:"kind"` // binary | null | empty
	Bytes []byte `json:"bytes,omitempty"`
	// Wrap > 0: the base64 text is broken into lines of that many characters (a YAML block scalar or a quoted
	// string with line breaks, as wrapped base64 is usually pasted); the decoder skips the line breaks
	Wrap int `json:"wrap,omitempty"`
}

func Bin(b []byte) *Raw { return &Raw{Kind: "binary", Bytes: b} }
func Null() *Raw        { return &Raw{Kind: "null"} }
func Empty() *Raw       { return &Raw{Kind: "empty"} }

// Text is the configuration spelling.
func (r *Raw) Text() string {
	switch r.Kind {
	case "null":
		return "!null"
	case "empty":
		return "!empty"
	}
	b := base64.StdEncoding.EncodeToString(r.Bytes)
	if r.Wrap > 0 {
		var sb strings.Builder
		for len(b) > r.Wrap {
			sb.WriteString(b[:r.Wrap] + "\n")
			b = b[r.Wrap:]
		}
		sb.WriteString(b + "\n")
		b = sb.String()
	}
	return "!binary:" + b
}

// Value is the byte string the documentation says the spelling denotes.
func (r *Raw) Value() []byte {
	switch r.Kind {
	case "null":
		return []byte{5, 0}
	case "empty":
		return []byte{}
	}
	return r.Bytes
}

type Validity struct {
	From     string `json:"from,omitempty"`
	Until    string `json:"until,omitempty"`
	Duration string `json:"duration,omitempty"`
	// Unquoted renders dates as YAML plain scalars.
	Unquoted bool `json:"unquoted,omitempty"`
}

type GeneralName struct {
	Type string `json:"type"`
	Name string `json:"name"`
}

type BasicConstraints struct {
	Ca      *bool `json:"ca,omitempty"`
	PathLen *int  `json:"pathLen,omitempty"`
}

type UserNotice struct {
	Organization *string `json:"organization,omitempty"`
	Numbers      *[]int  `json:"numbers,omitempty"`
	Text         *string `json:"text,omitempty"`
}

type Qualifier struct {
	Cps    *string     `json:"cps,omitempty"`
	Notice *UserNotice `json:"userNotice,omitempty"`
}

type Policy struct {
	Oid        string       `json:"oid"`
	Qualifiers *[]Qualifier `json:"qualifiers,omitempty"`
}

type NamingAuthority struct {
	Oid  *string `json:"oid,omitempty"`
	Url  *string `json:"url,omitempty"`
	Text *string `json:"text,omitempty"`
}

type ProfessionInfo struct {
	NamingAuthority    *NamingAuthority `json:"namingAuthority,omitempty"`
	ProfessionItems    []string         `json:"professionItems"`
	ProfessionOids     *[]string        `json:"professionOids,omitempty"`
	RegistrationNumber *string          `json:"registrationNumber,omitempty"`
	AddProfessionInfo  *Raw             `json:"addProfessionInfo,omitempty"`
}

type Admissions struct {
	AdmissionAuthority *GeneralName     `json:"admissionAuthority,omitempty"`
	NamingAuthority    *NamingAuthority `json:"namingAuthority,omitempty"`
	ProfessionInfos    []ProfessionInfo `json:"professionInfos"`
}

type Admission struct {
	AdmissionAuthority *GeneralName `json:"admissionAuthority,omitempty"`
	Admissions         []Admissions `json:"admissions"`
}

// Extension kinds (YAML keys).
const (
	KSKI    = "subjectKeyIdentifier"
	KKU     = "keyUsage"
	KSAN    = "subjectAlternativeName"
	KBC     = "basicConstraints"
	KCP     = "certificatePolicies"
	KAIA    = "authorityInformationAccess"
	KAKI    = "authorityKeyIdentifier"
	KEKU    = "extendedKeyUsage"
	KADM    = "admission"
	KOCSP   = "ocspNoCheck"
	KCustom = "custom"
)

var AllKinds = []string{KSKI, KKU, KSAN, KBC, KCP, KAIA, KAKI, KEKU, KADM, KOCSP, KCustom}

var KindOID = map[string]string{
	KSKI: "2.5.29.14", KKU: "2.5.29.15", KSAN: "2.5.29.17", KBC: "2.5.29.19", KCP: "2.5.29.32",
	KAIA: "1.3.6.1.5.5.7.1.1", KAKI: "2.5.29.35", KEKU: "2.5.29.37", KADM: "1.3.36.8.3.3",
	KOCSP: "1.3.6.1.5.5.7.48.1.5",
}

// Ext is one entry of an extensions list. Exactly one content field (or Raw,
// or none = content-less) is set; which one is legal depends on Kind.
type Ext struct {
	Kind     string `json:"kind"`
	Critical *bool  `json:"critical,omitempty"`
	Raw      *Raw   `json:"raw,omitempty"`
	// NullBody renders "kind: null" instead of "kind: {}" for a content-less entry.
	NullBody bool `json:"nullBody,omitempty"`

	SKI       *string           `json:"ski,omitempty"` // "hash"
	SKIBin    *Raw              `json:"skiBin,omitempty"`
	KU        *[]string         `json:"ku,omitempty"`
	SAN       *[]GeneralName    `json:"san,omitempty"`
	BC        *BasicConstraints `json:"bc,omitempty"`
	CP        *[]Policy         `json:"cp,omitempty"`
	AIA       *[]string         `json:"aia,omitempty"`
	AKIHash   bool              `json:"akiHash,omitempty"`
	AKIBin    *Raw              `json:"akiBin,omitempty"`
	EKU       *[]string         `json:"eku,omitempty"`
	ADM       *Admission        `json:"adm,omitempty"`
	CustomOID string            `json:"customOid,omitempty"`

	// profile entries only
	Optional *bool `json:"optional,omitempty"`
	Override *bool `json:"override,omitempty"`
}

// OID of the extension.
func (e *Ext) OID() string {
	if e.Kind == KCustom {
		return e.CustomOID
	}
	return KindOID[e.Kind]
}

// HasContent: the entry defines its value (raw or content).
func (e *Ext) HasContent() bool {
	if e.Raw != nil {
		return true
	}
	switch e.Kind {
	case KSKI:
		return e.SKI != nil || e.SKIBin != nil
	case KKU:
		return e.KU != nil
	case KSAN:
		return e.SAN != nil
	case KBC:
		return e.BC != nil
	case KCP:
		return e.CP != nil
	case KAIA:
		return e.AIA != nil
	case KAKI:
		return e.AKIHash || e.AKIBin != nil
	case KEKU:
		return e.EKU != nil
	case KADM:
		return e.ADM != nil
	case KOCSP:
		return true // ocspNoCheck has no content by definition (NULL)
	}
	return false
}

func (e *Ext) IsCritical() bool { return e.Critical != nil && *e.Critical }

type Manip struct {
	Version      *int64  `json:"version,omitempty"`
	OuterSigAlg  *string `json:"outerSigAlg,omitempty"`
	SigValue     *Raw    `json:"sigValue,omitempty"`
	TbsSig       *string `json:"tbsSig,omitempty"`
	TbsPubKeyAlg *string `json:"tbsPubKeyAlg,omitempty"`
	TbsPubKey    *Raw    `json:"tbsPubKey,omitempty"`
}

func (m *Manip) Empty() bool {
	return m == nil || (m.Version == nil && m.OuterSigAlg == nil && m.SigValue == nil && m.TbsSig == nil && m.TbsPubKeyAlg == nil && m.TbsPubKey == nil)
}

// CertCfg is a certificate configuration file.
type CertCfg struct {
	Path    string `json:"path"` // file path inside the directory, e.g. "sub/leaf.yaml"
	Alias   string `json:"alias,omitempty"`
	Subject string `json:"subject"`
	Issuer  string `json:"issuer,omitempty"`
	Profile string `json:"profile,omitempty"`
	Serial  *int64 `json:"serial,omitempty"`
	// SerialText: the serialNumber written as this decimal text (numbers an int64 cannot hold); the reference does not model it
	SerialText string    `json:"serialText,omitempty"`
	IssuerUID  *Raw      `json:"issuerUid,omitempty"`
	SubjectUID *Raw      `json:"subjectUid,omitempty"`
	KeyAlg     string    `json:"keyAlg,omitempty"`
	SigAlg     string    `json:"sigAlg,omitempty"`
	Validity   *Validity `json:"validity,omitempty"`
	Exts       []Ext     `json:"exts,omitempty"`
	// ExtsPresent renders an empty "extensions: []" list.
	ExtsPresent bool   `json:"extsPresent,omitempty"`
	Manip       *Manip `json:"manip,omitempty"`
}

type SubjAttr struct {
	Attribute string `json:"attribute"`
	Optional  *bool  `json:"optional,omitempty"`
}

type SubjectAttributes struct {
	AllowOther *bool      `json:"allowOther,omitempty"`
	Attributes []SubjAttr `json:"attributes"`
}

// ProfileCfg is a profile file.
type ProfileCfg struct {
	Path      string             `json:"path"`
	Name      string             `json:"name"`
	Validity  *Validity          `json:"validity,omitempty"`
	SubjAttrs *SubjectAttributes `json:"subjectAttributes,omitempty"`
	Exts      []Ext              `json:"exts,omitempty"`
}

func B(v bool) *bool             { return &v }
func I(v int) *int               { return &v }
func I64(v int64) *int64         { return &v }
func S(v string) *string         { return &v }
func Strs(v ...string) *[]string { return &v }

func rawNode(r *Raw) any { return r.Text() }

func validityTree(v *Validity) Map {
	m := Map{}
	d := func(s string) any {
		if v.Unquoted {
			return Plain(s)
		}
		return s
	}
	if v.From != "" {
		m = append(m, KV{"from", d(v.From)})
	}
	if v.Until != "" {
		m = append(m, KV{"until", d(v.Until)})
	}
	if v.Duration != "" {
		m = append(m, KV{"duration", v.Duration})
	}
	return m
}

func gnTree(g *GeneralName) Map { return Map{{"type", g.Type}, {"name", g.Name}} }

func naTree(n *NamingAuthority) Map {
	m := Map{}
	if n.Oid != nil {
		m = append(m, KV{"oid", *n.Oid})
	}
	if n.Url != nil {
		m = append(m, KV{"url", *n.Url})
	}
	if n.Text != nil {
		m = append(m, KV{"text", *n.Text})
	}
	return m
}

func strList(l []string) List {
	out := List{}
	for _, s := range l {
		out = append(out, s)
	}
	return out
}

func admTree(a *Admission) Map {
	m := Map{}
	if a.AdmissionAuthority != nil {
		m = append(m, KV{"admissionAuthority", gnTree(a.AdmissionAuthority)})
	}
	adms := List{}
	for _, ad := range a.Admissions {
		am := Map{}
		if ad.AdmissionAuthority != nil {
			am = append(am, KV{"admissionAuthority", gnTree(ad.AdmissionAuthority)})
		}
		if ad.NamingAuthority != nil {
			am = append(am, KV{"namingAuthority", naTree(ad.NamingAuthority)})
		}
		pis := List{}
		for _, pi := range ad.ProfessionInfos {
			pm := Map{}
			if pi.NamingAuthority != nil {
				pm = append(pm, KV{"namingAuthority", naTree(pi.NamingAuthority)})
			}
			pm = append(pm, KV{"professionItems", strList(pi.ProfessionItems)})
			if pi.ProfessionOids != nil {
				pm = append(pm, KV{"professionOids", strList(*pi.ProfessionOids)})
			}
			if pi.RegistrationNumber != nil {
				pm = append(pm, KV{"registrationNumber", *pi.RegistrationNumber})
			}
			if pi.AddProfessionInfo != nil {
				pm = append(pm, KV{"addProfessionInfo", rawNode(pi.AddProfessionInfo)})
			}
			pis = append(pis, pm)
		}
		am = append(am, KV{"professionInfos", pis})
		adms = append(adms, am)
	}
	m = append(m, KV{"admissions", adms})
	return m
}

func extBody(e *Ext) any {
	m := Map{}
	if e.Kind == KCustom {
		m = append(m, KV{"oid", e.CustomOID})
	}
	if e.Critical != nil {
		m = append(m, KV{"critical", *e.Critical})
	}
	if e.Raw != nil {
		m = append(m, KV{"raw", rawNode(e.Raw)})
	}
	switch e.Kind {
	case KSKI:
		if e.SKI != nil {
			m = append(m, KV{"content", *e.SKI})
		} else if e.SKIBin != nil {
			m = append(m, KV{"content", rawNode(e.SKIBin)})
		}
	case KKU:
		if e.KU != nil {
			m = append(m, KV{"content", strList(*e.KU)})
		}
	case KSAN:
		if e.SAN != nil {
			l := List{}
			for i := range *e.SAN {
				l = append(l, gnTree(&(*e.SAN)[i]))
			}
			m = append(m, KV{"content", l})
		}
	case KBC:
		if e.BC != nil {
			c := Map{}
			if e.BC.Ca != nil {
				c = append(c, KV{"ca", *e.BC.Ca})
			}
			if e.BC.PathLen != nil {
				c = append(c, KV{"pathLen", *e.BC.PathLen})
			}
			m = append(m, KV{"content", c})
		}
	case KCP:
		if e.CP != nil {
			l := List{}
			for _, p := range *e.CP {
				pm := Map{{"oid", p.Oid}}
				if p.Qualifiers != nil {
					ql := List{}
					for _, q := range *p.Qualifiers {
						if q.Cps != nil {
							ql = append(ql, Map{{"cps", *q.Cps}})
						} else if q.Notice != nil {
							nm := Map{}
							if q.Notice.Organization != nil {
								nm = append(nm, KV{"organization", *q.Notice.Organization})
							}
							if q.Notice.Numbers != nil {
								nl := List{}
								for _, n := range *q.Notice.Numbers {
									nl = append(nl, n)
								}
								nm = append(nm, KV{"numbers", nl})
							}
							if q.Notice.Text != nil {
								nm = append(nm, KV{"text", *q.Notice.Text})
							}
							ql = append(ql, Map{{"userNotice", nm}})
						}
					}
					pm = append(pm, KV{"qualifiers", ql})
				}
				l = append(l, pm)
			}
			m = append(m, KV{"content", l})
		}
	case KAIA:
		if e.AIA != nil {
			l := List{}
			for _, u := range *e.AIA {
				l = append(l, Map{{"ocsp", u}})
			}
			m = append(m, KV{"content", l})
		}
	case KAKI:
		if e.AKIHash {
			m = append(m, KV{"content", Map{{"id", "hash"}}})
		} else if e.AKIBin != nil {
			m = append(m, KV{"content", Map{{"id", rawNode(e.AKIBin)}}})
		}
	case KEKU:
		if e.EKU != nil {
			m = append(m, KV{"content", strList(*e.EKU)})
		}
	case KADM:
		if e.ADM != nil {
			m = append(m, KV{"content", admTree(e.ADM)})
		}
	}
	if len(m) == 0 && e.NullBody {
		return nil
	}
	return m
}

func extTree(e *Ext) Map {
	m := Map{{e.Kind, extBody(e)}}
	if e.Optional != nil {
		m = append(m, KV{"optional", *e.Optional})
	}
	if e.Override != nil {
		m = append(m, KV{"override", *e.Override})
	}
	return m
}

func extsTree(es []Ext) List {
	l := List{}
	for i := range es {
		l = append(l, extTree(&es[i]))
	}
	return l
}

// Tree renders the configuration as a document tree in the documented key order.
func (c *CertCfg) Tree() Map {
	m := Map{{"version", 1}}
	if c.Alias != "" {
		m = append(m, KV{"alias", c.Alias})
	}
	m = append(m, KV{"subject", c.Subject})
	if c.SerialText != "" {
		m = append(m, KV{"serialNumber", Num(c.SerialText)})
	} else if c.Serial != nil {
		m = append(m, KV{"serialNumber", Num(strconv.FormatInt(*c.Serial, 10))})
	}
	if c.IssuerUID != nil {
		m = append(m, KV{"issuerUniqueId", rawNode(c.IssuerUID)})
	}
	if c.SubjectUID != nil {
		m = append(m, KV{"subjectUniqueId", rawNode(c.SubjectUID)})
	}
	if c.Issuer != "" {
		m = append(m, KV{"issuer", c.Issuer})
	}
	if c.KeyAlg != "" {
		m = append(m, KV{"keyAlgorithm", c.KeyAlg})
	}
	if c.SigAlg != "" {
		m = append(m, KV{"signatureAlgorithm", c.SigAlg})
	}
	if c.Profile != "" {
		m = append(m, KV{"profile", c.Profile})
	}
	if c.Validity != nil {
		m = append(m, KV{"validity", validityTree(c.Validity)})
	}
	if !c.Manip.Empty() {
		mm := Map{}
		if c.Manip.Version != nil {
			mm = append(mm, KV{".version", Num(strconv.FormatInt(*c.Manip.Version, 10))})
		}
		if c.Manip.OuterSigAlg != nil {
			mm = append(mm, KV{".signatureAlgorithm", *c.Manip.OuterSigAlg})
		}
		if c.Manip.SigValue != nil {
			mm = append(mm, KV{".signatureValue", rawNode(c.Manip.SigValue)})
		}
		if c.Manip.TbsSig != nil {
			mm = append(mm, KV{".tbs.signature", *c.Manip.TbsSig})
		}
		if c.Manip.TbsPubKeyAlg != nil {
			mm = append(mm, KV{".tbs.subjectPublicKey.algorithm", *c.Manip.TbsPubKeyAlg})
		}
		if c.Manip.TbsPubKey != nil {
			mm = append(mm, KV{".tbs.subjectPublicKey.subjectPublicKey", rawNode(c.Manip.TbsPubKey)})
		}
		m = append(m, KV{"manipulations", mm})
	}
	if len(c.Exts) > 0 || c.ExtsPresent {
		m = append(m, KV{"extensions", extsTree(c.Exts)})
	}
	return m
}

func (p *ProfileCfg) Tree() Map {
	m := Map{{"version", 1}, {"name", p.Name}}
	if p.SubjAttrs != nil {
		sm := Map{}
		al := List{}
		for _, a := range p.SubjAttrs.Attributes {
			am := Map{{"attribute", a.Attribute}}
			if a.Optional != nil {
				am = append(am, KV{"optional", *a.Optional})
			}
			al = append(al, am)
		}
		sm = append(sm, KV{"attributes", al})
		if p.SubjAttrs.AllowOther != nil {
			sm = append(sm, KV{"allowOther", *p.SubjAttrs.AllowOther})
		}
		m = append(m, KV{"subjectAttributes", sm})
	}
	if p.Validity != nil {
		m = append(m, KV{"validity", validityTree(p.Validity)})
	}
	if len(p.Exts) > 0 {
		m = append(m, KV{"extensions", extsTree(p.Exts)})
	}
	return m
}

// YAML text of the configuration.
func (c *CertCfg) YAML() []byte    { return []byte(YAML(c.Tree())) }
func (p *ProfileCfg) YAML() []byte { return []byte(YAML(p.Tree())) }
