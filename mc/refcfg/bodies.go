package refcfg

import (
	"crypto/sha1"
	"errors"
	"fmt"
	"strconv"
	"strings"

	"verif/mc/refder"
)

// Reference DER bodies of the structured extensions, written from RFC 5280,
// RFC 6960 and CommonPKI v2.0 part 1 (admission), independent of gopki.

var kuBits = map[string]int{
	"digitalSignature": 0, "nonRepudiation": 1, "keyEncipherment": 2, "dataEncipherment": 3,
	"keyAgreement": 4, "keyCertSign": 5, "crlSign": 6,
}

var KUNames = []string{"digitalSignature", "nonRepudiation", "keyEncipherment", "dataEncipherment", "keyAgreement", "keyCertSign", "crlSign"}

var ekuOIDs = map[string]string{
	"serverAuth": "1.3.6.1.5.5.7.3.1", "clientAuth": "1.3.6.1.5.5.7.3.2", "codeSigning": "1.3.6.1.5.5.7.3.3",
	"emailProtection": "1.3.6.1.5.5.7.3.4", "timeStamping": "1.3.6.1.5.5.7.3.8", "OCSPSigning": "1.3.6.1.5.5.7.3.9",
}

var EKUNames = []string{"serverAuth", "clientAuth", "codeSigning", "emailProtection", "timeStamping", "OCSPSigning"}

// NamedBits encodes a named-bit-list BIT STRING in DER (trailing zero bits removed).
func NamedBits(bits []int) []byte {
	max := -1
	for _, b := range bits {
		if b > max {
			max = b
		}
	}
	if max < 0 {
		return refder.EncBitString(nil, 0)
	}
	n := max/8 + 1
	buf := make([]byte, n)
	for _, b := range bits {
		buf[b/8] |= 0x80 >> uint(b%8)
	}
	unused := 7 - max%8
	return refder.EncBitString(buf, unused)
}

// GeneralNameDER encodes the four supported GeneralName kinds.
func GeneralNameDER(g GeneralName) ([]byte, error) {
	switch g.Type {
	case "mail":
		return refder.Implicit(1, []byte(g.Name)), nil
	case "dns":
		return refder.Implicit(2, []byte(g.Name)), nil
	case "url":
		return refder.Implicit(6, []byte(g.Name)), nil
	case "ip":
		parts := strings.Split(g.Name, ".")
		if len(parts) != 4 {
			return nil, errors.New("ip: not four octets")
		}
		b := make([]byte, 4)
		for i, p := range parts {
			v, err := strconv.Atoi(p)
			if err != nil || v < 0 || v > 255 {
				return nil, errors.New("ip: octet out of range")
			}
			b[i] = byte(v)
		}
		return refder.Implicit(7, b), nil
	}
	return nil, fmt.Errorf("unknown general name type %q", g.Type)
}

func namingAuthorityDER(n *NamingAuthority) ([]byte, error) {
	var parts [][]byte
	if n.Oid != nil {
		o, err := refder.EncOID(*n.Oid)
		if err != nil {
			return nil, err
		}
		parts = append(parts, o)
	}
	if n.Url != nil {
		parts = append(parts, refder.EncIA5(*n.Url))
	}
	if n.Text != nil {
		parts = append(parts, refder.EncUTF8(*n.Text))
	}
	return refder.Seq(parts...), nil
}

// AdmissionDER is CommonPKI AdmissionSyntax.
func AdmissionDER(a *Admission) ([]byte, error) {
	var top [][]byte
	if a.AdmissionAuthority != nil {
		g, err := GeneralNameDER(*a.AdmissionAuthority)
		if err != nil {
			return nil, err
		}
		top = append(top, g)
	}
	var adms [][]byte
	for _, ad := range a.Admissions {
		var ap [][]byte
		if ad.AdmissionAuthority != nil {
			g, err := GeneralNameDER(*ad.AdmissionAuthority)
			if err != nil {
				return nil, err
			}
			ap = append(ap, refder.Explicit(0, g))
		}
		if ad.NamingAuthority != nil {
			n, err := namingAuthorityDER(ad.NamingAuthority)
			if err != nil {
				return nil, err
			}
			ap = append(ap, refder.Explicit(1, n))
		}
		var pis [][]byte
		for _, pi := range ad.ProfessionInfos {
			var pp [][]byte
			if pi.NamingAuthority != nil {
				n, err := namingAuthorityDER(pi.NamingAuthority)
				if err != nil {
					return nil, err
				}
				pp = append(pp, refder.Explicit(0, n))
			}
			var items [][]byte
			for _, it := range pi.ProfessionItems {
				items = append(items, refder.EncUTF8(it))
			}
			pp = append(pp, refder.Seq(items...))
			if pi.ProfessionOids != nil {
				var oids [][]byte
				for _, o := range *pi.ProfessionOids {
					e, err := refder.EncOID(o)
					if err != nil {
						return nil, err
					}
					oids = append(oids, e)
				}
				pp = append(pp, refder.Seq(oids...))
			}
			if pi.RegistrationNumber != nil {
				pp = append(pp, refder.EncPrintable(*pi.RegistrationNumber))
			}
			if pi.AddProfessionInfo != nil {
				pp = append(pp, refder.EncOctets(pi.AddProfessionInfo.Value()))
			}
			pis = append(pis, refder.Seq(pp...))
		}
		ap = append(ap, refder.Seq(pis...))
		adms = append(adms, refder.Seq(ap...))
	}
	top = append(top, refder.Seq(adms...))
	return refder.Seq(top...), nil
}

// BodyCtx is what late-bound extension contents need.
type BodyCtx struct {
	OwnKeyBits    []byte // subjectPublicKey bits of the certificate itself
	IssuerKeyBits []byte // subjectPublicKey bits of the issuer's current certificate
}

// Body is the reference extension value. alts lists further encodings that
// the documentation does not exclude (don't-care). err != nil means the entry
// has no defined encoding (e.g. out-of-range value): generation must fail.
func Body(e *Ext, ctx BodyCtx) (body []byte, alts [][]byte, err error) {
	if e.Raw != nil {
		return e.Raw.Value(), nil, nil
	}
	switch e.Kind {
	case KSKI:
		if e.SKI != nil {
			if *e.SKI != "hash" {
				return nil, nil, errors.New("subjectKeyIdentifier content must be hash or !binary")
			}
			h := sha1.Sum(ctx.OwnKeyBits)
			return refder.EncOctets(h[:]), nil, nil
		}
		if e.SKIBin != nil {
			// documentation: "the !binary form is also allowed here to set the id manually";
			// the code treats it as the whole extension value. Either is accepted.
			return refder.EncOctets(e.SKIBin.Value()), [][]byte{e.SKIBin.Value()}, nil
		}
	case KKU:
		if e.KU != nil {
			var bits []int
			for _, n := range *e.KU {
				b, ok := kuBits[n]
				if !ok {
					return nil, nil, fmt.Errorf("unknown key usage %q", n)
				}
				bits = append(bits, b)
			}
			return NamedBits(bits), nil, nil
		}
	case KSAN:
		if e.SAN != nil {
			var parts [][]byte
			for _, g := range *e.SAN {
				if g.Type == "url" {
					return nil, nil, errors.New("subjectAlternativeName supports mail, dns, ip")
				}
				b, err := GeneralNameDER(g)
				if err != nil {
					return nil, nil, err
				}
				parts = append(parts, b)
			}
			return refder.Seq(parts...), nil, nil
		}
	case KBC:
		if e.BC != nil {
			var parts [][]byte
			if e.BC.Ca != nil && *e.BC.Ca {
				parts = append(parts, refder.EncBool(true))
			}
			if e.BC.PathLen != nil {
				parts = append(parts, refder.EncInt64(int64(*e.BC.PathLen)))
			}
			return refder.Seq(parts...), nil, nil
		}
	case KCP:
		if e.CP != nil {
			var pols [][]byte
			for _, p := range *e.CP {
				oid, err := refder.EncOID(p.Oid)
				if err != nil {
					return nil, nil, err
				}
				parts := [][]byte{oid}
				if p.Qualifiers != nil {
					var qs [][]byte
					for _, q := range *p.Qualifiers {
						switch {
						case q.Cps != nil:
							qs = append(qs, refder.Seq(refder.MustOID("1.3.6.1.5.5.7.2.1"), refder.EncIA5(*q.Cps)))
						case q.Notice != nil:
							var np [][]byte
							n := q.Notice
							if n.Organization != nil || n.Numbers != nil {
								org := ""
								if n.Organization != nil {
									org = *n.Organization
								}
								var nums [][]byte
								if n.Numbers != nil {
									for _, v := range *n.Numbers {
										nums = append(nums, refder.EncInt64(int64(v)))
									}
								}
								np = append(np, refder.Seq(refder.EncUTF8(org), refder.Seq(nums...)))
							}
							if n.Text != nil {
								np = append(np, refder.EncUTF8(*n.Text))
							}
							qs = append(qs, refder.Seq(refder.MustOID("1.3.6.1.5.5.7.2.2"), refder.Seq(np...)))
						default:
							return nil, nil, errors.New("empty qualifier")
						}
					}
					parts = append(parts, refder.Seq(qs...))
				}
				pols = append(pols, refder.Seq(parts...))
			}
			return refder.Seq(pols...), nil, nil
		}
	case KAIA:
		if e.AIA != nil {
			var ds [][]byte
			for _, u := range *e.AIA {
				ds = append(ds, refder.Seq(refder.MustOID("1.3.6.1.5.5.7.48.1"), refder.Implicit(6, []byte(u))))
			}
			return refder.Seq(ds...), nil, nil
		}
	case KAKI:
		if e.AKIHash {
			h := sha1.Sum(ctx.IssuerKeyBits)
			return refder.Seq(refder.Implicit(0, h[:])), nil, nil
		}
		if e.AKIBin != nil {
			return refder.Seq(refder.Implicit(0, e.AKIBin.Value())), nil, nil
		}
	case KEKU:
		if e.EKU != nil {
			var os [][]byte
			for _, n := range *e.EKU {
				oid, ok := ekuOIDs[n]
				if !ok {
					oid = n
				}
				b, err := refder.EncOID(oid)
				if err != nil {
					return nil, nil, err
				}
				os = append(os, b)
			}
			return refder.Seq(os...), nil, nil
		}
	case KADM:
		if e.ADM != nil {
			b, err := AdmissionDER(e.ADM)
			return b, nil, err
		}
	case KOCSP:
		return refder.EncNull(), nil, nil
	}
	return nil, nil, ErrNoContent
}

// ErrNoContent: the entry defines neither raw nor content.
var ErrNoContent = errors.New("extension without content")
