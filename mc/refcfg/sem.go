package refcfg

import (
	"errors"
	"fmt"
	"regexp"
	"strconv"
	"strings"
	"time"
)

// ---------------------------------------------------------------- subject

// AttrOIDs is the documented short-name table.
var AttrOIDs = map[string]string{
	"C": "2.5.4.6", "O": "2.5.4.10", "OU": "2.5.4.11", "CN": "2.5.4.3", "SERIALNUMBER": "2.5.4.5",
	"L": "2.5.4.7", "ST": "2.5.4.8", "STREET": "2.5.4.9", "POSTALCODE": "2.5.4.17",
}

var dottedOID = regexp.MustCompile(`^[0-9]+(\.[0-9]+)+$`)

type SubjATV struct {
	OID   string
	Value string
}

// AttrOID resolves a written attribute key.
func AttrOID(key string) (string, bool) {
	if o, ok := AttrOIDs[key]; ok {
		return o, true
	}
	if dottedOID.MatchString(key) {
		return key, true
	}
	return "", false
}

// SubjectPairs splits a subject string into its written (key, value) pairs,
// in written order. The pair is trimmed as a whole, the key on its own.
func SubjectPairs(s string) ([][2]string, error) {
	var out [][2]string
	for _, part := range strings.Split(s, ",") {
		part = strings.TrimSpace(part)
		i := strings.Index(part, "=")
		if i < 0 {
			return nil, fmt.Errorf("no '=' in %q", part)
		}
		out = append(out, [2]string{strings.TrimSpace(part[:i]), part[i+1:]})
	}
	return out, nil
}

// RefSubject is the documented meaning of a subject string: the RDN sequence
// in certificate order (reverse of the written order), one ATV per RDN.
func RefSubject(s string) ([]SubjATV, error) {
	pairs, err := SubjectPairs(s)
	if err != nil {
		return nil, err
	}
	out := make([]SubjATV, len(pairs))
	for i, p := range pairs {
		oid, ok := AttrOID(p[0])
		if !ok {
			return nil, fmt.Errorf("unknown attribute %q", p[0])
		}
		out[len(pairs)-1-i] = SubjATV{oid, p[1]}
	}
	return out, nil
}

// ---------------------------------------------------------------- validity

// daysFromCivil: days since 1970-01-01 of a proleptic Gregorian date
// (Howard Hinnant's algorithm).
func daysFromCivil(y, m, d int) int64 {
	if m <= 2 {
		y--
	}
	var era int
	if y >= 0 {
		era = y / 400
	} else {
		era = (y - 399) / 400
	}
	yoe := y - era*400
	mp := (m + 9) % 12
	doy := (153*mp+2)/5 + d - 1
	doe := yoe*365 + yoe/4 - yoe/100 + doy
	return int64(era)*146097 + int64(doe) - 719468
}

func civilFromDays(z int64) (y, m, d int) {
	z += 719468
	var era int64
	if z >= 0 {
		era = z / 146097
	} else {
		era = (z - 146096) / 146097
	}
	doe := z - era*146097
	yoe := (doe - doe/1460 + doe/36524 - doe/146096) / 365
	yy := yoe + era*400
	doy := doe - (365*yoe + yoe/4 - yoe/100)
	mp := (5*doy + 2) / 153
	d = int(doy - (153*mp+2)/5 + 1)
	if mp < 10 {
		m = int(mp + 3)
	} else {
		m = int(mp - 9)
	}
	if m <= 2 {
		yy++
	}
	return int(yy), m, d
}

var dateRx = regexp.MustCompile(`^([0-9]{4})-([0-9]{2})-([0-9]{2})$`)

// ParseDate reads YYYY-MM-DD; ok=false for calendar-invalid dates.
func ParseDate(s string) (y, m, d int, ok bool) {
	g := dateRx.FindStringSubmatch(s)
	if g == nil {
		return
	}
	y, _ = strconv.Atoi(g[1])
	m, _ = strconv.Atoi(g[2])
	d, _ = strconv.Atoi(g[3])
	if m < 1 || m > 12 || d < 1 {
		return
	}
	yy, mm, dd := civilFromDays(daysFromCivil(y, m, d))
	ok = yy == y && mm == m && dd == d
	return
}

// LocalWall returns the set of UTC instants (unix seconds) at which the wall
// clock of loc shows the given civil date and time. Normally one; two in a
// repeated hour; for a skipped time the two readings Go's time.Date may
// choose between (before/after the gap).
func LocalWall(y, m, d, hh, mi, ss int, loc *time.Location) []int64 {
	naive := daysFromCivil(y, m, d)*86400 + int64(hh*3600+mi*60+ss)
	seen := map[int64]bool{}
	var out []int64
	// probe offsets in force around the instant
	for _, probe := range []int64{naive - 86400*2, naive - 86400, naive, naive + 86400, naive + 2*86400} {
		_, off := time.Unix(probe, 0).In(loc).Zone()
		cand := naive - int64(off)
		if !seen[cand] {
			seen[cand] = true
			out = append(out, cand)
		}
	}
	// keep exact matches; if none (gap), keep the candidates from adjacent offsets
	var exact []int64
	for _, c := range out {
		t := time.Unix(c, 0).In(loc)
		if t.Year() == y && int(t.Month()) == m && t.Day() == d && t.Hour() == hh && t.Minute() == mi && t.Second() == ss {
			exact = append(exact, c)
		}
	}
	if len(exact) > 0 {
		return exact
	}
	// gap: offsets just before and after
	_, o1 := time.Unix(naive-86400, 0).In(loc).Zone()
	_, o2 := time.Unix(naive+86400, 0).In(loc).Zone()
	if o1 == o2 {
		return []int64{naive - int64(o1)}
	}
	return []int64{naive - int64(o1), naive - int64(o2)}
}

var durRx = regexp.MustCompile(`^(([0-9]+)y)?(([0-9]+)m)?(([0-9]+)d)?$`)

// ParseDuration reads [Y]y[M]m[D]d.
func ParseDuration(s string) (y, m, d int, err error) {
	g := durRx.FindStringSubmatch(s)
	if g == nil {
		return 0, 0, 0, errors.New("duration not in [Y]y[M]m[D]d form")
	}
	y, _ = strconv.Atoi(g[2])
	m, _ = strconv.Atoi(g[4])
	d, _ = strconv.Atoi(g[6])
	return
}

// AddCalendar adds years, months and days to the wall-clock reading of the
// instant t (unix seconds) in loc and returns the possible resulting instants.
// Month/day overflow is normalised forward (Oct 31 + 1m = Dec 1).
func AddCalendar(t int64, ay, am, ad int, loc *time.Location) []int64 {
	lt := time.Unix(t, 0).In(loc)
	y, m, d := lt.Year()+ay, int(lt.Month())+am, lt.Day()
	// normalise month
	m0 := m - 1
	y += m0 / 12
	m0 %= 12
	if m0 < 0 {
		m0 += 12
		y--
	}
	days := daysFromCivil(y, m0+1, 1) + int64(d-1) + int64(ad)
	ny, nm, nd := civilFromDays(days)
	return LocalWall(ny, nm, nd, lt.Hour(), lt.Minute(), lt.Second(), loc)
}

// ValiditySpec is the effective validity block of an entity (own, else profile's).
// nil = none anywhere.
type Window struct {
	// NotBefore: either Static (set of acceptable instants) or relative to run time.
	FromStatic []int64
	FromNow    bool
	// NotAfter relative to NotBefore by calendar addition, or absolute.
	UntilStatic      []int64
	AddY, AddM, AddD int
	UntilAbs         bool
	Err              error // configuration is invalid (until+duration, bad date)
}

// RefWindow computes the documented meaning of a validity block.
func RefWindow(v *Validity, loc *time.Location) Window {
	var w Window
	if v == nil {
		v = &Validity{}
	}
	if v.From != "" {
		y, m, d, ok := ParseDate(v.From)
		if !ok {
			w.Err = errors.New("from: not a calendar date")
			return w
		}
		w.FromStatic = LocalWall(y, m, d, 0, 0, 0, loc)
	} else {
		w.FromNow = true
	}
	switch {
	case v.Until != "" && v.Duration != "":
		w.Err = errors.New("until and duration both given")
	case v.Until != "":
		y, m, d, ok := ParseDate(v.Until)
		if !ok {
			w.Err = errors.New("until: not a calendar date")
			return w
		}
		w.UntilAbs = true
		w.UntilStatic = LocalWall(y, m, d, 0, 0, 0, loc)
	case v.Duration != "":
		var err error
		w.AddY, w.AddM, w.AddD, err = ParseDuration(v.Duration)
		if err != nil {
			w.Err = err
		}
	default:
		w.AddY = 5
	}
	return w
}

// EffectiveValidity: "A certificate with no validity block of its own takes
// its profile's validity, otherwise its own wins."
func EffectiveValidity(c *CertCfg, p *ProfileCfg) *Validity {
	if c.Validity != nil && (c.Validity.From != "" || c.Validity.Until != "" || c.Validity.Duration != "") {
		return c.Validity
	}
	if p != nil && p.Validity != nil {
		return p.Validity
	}
	return c.Validity
}

// CheckWindow compares decoded notBefore/notAfter (UTC) with the window.
// runStart/runEnd bracket the gopki run (unix seconds).
func (w Window) Check(nb, na time.Time, runStart, runEnd int64, loc *time.Location) error {
	in := func(x int64, set []int64) bool {
		for _, s := range set {
			if s == x {
				return true
			}
		}
		return false
	}
	nbu, nau := nb.Unix(), na.Unix()
	if w.FromNow {
		if nbu < runStart-1 || nbu > runEnd+1 {
			return fmt.Errorf("notBefore %s is not the time of the run [%d,%d]", nb.Format(time.RFC3339), runStart, runEnd)
		}
	} else if !in(nbu, w.FromStatic) {
		return fmt.Errorf("notBefore %s, want local midnight %v", nb.UTC().Format(time.RFC3339), fmtInstants(w.FromStatic))
	}
	if w.UntilAbs {
		if !in(nau, w.UntilStatic) {
			return fmt.Errorf("notAfter %s, want local midnight %v", na.UTC().Format(time.RFC3339), fmtInstants(w.UntilStatic))
		}
		return nil
	}
	// calendar addition on the decoded notBefore (so no dependence on sub-second truncation)
	want := AddCalendar(nbu, w.AddY, w.AddM, w.AddD, loc)
	if !in(nau, want) {
		return fmt.Errorf("notAfter %s, want notBefore %s + %dy%dm%dd = %v", na.UTC().Format(time.RFC3339), nb.UTC().Format(time.RFC3339), w.AddY, w.AddM, w.AddD, fmtInstants(want))
	}
	return nil
}

func fmtInstants(s []int64) string {
	var out []string
	for _, x := range s {
		out = append(out, time.Unix(x, 0).UTC().Format(time.RFC3339))
	}
	return "[" + strings.Join(out, " | ") + "]"
}

// ---------------------------------------------------------------- merge (C08)

// MergeItem abstracts an extension for the merge rule.
type MergeItem struct {
	OID      string
	Content  string // canonical content identity; "" = content-less
	Optional bool
	Override bool
	Ref      int // index into the source list
	FromProf bool
}

// RefMerge is the statement of C08 transcribed.
func RefMerge(prof, cert []MergeItem) []MergeItem {
	matched := make([]bool, len(cert))
	placed := make([]bool, len(cert)) // placed by an override
	var out []MergeItem
	for _, pe := range prof {
		m := -1
		for i, ce := range cert {
			if !matched[i] && ce.OID == pe.OID {
				m = i
				break
			}
		}
		switch {
		case m >= 0 && pe.Override:
			matched[m] = true
			placed[m] = true
			out = append(out, cert[m])
		case m >= 0:
			matched[m] = true
			if cert[m].Content != pe.Content {
				out = append(out, pe)
			}
		case !pe.Optional:
			out = append(out, pe)
		}
	}
	for i, ce := range cert {
		if !placed[i] {
			out = append(out, ce)
		}
	}
	return out
}

// ---------------------------------------------------------------- validate (C09)

// RefValidate is the statement of C09. hasList=false means "no attribute
// list". subject is in written order (attribute type OIDs).
// definite=false marks the cases the statement leaves open: profile lists
// that name the same attribute more than once, where "a non-optional profile
// attribute is missing" can be read per type or per entry.
func RefValidate(attrs []SubjAttr, hasList bool, allowOther bool, subject []string) (accept bool, definite bool) {
	if !hasList {
		return true, true
	}
	oids := make([]string, len(attrs))
	opt := make([]bool, len(attrs))
	for i, a := range attrs {
		o, ok := AttrOID(a.Attribute)
		if !ok {
			return false, false
		}
		oids[i] = o
		opt[i] = a.Optional != nil && *a.Optional
	}
	count := func(l []string, t string) int {
		n := 0
		for _, x := range l {
			if x == t {
				n++
			}
		}
		return n
	}
	// required types that do not occur at all: missing under every reading
	for i := range attrs {
		if !opt[i] && count(subject, oids[i]) == 0 {
			return false, true
		}
	}
	if !allowOther {
		// in-order subsequence of the profile list
		j := 0
		for _, s := range subject {
			for j < len(oids) && oids[j] != s {
				j++
			}
			if j >= len(oids) {
				return false, true
			}
			j++
		}
		// accepted for sure if the subject is the profile list with only optional entries deleted
		var match func(i, j int) bool
		match = func(i, j int) bool {
			if j == len(subject) {
				for ; i < len(oids); i++ {
					if !opt[i] {
						return false
					}
				}
				return true
			}
			if i == len(oids) {
				return false
			}
			if oids[i] == subject[j] && match(i+1, j+1) {
				return true
			}
			return opt[i] && match(i+1, j)
		}
		if match(0, 0) {
			return true, true
		}
		return true, false // subsequence, every required type present, but a repeated required entry is unmatched
	}
	// allowOther: only missing required attributes reject
	for i := range attrs {
		if opt[i] {
			continue
		}
		need := 0
		for k := range attrs {
			if !opt[k] && oids[k] == oids[i] {
				need++
			}
		}
		if count(subject, oids[i]) < need {
			return true, false
		}
	}
	return true, true
}
