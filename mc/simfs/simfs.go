// Package simfs is a filesystem.Filesystem with a logical clock, a write log,
// a fault plan, cloning and snapshots. All persistent state of gopki is the
// directory, so a World is a complete system state.
package simfs

import (
	"crypto/sha256"
	"encoding/hex"
	"errors"
	"fmt"
	"io/fs"
	"os"
	"sort"
	"testing/fstest"
	"time"
)

// Base is the instant of tick 0. A tick is 10 ms, so that the writes of a run and the runs of a
// history lie within one second of each other, as they do in a scripted sequence of runs: gopki
// compares modification times with After, at the resolution the filesystem reports them.
var Base = time.Date(2020, 1, 1, 0, 0, 0, 0, time.UTC)

// TickUnit is the distance between two ticks.
const TickUnit = 10 * time.Millisecond

type File struct {
	Data []byte `json:"d"`
	Tick int64  `json:"t"`
}

// Clock modes.
const (
	TickPerWrite = 0 // every write gets its own tick
	TickPerRun   = 1 // all writes of one run share a tick (coarse timestamps)
	TickShared   = 2 // coarser still: the writes of a run share the tick of the last edit before it (saved and signed within one tick)
)

// Fault outcomes for the k-th WriteFile of a run.
const (
	FaultNone       = 0
	FaultErrNoWrite = 1 // error returned, file untouched
	FaultErrPrefix  = 2 // error returned after writing Prefix bytes
	FaultDiePrefix  = 3 // process dies after writing Prefix bytes
	FaultDieAfter   = 4 // process dies right after the complete write
)

type Fault struct {
	K      int `json:"k"`    // 0-based index of the write within the run
	Kind   int `json:"kind"` // Fault*
	Prefix int `json:"prefix,omitempty"`
	// Boundary >= 1 selects the prefix symbolically: the Boundary-th PEM block
	// boundary of the content being written (1 = end of the hash line, 2.. =
	// end of each block, clipped to the last) plus Delta bytes.
	Boundary int `json:"boundary,omitempty"`
	Delta    int `json:"delta,omitempty"`
}

// Boundaries returns the offsets after the hash line and after each PEM block.
func Boundaries(content []byte) []int {
	var out []int
	if len(content) > 0 && content[0] == '#' {
		if i := indexByte(content, '\n'); i >= 0 {
			out = append(out, i+1)
		}
	}
	off := 0
	for {
		i := indexOf(content[off:], []byte("-----END "))
		if i < 0 {
			break
		}
		j := indexByte(content[off+i:], '\n')
		if j < 0 {
			out = append(out, len(content))
			break
		}
		off = off + i + j + 1
		out = append(out, off)
	}
	return out
}

func indexByte(b []byte, c byte) int {
	for i, x := range b {
		if x == c {
			return i
		}
	}
	return -1
}

func indexOf(b, sub []byte) int {
	for i := 0; i+len(sub) <= len(b); i++ {
		if string(b[i:i+len(sub)]) == string(sub) {
			return i
		}
	}
	return -1
}

// Died is panicked by WriteFile to model process death; drive recovers it.
type Died struct{ Path string }

type WriteRec struct {
	Path string
	Data []byte
	Err  bool
}

type World struct {
	Files     map[string]*File `json:"files"`
	Clock     int64            `json:"clock"`
	ClockMode int              `json:"clock_mode"`

	// WriteDelay makes every WriteFile take this long (a slow disk): wall-clock time passes between
	// reading the configuration and building the entities that follow the first write.
	WriteDelay time.Duration `json:"-"`

	// Symlinks: link path -> target path (both relative to the directory). Only the command-line driver,
	// which materialises the world on the native filesystem, can realise them; the in-memory view ignores them.
	Symlinks map[string]string `json:"symlinks,omitempty"`

	// DirForm: how the command-line driver names the directory: 0 absolute path, 1 relative to the working
	// directory, 2 relative with ./ and a trailing slash, 3 "." from inside it, 4 through a symbolic link to it.
	DirForm int `json:"dir_form,omitempty"`

	// ReadFaults: reading the named file returns its first N bytes and then an I/O error.
	ReadFaults map[string]int `json:"-"`
	// StatFaults: Filesystem.Stat on the named path fails (a metadata call that is not available or breaks off), while the file opens and reads fine.
	StatFaults map[string]bool `json:"-"`

	// per-run state (not part of the persistent state)
	Log      []WriteRec `json:"-"`
	Deletes  []string   `json:"-"`
	Faults   []Fault    `json:"-"`
	writes   int
	runTick  int64
	mfs      fstest.MapFS
	mfsValid bool
}

func New(mode int) *World {
	return &World{Files: map[string]*File{}, ClockMode: mode, Clock: 1}
}

func (w *World) Clone() *World {
	n := &World{Files: make(map[string]*File, len(w.Files)), Clock: w.Clock, ClockMode: w.ClockMode, DirForm: w.DirForm}
	if w.Symlinks != nil {
		n.Symlinks = map[string]string{}
		for k, v := range w.Symlinks {
			n.Symlinks[k] = v
		}
	}
	for p, f := range w.Files {
		n.Files[p] = &File{Data: f.Data, Tick: f.Tick} // Data is never mutated in place
	}
	return n
}

// Put is an edit by the user: always advances the clock.
func (w *World) Put(path string, data []byte) {
	w.Clock++
	w.Files[path] = &File{Data: data, Tick: w.Clock}
	w.mfsValid = false
}

// PutAt sets a file with an explicit tick (state construction).
func (w *World) PutAt(path string, data []byte, tick int64) {
	w.Files[path] = &File{Data: data, Tick: tick}
	if tick > w.Clock {
		w.Clock = tick
	}
	w.mfsValid = false
}

func (w *World) Touch(path string) {
	if f, ok := w.Files[path]; ok {
		w.Clock++
		f.Tick = w.Clock
		w.mfsValid = false
	}
}

func (w *World) Remove(path string) {
	delete(w.Files, path)
	w.mfsValid = false
}

// BeginRun resets the per-run log and takes the run tick.
func (w *World) BeginRun(faults []Fault) {
	w.Log = nil
	w.Deletes = nil
	w.Faults = faults
	w.writes = 0
	if w.ClockMode != TickShared {
		w.Clock++
	}
	w.runTick = w.Clock
}

func (w *World) view() fstest.MapFS {
	if w.mfsValid {
		return w.mfs
	}
	m := fstest.MapFS{}
	for p, f := range w.Files {
		m[p] = &fstest.MapFile{Data: f.Data, Mode: 0o644, ModTime: Base.Add(time.Duration(f.Tick) * TickUnit)}
	}
	w.mfs, w.mfsValid = m, true
	return m
}

// filesystem.Filesystem

func (w *World) FS() fs.FS {
	if len(w.ReadFaults) == 0 {
		return w.view()
	}
	return faultFS{w.view(), w.ReadFaults}
}

// faultFS passes everything through to the map, except that the files named in faults break off while being read.
type faultFS struct {
	m      fstest.MapFS
	faults map[string]int
}

func (f faultFS) Open(name string) (fs.File, error) {
	file, err := f.m.Open(name)
	if err != nil {
		return nil, err
	}
	if n, ok := f.faults[name]; ok {
		return &faultFile{File: file, left: n}, nil
	}
	return file, nil
}
func (f faultFS) Stat(name string) (fs.FileInfo, error)      { return f.m.Stat(name) }
func (f faultFS) ReadDir(name string) ([]fs.DirEntry, error) { return f.m.ReadDir(name) }

type faultFile struct {
	fs.File
	left int
}

func (f *faultFile) Read(p []byte) (int, error) {
	if f.left <= 0 {
		return 0, errors.New("simfs: injected read error")
	}
	if len(p) > f.left {
		p = p[:f.left]
	}
	n, err := f.File.Read(p)
	f.left -= n
	return n, err
}

func (w *World) Stat(name string) (os.FileInfo, error) {
	if w.StatFaults[name] {
		return nil, &fs.PathError{Op: "stat", Path: name, Err: errors.New("input/output error (injected)")}
	}
	return w.view().Stat(name)
}

func (w *World) WriteFile(name string, content []byte) error {
	if w.WriteDelay > 0 {
		time.Sleep(w.WriteDelay)
	}
	k := w.writes
	w.writes++
	var ft *Fault
	for i := range w.Faults {
		if w.Faults[i].K == k {
			ft = &w.Faults[i]
		}
	}
	tick := w.runTick
	if w.ClockMode == TickPerWrite {
		w.Clock++
		tick = w.Clock
	}
	store := func(b []byte) {
		w.Files[name] = &File{Data: append([]byte{}, b...), Tick: tick}
		w.mfsValid = false
	}
	if ft == nil || ft.Kind == FaultNone {
		store(content)
		w.Log = append(w.Log, WriteRec{Path: name, Data: content})
		return nil
	}
	p := ft.Prefix
	if ft.Boundary >= 1 {
		bs := Boundaries(content)
		if len(bs) > 0 {
			i := ft.Boundary - 1
			if i >= len(bs) {
				i = len(bs) - 1
			}
			p = bs[i] + ft.Delta
		}
	}
	if p > len(content) {
		p = len(content)
	}
	if p < 0 {
		p = 0
	}
	switch ft.Kind {
	case FaultErrNoWrite:
		w.Log = append(w.Log, WriteRec{Path: name, Err: true})
		return errors.New("simfs: injected write error (nothing written)")
	case FaultErrPrefix:
		store(content[:p])
		w.Log = append(w.Log, WriteRec{Path: name, Data: content[:p], Err: true})
		return fmt.Errorf("simfs: injected write error after %d bytes", p)
	case FaultDiePrefix:
		store(content[:p])
		w.Log = append(w.Log, WriteRec{Path: name, Data: content[:p], Err: true})
		panic(Died{name})
	case FaultDieAfter:
		store(content)
		w.Log = append(w.Log, WriteRec{Path: name, Data: content})
		panic(Died{name})
	}
	return nil
}

func (w *World) DeleteFile(name string) error {
	w.Deletes = append(w.Deletes, name)
	delete(w.Files, name)
	w.mfsValid = false
	return nil
}

// Paths returns all file paths sorted.
func (w *World) Paths() []string {
	out := make([]string, 0, len(w.Files))
	for p := range w.Files {
		out = append(out, p)
	}
	sort.Strings(out)
	return out
}

// Snapshot is a byte-exact digest of the directory including ticks.
func (w *World) Snapshot() string {
	h := sha256.New()
	for _, p := range w.Paths() {
		f := w.Files[p]
		fmt.Fprintf(h, "%s\x00%d\x00%d\x00", p, f.Tick, len(f.Data))
		h.Write(f.Data)
	}
	return hex.EncodeToString(h.Sum(nil))
}

// Diff lists paths whose content or tick differ between two worlds.
func Diff(a, b *World) []string {
	var out []string
	seen := map[string]bool{}
	for p, fa := range a.Files {
		seen[p] = true
		fb, ok := b.Files[p]
		if !ok {
			out = append(out, "removed:"+p)
		} else if string(fa.Data) != string(fb.Data) {
			out = append(out, "content:"+p)
		} else if fa.Tick != fb.Tick {
			out = append(out, "mtime:"+p)
		}
	}
	for p := range b.Files {
		if !seen[p] {
			out = append(out, "created:"+p)
		}
	}
	sort.Strings(out)
	return out
}

// Ranks returns the dense rank of each file's tick (ties kept).
func (w *World) Ranks() map[string]int {
	ticks := []int64{}
	seen := map[int64]bool{}
	for _, f := range w.Files {
		if !seen[f.Tick] {
			seen[f.Tick] = true
			ticks = append(ticks, f.Tick)
		}
	}
	sort.Slice(ticks, func(i, j int) bool { return ticks[i] < ticks[j] })
	rk := map[int64]int{}
	for i, t := range ticks {
		rk[t] = i
	}
	out := map[string]int{}
	for p, f := range w.Files {
		out[p] = rk[f.Tick]
	}
	return out
}
